package tf

import (
	"fmt"
	"go/ast"
	"go/constant"
	"go/token"
	"go/types"
	"strings"

	"golang.org/x/tools/go/cfg"
)

// Round 8 (DESIGN 8.16): rules for the changes of the eighth seeding round that the earlier rules missed.

func init() {
	Register(&Rule{
		Name:  "R-FLUSH-SERIAL",
		Props: []string{"C05", "C04"},
		Min:   2,
		Doc: "the resume metadata of a file is written by one flush at a time: in the methods of Sidecar (and the helpers they call) every os.WriteFile / os.Rename runs with the sidecar's own mutex held in write mode (lockset; a helper inherits what all its call sites hold) - " +
			"all flushes of one sidecar (1 s ticker, finalize, deferred clean-up, signal handler) use the one temporary name <path>.tmp, and two of them interleaving can rename a torn or older image over a newer one: marks disappear or name chunks that the image being written did not have",
		Run: runFlushSerial,
	})
	Register(&Rule{
		Name:  "R-REPORT-ACCEPTED",
		Props: []string{"C04"},
		Min:   1,
		Doc: "the sender plans from any resume report an interrupted receiver can leave behind: in the handler of a resume report (the literal that reads LastVerifiedChunk) no error return depends on how many chunks the bitmap marks (CountSet), other than as an upper bound - " +
			"with several data streams a kill leaves holes below the highest complete chunk, every count from 1 to the total with any highest chunk is a valid state, and a refused report fails the retry in the same way on every further attempt",
		Run: runReportAccepted,
	})
	Register(&Rule{
		Name:  "R-REPEAT-ACCEPTED",
		Props: []string{"C04", "C06"},
		Min:   1,
		Doc: "the receiver takes a chunk again that it already has: in the data-stream reader of RecvManifestMultiStream (the literal that calls markChunkComplete) no failure (finalizeFile(.., false, ..), a non-nil error to the error channel) is controlled by a condition that consults the resume bitmap (IsComplete / Get / HighestComplete ...) - " +
			"the sender starts a file without a plan when the report is later than its grace period and re-sends verified chunks on a hash mismatch, so marked chunks do come again; they are written in place and not counted twice",
		Run: runRepeatAccepted,
	})
	Register(&Rule{
		Name:  "R-GIVEUP-NOT-SHORTER",
		Props: []string{"C09", "C08"},
		Min:   3,
		Doc: "the receiver gives up on a join only after a candidate had the time to authenticate: in snapshotReceiver.runTransfer the duration of the give-up timer armed by the first failed authentication (time.After assigned to a channel variable) is a constant not smaller than the authentication timeout of one candidate (context.WithTimeout in front of authenticateTransport); " +
			"and (units) every constant duration handed to time.After / time.NewTimer / context.WithTimeout / time.Sleep / time.NewTicker in internal/app, internal/transfer and cmd is built from a time.Duration constant - a bare number is nanoseconds (`time.After(authTimeout)` with an untyped 10 is 10 ns: the close of a connection that lost the sender's race then ends the join while the sender authenticates on the winner)",
		Run: runGiveUpNotShorter,
	})
	Register(&Rule{
		Name:  "R-OVERRATE-CLOSES",
		Props: []string{"C10", "C14"},
		Min:   1,
		Doc: "a frame the server read is routed, answered, or ends the connection - never skipped because of the message rate: in the read loop of handleWebSocket no path from the edge on which the connection's token bucket refuses (`!limiter.Allow()`) leads back to the next ReadMessage - " +
			"a skipped frame is a signaling message lost while author and recipient stay connected and nobody is told; closing the author's connection makes the loss visible (the author's socket fails, the others get peer_left)",
		Run: runOverrateCloses,
	})
	Register(&Rule{
		Name:  "R-CLOSEFN-NONBLOCKING",
		Props: []string{"C11", "C10"},
		Min:   1,
		Doc: "the function the hub calls to get rid of a connection cannot wait for that connection: the closeFn handed to Hub.AddIf / Hub.Add takes no mutex that is held across a write on the websocket without a deadline (WriteJSON / WriteMessage under writeMu) - " +
			"the hub calls it from other parties' goroutines (slow-peer cut-off inside SendTo/Broadcast, replacement inside AddIf, CloseSession) exactly when the connection is stuck, i.e. when its writer sits in that write holding the mutex; only conn.Close() releases the writer",
		Run: runCloseFnNonblocking,
	})
}

// regionAllPathsHit: every path from the start of block `from` to a block satisfying stop (or, unless exitOK, to a function exit) passes a node satisfying good.
func regionAllPathsHit(c *CFG, from *cfg.Block, good func(ast.Node) bool, stop func(*cfg.Block) bool, exitOK bool) bool {
	ok := true
	seen := map[*cfg.Block]bool{}
	var walk func(b *cfg.Block)
	walk = func(b *cfg.Block) {
		if !ok || seen[b] {
			return
		}
		seen[b] = true
		if stop(b) {
			ok = false
			return
		}
		for _, nd := range b.Nodes {
			if good(nd) {
				return
			}
		}
		live := 0
		for _, s := range b.Succs {
			if s.Live {
				live++
				walk(s)
			}
		}
		if live == 0 && !exitOK {
			ok = false
		}
	}
	walk(from)
	return ok
}

// ---------------------------------------------------------------------------

func runFlushSerial(c *Ctx) {
	p := c.P
	ls := NewLockSpec()
	n := 0
	for _, f := range p.FuncsIn("internal/transfer") {
		root := f.Root()
		if root.Decl == nil || root.Decl.Recv == nil || len(root.Decl.Recv.List) != 1 || len(root.Decl.Recv.List[0].Names) != 1 {
			continue
		}
		if !strings.HasPrefix(root.Name, "transfer.(*Sidecar).") {
			continue
		}
		recv := root.Decl.Recv.List[0].Names[0].Name
		info := f.Info()
		k := 0
		f.CFG().Calls(func(r NodeRef, call *ast.CallExpr) {
			name, ok := osMutator(info, call)
			if !ok || (name != "WriteFile" && name != "Rename") {
				return
			}
			n++
			k++
			_, w := Held(ls, f, r, recv+".mu")
			c.Check(w, fmt.Sprintf("flush-serial/%s#%d/%s", f.Name, k, name), call.Pos(), "runs with "+recv+".mu held",
				"os."+name+" on the sidecar's files runs without "+recv+".mu held (held here: "+strings.Join(HeldAny(ls, f, r), ", ")+"): two flushes of the same sidecar (ticker, finalize, clean-up, signal handler) share the temporary name and can interleave - "+
					"one renames the file the other is still writing, or an older image lands over a newer one, and the metadata on disk no longer describes the chunks on disk")
		})
	}
	if n == 0 {
		c.Bad("flush-serial/none", token.NoPos, "found no os.WriteFile / os.Rename in the methods of Sidecar")
	}
}

// ---------------------------------------------------------------------------

// mentionsCall: e (with its single-definition locals resolved, depth levels) contains a call of a method with one of the names on a
// receiver whose type name is one of types.
func mentionsMethodCall(f *FuncInfo, e ast.Expr, depth int, typeNames, methods []string) bool {
	hit := false
	for _, d := range resolveExprs(f, e, depth) {
		ast.Inspect(d, func(m ast.Node) bool {
			call, ok := m.(*ast.CallExpr)
			if !ok {
				return true
			}
			fn := Callee(f.Info(), call)
			if fn == nil {
				return true
			}
			sig, _ := fn.Type().(*types.Signature)
			if sig == nil || sig.Recv() == nil {
				return true
			}
			if containsStr(typeNames, recvTypeName(sig.Recv().Type())) && containsStr(methods, fn.Name()) {
				hit = true
			}
			return true
		})
	}
	return hit
}

func runReportAccepted(c *Ctx) {
	p := c.P
	send := p.Func("transfer.SendManifestMultiStream")
	if send == nil {
		c.MissingAnchor("transfer.SendManifestMultiStream")
		return
	}
	n := 0
	for _, f := range allKids(send) {
		if f.Lit == nil {
			continue
		}
		info := f.Info()
		reads := false
		InspectNoLits(f.Body, func(m ast.Node) bool {
			if sel, ok := m.(*ast.SelectorExpr); ok && sel.Sel.Name == "LastVerifiedChunk" {
				if t := info.TypeOf(sel.X); t != nil && strings.HasSuffix(t.String(), "FileResumeInfo") {
					reads = true
				}
			}
			return true
		})
		if !reads || f.Type.Results == nil || len(f.Type.Results.List) != 1 {
			continue
		}
		n++
		k := 0
		InspectNoLits(f.Body, func(m ast.Node) bool {
			rs, ok := m.(*ast.ReturnStmt)
			if !ok || len(rs.Results) != 1 || types.ExprString(rs.Results[0]) == "nil" {
				return true
			}
			k++
			var bad ast.Expr
			for _, is := range enclosingIfs(f.Body, rs) {
				// every comparison of the condition
				ast.Inspect(is.Cond, func(x ast.Node) bool {
					be, ok := x.(*ast.BinaryExpr)
					if !ok {
						return true
					}
					switch be.Op {
					case token.EQL, token.NEQ, token.LSS, token.LEQ, token.GTR, token.GEQ:
					default:
						return true
					}
					cx := mentionsMethodCall(f, be.X, 3, []string{"Bitmap", "Sidecar"}, []string{"CountSet"})
					cy := mentionsMethodCall(f, be.Y, 3, []string{"Bitmap", "Sidecar"}, []string{"CountSet"})
					if !cx && !cy {
						return true
					}
					// an upper bound on the count alone (count > total) refuses nothing a receiver can produce
					upper := (cx && !cy && (be.Op == token.GTR || be.Op == token.GEQ)) || (cy && !cx && (be.Op == token.LSS || be.Op == token.LEQ))
					other := be.Y
					if cy {
						other = be.X
					}
					relatesHighest := false
					for _, d := range resolveExprs(f, other, 3) {
						ast.Inspect(d, func(y ast.Node) bool {
							if s, ok := y.(*ast.SelectorExpr); ok && s.Sel.Name == "LastVerifiedChunk" {
								relatesHighest = true
							}
							return true
						})
					}
					if !upper || relatesHighest {
						bad = be
					}
					return true
				})
			}
			c.Check(bad == nil, fmt.Sprintf("report-accepted/%s/return#%d", f.Name, k), rs.Pos(), "the refusal does not depend on how many chunks the report marks",
				"a resume report is refused depending on the number of chunks its bitmap marks (`"+exprStr(bad)+"`): with several data streams an interruption leaves holes below the highest complete chunk (a lower chunk still in flight, a higher one already marked and flushed) - "+
					"a valid report is answered with an error, nothing on the receiver's disk changes in the failed attempt, and every retry fails the same way")
			return true
		})
	}
	if n == 0 {
		c.Bad("report-accepted/none", send.Pos(), "found no handler of a resume report (a literal that reads FileResumeInfo.LastVerifiedChunk and returns an error) in SendManifestMultiStream")
	}
}

func exprStr(e ast.Expr) string {
	if e == nil {
		return ""
	}
	return types.ExprString(e)
}

func runRepeatAccepted(c *Ctx) {
	p := c.P
	recv := p.Func("transfer.RecvManifestMultiStream")
	if recv == nil {
		c.MissingAnchor("transfer.RecvManifestMultiStream")
		return
	}
	n := 0
	for _, f := range allKids(recv) {
		if f.Lit == nil {
			continue
		}
		info := f.Info()
		reader := false
		InspectNoLits(f.Body, func(m ast.Node) bool {
			if call, ok := m.(*ast.CallExpr); ok {
				if g := p.CalleeInfo(info, call); g != nil && g.Name == "transfer.(*recvFileStateMux).markChunkComplete" {
					reader = true
				}
			}
			return true
		})
		if !reader {
			continue
		}
		n++
		k := 0
		InspectNoLits(f.Body, func(m ast.Node) bool {
			fail := false
			switch s := m.(type) {
			case *ast.CallExpr:
				if id, ok := ast.Unparen(s.Fun).(*ast.Ident); ok && id.Name == "finalizeFile" && len(s.Args) >= 2 && types.ExprString(s.Args[1]) == "false" {
					fail = true
				}
			case *ast.SendStmt:
				if t := info.TypeOf(s.Value); t != nil && isErrorType(t) && types.ExprString(s.Value) != "nil" {
					fail = true
				}
			}
			if !fail {
				return true
			}
			k++
			var bad ast.Expr
			for _, is := range enclosingIfs(f.Body, m) {
				if mentionsMethodCall(f, is.Cond, 2, []string{"Sidecar", "Bitmap"}, []string{"IsComplete", "Get", "IsSet", "HighestComplete", "HighestContiguous", "CountSet"}) {
					bad = is.Cond
				}
			}
			c.Check(bad == nil, fmt.Sprintf("repeat-accepted/%s/fail#%d", f.Name, k), m.Pos(), "the failure does not depend on the chunk being marked already",
				"the data-stream reader fails the transfer depending on what the resume bitmap says about the chunk (`"+exprStr(bad)+"`): an honest sender repeats marked chunks - it starts a file without a plan when the report takes longer than its grace period, "+
					"re-sends a tail on request and after a hash mismatch - so a resumed transfer over a slow path fails at the first repeated frame, and again on every retry")
			return true
		})
	}
	if n == 0 {
		c.Bad("repeat-accepted/none", recv.Pos(), "found no data-stream reader (a literal that calls markChunkComplete) in RecvManifestMultiStream")
	}
}

// ---------------------------------------------------------------------------

// durationConst: the constant value of e in nanoseconds, and whether the expression is built from a time.Duration constant
// (time.Second ...) rather than being a bare number.
func durationConst(info *types.Info, e ast.Expr) (ns int64, typed bool, ok bool) {
	tv, has := info.Types[e]
	if !has || tv.Value == nil {
		return 0, false, false
	}
	v, exact := constant.Int64Val(constant.ToInt(tv.Value))
	if !exact {
		return 0, false, false
	}
	ast.Inspect(e, func(m ast.Node) bool {
		var o types.Object
		switch x := m.(type) {
		case *ast.Ident:
			o = info.Uses[x]
		}
		if cst, isC := o.(*types.Const); isC && cst.Type().String() == "time.Duration" {
			typed = true
		}
		// an explicit conversion time.Duration(x) says the unit is meant
		if call, isCall := m.(*ast.CallExpr); isCall {
			if t, ok := info.Types[call.Fun]; ok && t.IsType() && t.Type.String() == "time.Duration" {
				typed = true
			}
		}
		return true
	})
	return v, typed, true
}

func durationArg(info *types.Info, call *ast.CallExpr) (ast.Expr, string) {
	for _, c := range []struct {
		pkg, name string
		idx       int
	}{{"time", "After", 0}, {"time", "NewTimer", 0}, {"time", "NewTicker", 0}, {"time", "Sleep", 0}, {"time", "AfterFunc", 0}, {"time", "Tick", 0}, {"context", "WithTimeout", 1}} {
		if calleeIs(info, call, c.pkg, c.name) && len(call.Args) > c.idx {
			return call.Args[c.idx], c.pkg + "." + c.name
		}
	}
	return nil, ""
}

func runGiveUpNotShorter(c *Ctx) {
	p := c.P
	rt := p.Func("app.(*snapshotReceiver).runTransfer")
	if rt == nil {
		c.MissingAnchor("app.(*snapshotReceiver).runTransfer")
		return
	}
	// the authentication timeout of one candidate: context.WithTimeout whose context is handed to authenticateTransport
	var authT ast.Expr
	var authF *FuncInfo
	for _, f := range allKids(rt) {
		info := f.Info()
		InspectNoLits(f.Body, func(m ast.Node) bool {
			as, ok := m.(*ast.AssignStmt)
			if !ok || len(as.Rhs) != 1 || len(as.Lhs) != 2 {
				return true
			}
			call, ok := ast.Unparen(as.Rhs[0]).(*ast.CallExpr)
			if !ok || !calleeIs(info, call, "context", "WithTimeout") {
				return true
			}
			ctxObj := ObjOf(info, as.Lhs[0])
			used := false
			InspectNoLits(f.Body, func(x ast.Node) bool {
				if c2, ok := x.(*ast.CallExpr); ok {
					if g := p.CalleeInfo(info, c2); g != nil && g.Name == "app.authenticateTransport" && len(c2.Args) > 0 && ObjOf(info, c2.Args[0]) == ctxObj {
						used = true
					}
				}
				return true
			})
			if used && authT == nil {
				authT, authF = call.Args[1], f
			}
			return true
		})
	}
	if authT == nil {
		c.Unknown("giveup/auth-timeout", rt.Pos(), "cannot find the authentication timeout of a candidate (context.WithTimeout in front of authenticateTransport) in snapshotReceiver.runTransfer")
	} else {
		tns, _, tok := durationConst(authF.Info(), authT)
		n := 0
		info := rt.Info()
		InspectNoLits(rt.Body, func(m ast.Node) bool {
			as, ok := m.(*ast.AssignStmt)
			if !ok || len(as.Lhs) != 1 || len(as.Rhs) != 1 {
				return true
			}
			call, ok := ast.Unparen(as.Rhs[0]).(*ast.CallExpr)
			if !ok || !calleeIs(info, call, "time", "After") || len(call.Args) != 1 {
				return true
			}
			// armed inside a select case (the first failed authentication)
			n++
			key := fmt.Sprintf("giveup/timer#%d", n)
			gns, _, gok := durationConst(info, call.Args[0])
			switch {
			case gok && tok:
				c.Check(gns >= tns, key, call.Pos(), fmt.Sprintf("the give-up timer (%d ns) is not shorter than the authentication timeout of a candidate (%d ns)", gns, tns),
					fmt.Sprintf("the give-up timer armed by the first failed authentication runs %d ns, the authentication of a candidate may take %d ns: the failure of a connection the sender abandoned (closed as the loser of its race) "+
						"ends the join while the sender is still authenticating on the connection it kept - the peers never meet on the one connection", gns, tns))
			case types.ExprString(call.Args[0]) == types.ExprString(authT):
				c.OK(key, call.Pos(), "the give-up timer uses the expression of the authentication timeout")
			default:
				c.Unknown(key, call.Pos(), "cannot compare the give-up timer "+types.ExprString(call.Args[0])+" with the authentication timeout "+types.ExprString(authT)+" (not constants)")
			}
			return true
		})
		if n == 0 {
			c.Bad("giveup/none", rt.Pos(), "snapshotReceiver.runTransfer arms no give-up timer (time.After assigned to a variable): a failed authentication is either fatal at once or never")
		}
	}
	// units
	nu := 0
	for _, rel := range []string{"internal/app", "internal/transfer", "cmd/thruserv", "cmd/thru", "internal/peers", "internal/transferquic", "internal/ice"} {
		for _, f := range p.FuncsIn(rel) {
			if f.Body == nil || strings.HasSuffix(p.Fset.Position(f.Pos()).Filename, "_test.go") {
				continue
			}
			info := f.Info()
			k := 0
			InspectNoLits(f.Body, func(m ast.Node) bool {
				call, ok := m.(*ast.CallExpr)
				if !ok {
					return true
				}
				arg, what := durationArg(info, call)
				if arg == nil {
					return true
				}
				ns, typed, ok := durationConst(info, arg)
				if !ok {
					return true
				}
				nu++
				k++
				c.Check(typed || ns == 0, fmt.Sprintf("giveup/units/%s#%d", f.Name, k), call.Pos(), "the constant duration is built from a time.Duration constant",
					fmt.Sprintf("%s(%s) is a bare number: %d nanoseconds - a unit was lost (an untyped constant converts to time.Duration silently), and the wait it bounds is over before anything can answer", what, types.ExprString(arg), ns))
				return true
			})
		}
	}
	if nu == 0 {
		c.Bad("giveup/units/none", token.NoPos, "found no constant duration in the application packages")
	}
}

// ---------------------------------------------------------------------------

func runOverrateCloses(c *Ctx) {
	p := c.P
	hw := p.Func("cmd/thruserv.handleWebSocket")
	if hw == nil {
		c.MissingAnchor("cmd/thruserv.handleWebSocket")
		return
	}
	info := hw.Info()
	g := hw.CFG()
	isRead := func(n ast.Node) bool {
		hit := false
		InspectNoLits(n, func(m ast.Node) bool {
			if call, ok := m.(*ast.CallExpr); ok && calleeIs(info, call, "github.com/gorilla/websocket", "Conn.ReadMessage") {
				hit = true
			}
			return true
		})
		return hit
	}
	isAllow := func(e ast.Expr) bool {
		call, ok := ast.Unparen(e).(*ast.CallExpr)
		if !ok {
			return false
		}
		fn := Callee(info, call)
		return fn != nil && fn.Name() == "Allow" && fn.Pkg() != nil && strings.HasSuffix(fn.Pkg().Path(), "cmd/thruserv")
	}
	// only refusals inside the read loop: the condition block must be able to reach a ReadMessage
	n := 0
	for _, b := range g.Blocks {
		cond, t, f, ok := CondEdges(b)
		if !ok || !b.Live {
			continue
		}
		var refuse *cfg.Block
		for _, a := range Implied(cond, true) {
			if isAllow(a.E) && !a.Val {
				refuse = t
			}
		}
		for _, a := range Implied(cond, false) {
			if isAllow(a.E) && !a.Val {
				refuse = f
			}
		}
		if refuse == nil {
			continue
		}
		// is this the read loop? some ReadMessage reaches this block
		inLoop := false
		g.EachNode(func(r NodeRef) {
			if isRead(r.Node()) && g.Reaches(r, NodeRef{b, 0}) {
				inLoop = true
			}
		})
		if !inLoop {
			continue
		}
		n++
		// no path from the refusal back to a ReadMessage
		again := false
		seen := map[*cfg.Block]bool{}
		var walk func(x *cfg.Block)
		walk = func(x *cfg.Block) {
			if seen[x] || again {
				return
			}
			seen[x] = true
			for _, nd := range x.Nodes {
				if isRead(nd) {
					again = true
					return
				}
			}
			for _, s := range x.Succs {
				if s.Live {
					walk(s)
				}
			}
		}
		walk(refuse)
		c.Check(!again, fmt.Sprintf("overrate-closes/refusal#%d", n), cond.Pos(), "a frame over the message rate ends the read loop",
			"a frame over the message rate is skipped and the loop reads on: the message is never routed, author and recipient stay connected and neither is told - the recipient's stream from that author has holes, "+
				"which is a signaling message lost while the recipient keeps reading; ending the author's connection makes the loss visible to everybody")
	}
	if n == 0 {
		c.Bad("overrate-closes/none", hw.Pos(), "the read loop of handleWebSocket does not consult the per-connection message limiter")
	}
}

// ---------------------------------------------------------------------------

func runCloseFnNonblocking(c *Ctx) {
	p := c.P
	ls := NewLockSpec()
	n := 0
	for _, rel := range []string{"cmd/thruserv"} {
		for _, f := range p.FuncsIn(rel) {
			if f.Body == nil {
				continue
			}
			info := f.Info()
			InspectNoLits(f.Body, func(m ast.Node) bool {
				call, ok := m.(*ast.CallExpr)
				if !ok {
					return true
				}
				g := p.CalleeInfo(info, call)
				if g == nil || (g.Name != "peers.(*Hub).AddIf" && g.Name != "peers.(*Hub).Add") || len(call.Args) < 4 {
					return true
				}
				n++
				key := fmt.Sprintf("closefn/%s#%d", f.Name, n)
				var lit *FuncInfo
				switch a := ast.Unparen(call.Args[3]).(type) {
				case *ast.FuncLit:
					lit = p.LitInfo(a)
				case *ast.Ident:
					if v, ok := ObjOf(info, a).(*types.Var); ok {
						lit = p.ClosureOfVar(v)
					}
				}
				if lit == nil {
					c.Unknown(key, call.Pos(), "cannot resolve the close function handed to the hub ("+types.ExprString(call.Args[3])+") to a function literal")
					return true
				}
				// mutexes the close function takes (also in closures it calls)
				locks := map[string]token.Pos{}
				var collect func(fi *FuncInfo, depth int)
				collect = func(fi *FuncInfo, depth int) {
					ast.Inspect(fi.Body, func(x ast.Node) bool {
						c2, ok := x.(*ast.CallExpr)
						if !ok {
							return true
						}
						if mu, op, ok := mutexOp(fi.Info(), c2); ok && (op == "Lock" || op == "RLock") {
							locks[mu] = c2.Pos()
						}
						if depth < 2 {
							if h := p.CalleeInfo(fi.Info(), c2); h != nil && h.Body != nil && h.Lit != nil && h != fi {
								collect(h, depth+1)
							}
						}
						return true
					})
				}
				collect(lit, 0)
				// mutexes held across a write without a deadline, anywhere in the function that owns the connection
				heldOverWrite := map[string]token.Pos{}
				for _, k := range allKids(f.Root()) {
					ki := k.Info()
					k.CFG().Calls(func(r NodeRef, c2 *ast.CallExpr) {
						for _, w := range []string{"Conn.WriteJSON", "Conn.WriteMessage", "Conn.NextWriter", "Conn.WritePreparedMessage"} {
							if calleeIs(ki, c2, "github.com/gorilla/websocket", w) {
								for _, h := range HeldAny(ls, k, r) {
									heldOverWrite[strings.TrimPrefix(strings.TrimPrefix(h, "W:"), "R:")] = c2.Pos()
								}
							}
						}
					})
				}
				var bad []string
				for mu, pos := range locks {
					if wp, ok := heldOverWrite[mu]; ok {
						bad = append(bad, fmt.Sprintf("%s (taken at %s, held over the write at %s)", mu, p.Pos(pos), p.Pos(wp)))
					}
				}
				c.Check(len(bad) == 0, key, call.Pos(), fmt.Sprintf("the close function takes none of the mutexes held over a websocket write (%d such)", len(heldOverWrite)),
					"the close function handed to the hub takes "+strings.Join(bad, "; ")+": the hub calls it from other goroutines exactly when this connection is stuck - its writer then sits in that write, which has no deadline, holding the mutex; "+
						"the close function blocks in front of conn.Close(), the only thing that would release the writer, and the caller (a sender inside SendTo/Broadcast, a reconnecting peer inside AddIf, the expiry inside CloseSession) hangs for ever")
				return true
			})
		}
	}
	if n == 0 {
		c.Bad("closefn/none", token.NoPos, "found no call of Hub.AddIf / Hub.Add in cmd/thruserv")
	}
}
