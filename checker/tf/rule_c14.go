package tf

import (
	"fmt"
	"go/ast"
	"go/token"
	"go/types"
	"sort"
	"strings"
)

func init() {
	Register(&Rule{
		Name:  "R-CHECK-ACT/C12",
		Props: []string{"C12"},
		Min:   2,
		Doc: "atomic admission in the host scheduler: a condition that reads SnapshotSender.active / queue and a write to that field which it dominates are in one critical section (no Unlock between): " +
			"the slot-limit test and the slot insertion cannot be interleaved by another admission",
		Run: func(c *Ctx) { runCheckActIn(c, map[string]bool{"internal/app": true}, false) },
	})
	Register(&Rule{
		Name:  "R-CHECK-ACT",
		Props: []string{"C14"},
		Min:   5,
		Doc: "atomic admission: (A) inside the lock-protected types, a condition that reads a guarded container/counter and a write to that same guarded field which it dominates are in one critical section " +
			"(no Unlock on any path between them); (B) in the server handlers, a limit comparison whose operand derives from a call to a lock-taking method of the session store / hub is not followed by " +
			"an inserting call on the same object (that is two critical sections: concurrent requests pass the test together and exceed the limit)",
		Run: func(c *Ctx) {
			runCheckActIn(c, map[string]bool{"internal/session": true, "cmd/thruserv": true, "internal/peers": true}, true)
		},
	})
	Register(&Rule{
		Name:  "R-SESSION-LIFE",
		Props: []string{"C14", "C16"},
		Min:   7,
		Doc: "join codes: the insertion into Store.byCode is reachable only through the 'not present' outcome of a lookup of the same key in the same critical section; GetByJoinCode returns found only past the expiry comparison; " +
			"the expiry timer callback and the host's deferred cleanup both delete the session; the host cleanup is registered before any return that follows the peer's registration in the hub; " +
			"message-rate and size enforcement precede routing in the read loop and the connection limits precede the WebSocket upgrade",
		Run: runSessionLife,
	})
}

// guardedFieldsOf returns guarded field objects and the mutex name for every lockset-table type of a package.
func guardedIn(p *Program, pkg string) (map[*types.Var]string, map[*types.Var]string) {
	fields := map[*types.Var]string{} // field -> mutex field name
	owner := map[*types.Var]string{}
	for _, t := range locksetTable {
		if t.pkg != pkg {
			continue
		}
		tn, _ := p.LookupObj(t.pkg, t.typ).(*types.TypeName)
		if tn == nil {
			continue
		}
		st, ok := tn.Type().Underlying().(*types.Struct)
		if !ok {
			continue
		}
		for i := 0; i < st.NumFields(); i++ {
			for _, g := range t.fields {
				if st.Field(i).Name() == g {
					fields[st.Field(i)] = t.mu
					owner[st.Field(i)] = t.typ
				}
			}
		}
	}
	return fields, owner
}

func runCheckActIn(c *Ctx, pkgs map[string]bool, doSplit bool) {
	p := c.P
	ls := NewLockSpec()
	// ---- (A) inside lock-protected types
	for pkg := range pkgs {
		fields, owner := guardedIn(p, pkg)
		for _, f := range p.FuncsIn(pkg) {
			info := f.Info()
			cfg := f.CFG()
			type access struct {
				ref   NodeRef
				field *types.Var
				base  string
				write bool
				pos   token.Pos
			}
			var accs []access
			cfg.EachNode(func(r NodeRef) {
				InspectNoLits(r.Node(), func(m ast.Node) bool {
					if _, ok := m.(*ast.FuncLit); ok {
						return false
					}
					if sel, ok := m.(*ast.SelectorExpr); ok {
						if fv, ok := info.Uses[sel.Sel].(*types.Var); ok && fields[fv] != "" {
							accs = append(accs, access{r, fv, types.ExprString(sel.X), isWriteAccess(info, r.Node(), sel), sel.Pos()})
						}
					}
					return true
				})
			})
			if len(accs) == 0 {
				continue
			}
			sameSection := map[NodeRef]*PassSpec{}
			specFor := func(rd access) *PassSpec {
				if sp, ok := sameSection[rd.ref]; ok {
					return sp
				}
				sp := &PassSpec{Name: "section", SkipDefer: true, NoInheritAsync: true}
				sp.Vias = []Via{{Stmt: func(g *FuncInfo, nd ast.Node) (string, bool) {
					if g == f && nd == rd.ref.Node() {
						return "tested", true
					}
					return "", false
				}}}
				sp.KillMatch = func(g *FuncInfo, nd ast.Node, id string) bool {
					if _, isDefer := nd.(*ast.DeferStmt); isDefer {
						return false
					}
					kill := false
					InspectNoLits(nd, func(m ast.Node) bool {
						if call, ok := m.(*ast.CallExpr); ok {
							if _, op, ok := mutexOp(g.Info(), call); ok && (op == "Unlock" || op == "RUnlock") {
								kill = true
							}
						}
						return true
					})
					return kill
				}
				sameSection[rd.ref] = sp
				return sp
			}
			n := 0
			// (A1) conditions that read field F directly and dominate a write to F: the write must share a critical section with
			// at least one of them (a re-test in the write's own section is what makes the decision atomic)
			for _, w := range accs {
				if !w.write {
					continue
				}
				var conds []access
				for _, rd := range accs {
					if rd.write || rd.field != w.field || rd.base != w.base || rd.ref == w.ref {
						continue
					}
					if _, _, _, isCond := CondEdges(rd.ref.B); !isCond || rd.ref.I != len(rd.ref.B.Nodes)-1 {
						continue
					}
					if cfg.Dominates(rd.ref, w.ref) {
						conds = append(conds, rd)
					}
				}
				if len(conds) == 0 {
					continue
				}
				n++
				key := fmt.Sprintf("atomic/%s.%s/%s#%d", owner[w.field], w.field.Name(), f.Name, n)
				ok := false
				for _, rd := range conds {
					if held, _ := Held(ls, f, rd.ref, rd.base+"."+fields[rd.field]); held && specFor(rd).Passed(f, w.ref, "tested") {
						ok = true
					}
				}
				c.Check(ok, key, w.pos, fmt.Sprintf("a test of %s.%s and the write it guards are one critical section", w.base, w.field.Name()),
					fmt.Sprintf("%s.%s is tested in the condition at %s and written here after the lock was released in between, with no re-test in the write's own critical section: two concurrent callers can both pass the test (limit exceeded / duplicate admitted)", w.base, w.field.Name(), p.Pos(conds[0].pos)))
			}
			// (A2) any write that follows reads of the object's guarded state is decided on a read made in its own critical section
			for _, w := range accs {
				if !w.write {
					continue
				}
				var doms []access
				for _, rd := range accs {
					// any guarded field of the same object counts: related maps are tested through one another
					if rd.write || rd.base != w.base || rd.ref == w.ref || owner[rd.field] != owner[w.field] {
						continue
					}
					if cfg.Dominates(rd.ref, w.ref) {
						doms = append(doms, rd)
					}
				}
				if len(doms) == 0 {
					continue
				}
				n++
				key := fmt.Sprintf("atomic/%s.%s/%s#%d", owner[w.field], w.field.Name(), f.Name, n)
				ok := false
				for _, rd := range doms {
					if held, _ := Held(ls, f, rd.ref, rd.base+"."+fields[rd.field]); held && specFor(rd).Passed(f, w.ref, "tested") {
						ok = true
					}
				}
				c.Check(ok, key, w.pos, fmt.Sprintf("the write of %s.%s follows a read of the object's guarded state in the same critical section", w.base, w.field.Name()),
					fmt.Sprintf("%s.%s is written here on the strength of a read made before the lock was last released (first read at %s): another goroutine can change it in between (limit exceeded / duplicate admitted / stale decision)", w.base, w.field.Name(), p.Pos(doms[0].pos)))
			}
		}
	}
	if !doSplit {
		return
	}
	// ---- (B) split check-then-act in the server handlers
	var roots []*FuncInfo
	if h := p.httpHandler("/session"); h != nil {
		roots = append(roots, h)
	} else {
		c.MissingAnchor("/session handler")
	}
	if ws := p.Func("cmd/thruserv.handleWebSocket"); ws != nil {
		roots = append(roots, ws)
	} else {
		c.MissingAnchor("cmd/thruserv.handleWebSocket")
	}
	limType, _ := p.LookupObj("cmd/thruserv", "serverLimits").(*types.TypeName)
	if limType == nil {
		c.MissingAnchor("cmd/thruserv.serverLimits")
		return
	}
	isLimitField := func(info *types.Info, e ast.Node) string {
		name := ""
		ast.Inspect(e, func(n ast.Node) bool {
			if sel, ok := n.(*ast.SelectorExpr); ok {
				if fv, ok := info.Uses[sel.Sel].(*types.Var); ok && fv.IsField() {
					if tv := info.TypeOf(sel.X); tv != nil && types.Identical(tv, limType.Type()) {
						name = fv.Name()
					}
				}
			}
			return true
		})
		return name
	}
	lockTaking := func(fi *FuncInfo) bool {
		if fi == nil || fi.Decl == nil {
			return false
		}
		hit := false
		ast.Inspect(fi.Body, func(n ast.Node) bool {
			if call, ok := n.(*ast.CallExpr); ok {
				if _, op, ok := mutexOp(fi.Info(), call); ok && (op == "Lock" || op == "RLock") {
					hit = true
				}
			}
			return true
		})
		return hit
	}
	inserting := func(fi *FuncInfo) bool {
		if fi == nil || fi.Decl == nil {
			return false
		}
		pkgRel := strings.TrimPrefix(strings.TrimPrefix(fi.Pkg.PkgPath, ModulePath), "/")
		fields, _ := guardedIn(p, pkgRel)
		hit := false
		var visit func(g *FuncInfo, depth int)
		visit = func(g *FuncInfo, depth int) {
			gi := g.Info()
			ast.Inspect(g.Body, func(n ast.Node) bool {
				if as, ok := n.(*ast.AssignStmt); ok {
					for _, l := range as.Lhs {
						if ix, ok := ast.Unparen(l).(*ast.IndexExpr); ok {
							base := ast.Unparen(ix.X)
							if ix2, ok := base.(*ast.IndexExpr); ok {
								base = ast.Unparen(ix2.X)
							}
							if sel, ok := base.(*ast.SelectorExpr); ok {
								if fv, ok := gi.Uses[sel.Sel].(*types.Var); ok && fields[fv] != "" {
									hit = true
								}
							}
						}
					}
				}
				if call, ok := n.(*ast.CallExpr); ok && depth > 0 {
					if cg := p.CalleeInfo(gi, call); cg != nil && cg.Pkg == g.Pkg && cg.Decl != nil {
						visit(cg, depth-1)
					}
				}
				return true
			})
		}
		visit(fi, 1)
		return hit
	}
	nsplit := 0
	for _, root := range roots {
		info := root.Info()
		cfg := root.CFG()
		// locals derived from a lock-taking method call on object X: var -> object expr string
		derived := map[types.Object]string{}
		noteCall := func(call *ast.CallExpr) string {
			fi := p.CalleeInfo(info, call)
			if !lockTaking(fi) {
				return ""
			}
			if sel, ok := ast.Unparen(call.Fun).(*ast.SelectorExpr); ok {
				return types.ExprString(sel.X)
			}
			return ""
		}
		ast.Inspect(root.Body, func(n ast.Node) bool {
			switch v := n.(type) {
			case *ast.AssignStmt:
				if len(v.Rhs) == 1 {
					if call, ok := ast.Unparen(v.Rhs[0]).(*ast.CallExpr); ok {
						if obj := noteCall(call); obj != "" {
							for _, l := range v.Lhs {
								if o := ObjOf(info, l); o != nil {
									derived[o] = obj
								}
							}
						}
					}
				}
			case *ast.RangeStmt:
				if call, ok := ast.Unparen(v.X).(*ast.CallExpr); ok {
					if obj := noteCall(call); obj != "" {
						// everything assigned / incremented in the loop body derives from the call
						ast.Inspect(v.Body, func(m ast.Node) bool {
							for _, o := range AssignedObjs(info, m) {
								derived[o] = obj
							}
							return true
						})
					}
				}
			}
			return true
		})
		for _, b := range cfg.Blocks {
			cond, _, _, ok := CondEdges(b)
			if !ok {
				continue
			}
			lim := isLimitField(info, cond)
			if lim == "" {
				continue
			}
			obj := ""
			ast.Inspect(cond, func(n ast.Node) bool {
				switch v := n.(type) {
				case *ast.CallExpr:
					if o := noteCall(v); o != "" {
						obj = o
					}
				case *ast.Ident:
					if o := ObjOf(info, v); o != nil && derived[o] != "" {
						obj = derived[o]
					}
				}
				return true
			})
			if obj == "" {
				continue
			}
			condRef := NodeRef{b, len(b.Nodes) - 1}
			// inserting calls on the same object that the condition dominates
			cfg.Calls(func(r NodeRef, call *ast.CallExpr) {
				sel, ok := ast.Unparen(call.Fun).(*ast.SelectorExpr)
				if !ok || types.ExprString(sel.X) != obj {
					return
				}
				fi := p.CalleeInfo(info, call)
				if !inserting(fi) || !cfg.Reaches(condRef, r) {
					return
				}
				if atomicAdmission(p, root, call, fi, func(g *FuncInfo) bool { return isLimitField(g.Info(), g.Body) == lim }) {
					c.OK(fmt.Sprintf("split/%s/%s->%s", root.Name, lim, strings.TrimPrefix(fi.Name, fi.Pkg.Name+".")), call.Pos(),
						"the early test is only an optimisation: the same limit is tested again by an admission function that "+types.ExprString(call.Fun)+" evaluates while holding its lock, in the critical section of the insertion")
					nsplit++
					return
				}
				nsplit++
				c.Bad(fmt.Sprintf("split/%s/%s->%s", root.Name, lim, strings.TrimPrefix(fi.Name, fi.Pkg.Name+".")), call.Pos(),
					fmt.Sprintf("limit %s is tested on data from %s (one critical section) and %s inserts later (another critical section): concurrent requests all pass the test before any of them inserts, so the limit is exceeded",
						lim, obj, types.ExprString(call.Fun)), "test at "+p.Pos(cond.Pos()))
			})
		}
	}
	if nsplit == 0 {
		c.OK("split/server-handlers", roots[0].Pos(), "no limit test in the server handlers is separated from the insertion it guards")
	}
}

// atomicAdmission: the inserting call is handed a function (literal or closure variable) that tests the limit, and the callee
// calls that parameter while holding its exclusive lock and returns without inserting when it says no.
func atomicAdmission(p *Program, root *FuncInfo, call *ast.CallExpr, callee *FuncInfo, testsLimit func(*FuncInfo) bool) bool {
	info := root.Info()
	if callee == nil || callee.Type == nil || callee.Type.Params == nil {
		return false
	}
	var params []types.Object
	for _, fl := range callee.Type.Params.List {
		for _, nm := range fl.Names {
			params = append(params, callee.Info().Defs[nm])
		}
	}
	ls := NewLockSpec()
	for i, a := range call.Args {
		if i >= len(params) {
			break
		}
		var adm *FuncInfo
		switch v := ast.Unparen(a).(type) {
		case *ast.FuncLit:
			adm = p.LitInfo(v)
		case *ast.Ident:
			if o, ok := ObjOf(info, v).(*types.Var); ok {
				adm = p.ClosureOfVar(o)
			}
		}
		if adm == nil || !testsLimit(adm) {
			continue
		}
		// the callee (or a same-package function it forwards the parameter to) invokes the parameter under its lock, as a condition
		var check func(g *FuncInfo, pv types.Object, depth int) bool
		check = func(g *FuncInfo, pv types.Object, depth int) bool {
			ok := false
			gi := g.Info()
			cfg := g.CFG()
			cfg.Calls(func(r NodeRef, c2 *ast.CallExpr) {
				if id, isID := ast.Unparen(c2.Fun).(*ast.Ident); isID && ObjOf(gi, id) == pv {
					held := false
					for _, h := range HeldAny(ls, g, r) {
						if strings.HasPrefix(h, "W:") {
							held = true
						}
					}
					if _, _, _, isCond := CondEdges(r.B); isCond && r.I == len(r.B.Nodes)-1 && held {
						ok = true
					}
					return
				}
				if depth == 0 {
					return
				}
				cg := p.CalleeInfo(gi, c2)
				if cg == nil || cg.Pkg != g.Pkg || cg.Type == nil || cg.Type.Params == nil {
					return
				}
				j := 0
				for _, fl := range cg.Type.Params.List {
					for _, nm := range fl.Names {
						if j < len(c2.Args) && ObjOf(gi, c2.Args[j]) == pv && check(cg, cg.Info().Defs[nm], depth-1) {
							ok = true
						}
						j++
					}
				}
			})
			return ok
		}
		if check(callee, params[i], 1) {
			return true
		}
	}
	return false
}

func runSessionLife(c *Ctx) {
	p := c.P
	ls := NewLockSpec()
	byCode, _ := p.LookupObj("internal/session", "Store.byCode").(*types.Var)
	if byCode == nil {
		c.MissingAnchor("session.Store.byCode")
		return
	}
	// ---- code uniqueness
	ninsert := 0
	for _, f := range p.FuncsIn("internal/session") {
		info := f.Info()
		cfg := f.CFG()
		isByCodeIndex := func(e ast.Expr) (*ast.IndexExpr, bool) {
			ix, ok := ast.Unparen(e).(*ast.IndexExpr)
			if !ok {
				return nil, false
			}
			sel, ok := ast.Unparen(ix.X).(*ast.SelectorExpr)
			if !ok {
				return nil, false
			}
			fv, _ := info.Uses[sel.Sel].(*types.Var)
			return ix, fv == byCode
		}
		// bool vars assigned from a comma-ok lookup of byCode: var -> key expr string (all assignments must agree)
		okVars := map[types.Object]string{}
		ast.Inspect(f.Body, func(n ast.Node) bool {
			if as, ok := n.(*ast.AssignStmt); ok && len(as.Lhs) == 2 && len(as.Rhs) == 1 {
				if ix, ok := isByCodeIndex(as.Rhs[0]); ok {
					if o := ObjOf(info, as.Lhs[1]); o != nil {
						k := types.ExprString(ix.Index)
						if prev, seen := okVars[o]; seen && prev != k {
							okVars[o] = "?"
						} else {
							okVars[o] = k
						}
					}
				}
			}
			return true
		})
		spec := &PassSpec{Name: "absent", SkipDefer: true}
		spec.Vias = []Via{{Cond: func(g *FuncInfo, e ast.Expr) (string, bool, bool) {
			if o := ObjOf(g.Info(), e); o != nil && okVars[o] != "" && okVars[o] != "?" {
				return "absent:" + okVars[o], false, true
			}
			return "", false, false
		}}}
		spec.KillMatch = func(g *FuncInfo, n ast.Node, id string) bool {
			key := strings.TrimPrefix(id, "absent:")
			// the key expression changes, or the lock is released
			if as, ok := n.(*ast.AssignStmt); ok {
				for _, l := range as.Lhs {
					if types.ExprString(l) == key {
						return true
					}
				}
			}
			if _, isDefer := n.(*ast.DeferStmt); isDefer {
				return false
			}
			kill := false
			InspectNoLits(n, func(m ast.Node) bool {
				if call, ok := m.(*ast.CallExpr); ok {
					if _, op, ok := mutexOp(g.Info(), call); ok && op == "Unlock" {
						kill = true
					}
				}
				return true
			})
			return kill
		}
		cfg.EachNode(func(r NodeRef) {
			as, ok := r.Node().(*ast.AssignStmt)
			if !ok {
				return
			}
			for _, l := range as.Lhs {
				ix, ok := isByCodeIndex(l)
				if !ok {
					continue
				}
				ninsert++
				key := fmt.Sprintf("code-unique/%s#%d", f.Name, ninsert)
				k := types.ExprString(ix.Index)
				_, w := Held(ls, f, r, types.ExprString(ast.Unparen(ix.X).(*ast.SelectorExpr).X)+".mu")
				c.Check(w && spec.Passed(f, r, "absent:"+k), key, as.Pos(), "join code inserted only after a lookup of the same code found nothing, under the same write lock",
					"a join code is inserted into Store.byCode without a 'not present' lookup of that code in the same critical section: two live sessions can share a code (the later one hijacks the earlier one's joins)",
					"facts here: "+strings.Join(spec.PassedList(f, r), ", "))
			}
		})
	}
	if ninsert == 0 {
		c.Bad("code-unique/none", byCode.Pos(), "no insertion into Store.byCode found")
	}
	// ---- expiry on lookup
	if g := p.Func("session.(*Store).GetByJoinCode"); g != nil {
		info := g.Info()
		spec := &PassSpec{Vias: []Via{{Cond: func(f *FuncInfo, e ast.Expr) (string, bool, bool) {
			// whole condition or atom containing <time>.After(X.ExpiresAt) / Before
			hit := false
			ast.Inspect(e, func(n ast.Node) bool {
				if call, ok := n.(*ast.CallExpr); ok && (calleeIs(f.Info(), call, "time", "Time.After") || calleeIs(f.Info(), call, "time", "Time.Before")) {
					if strings.Contains(types.ExprString(call), "ExpiresAt") {
						hit = true
					}
				}
				return true
			})
			if hit {
				return "not-expired", false, true
			}
			return "", false, false
		}}, {Cond: func(f *FuncInfo, e ast.Expr) (string, bool, bool) {
			// a session without a lifetime cannot be expired: X.ExpiresAt.IsZero() true
			if call, ok := ast.Unparen(e).(*ast.CallExpr); ok && calleeIs(f.Info(), call, "time", "Time.IsZero") && strings.Contains(types.ExprString(call), "ExpiresAt") {
				return "not-expired", true, true
			}
			return "", false, false
		}}}}
		n := 0
		for _, b := range g.CFG().Blocks {
			ret, ok := IsReturnExit(b)
			if !ok || len(ret.Results) != 2 || types.ExprString(ret.Results[1]) != "true" {
				continue
			}
			n++
			c.Check(spec.Passed(g, NodeRef{b, len(b.Nodes) - 1}, "not-expired"), fmt.Sprintf("expiry/lookup#%d", n), ret.Pos(), "found is returned only past the expiry comparison",
				"GetByJoinCode returns a session as found without comparing ExpiresAt with the current time: an expired join code still admits peers")
		}
		if n == 0 {
			c.Unknown("expiry/lookup", g.Pos(), "no `return session, true` found")
		}
		_ = info
	} else {
		c.MissingAnchor("session.(*Store).GetByJoinCode")
	}
	// ---- deletion by the expiry timer and by the host's cleanup
	callsDelete := func(f *FuncInfo) bool {
		hit := false
		var visit func(g *FuncInfo)
		visit = func(g *FuncInfo) {
			ast.Inspect(g.Body, func(n ast.Node) bool {
				if call, ok := n.(*ast.CallExpr); ok {
					if fi := p.CalleeInfo(g.Info(), call); fi != nil && fi.Name == "session.(*Store).Delete" {
						hit = true
					}
				}
				return true
			})
		}
		visit(f)
		return hit
	}
	if h := p.httpHandler("/session"); h != nil {
		ok := false
		ast.Inspect(h.Body, func(n ast.Node) bool {
			if call, ok2 := n.(*ast.CallExpr); ok2 {
				if fi := p.CalleeInfo(h.Info(), call); fi != nil && fi.Name == "cmd/thruserv.(*sessionExpiryManager).schedule" && len(call.Args) == 3 {
					if lit, isLit := ast.Unparen(call.Args[2]).(*ast.FuncLit); isLit {
						if li := p.LitInfo(lit); li != nil && callsDelete(li) {
							closes := false
							ast.Inspect(lit.Body, func(m ast.Node) bool {
								if c2, ok := m.(*ast.CallExpr); ok {
									if g := p.CalleeInfo(h.Info(), c2); g != nil && g.Name == "peers.(*Hub).CloseSession" {
										closes = true
									}
								}
								return true
							})
							ok = closes
						}
					}
				}
			}
			return true
		})
		c.Check(ok, "expiry/timer", h.Pos(), "the expiry timer callback closes the session's peers and deletes the session", "the session expiry timer no longer deletes the session (and closes its peers): the join code outlives the session lifetime")
	}
	ws := p.Func("cmd/thruserv.handleWebSocket")
	if ws == nil {
		c.MissingAnchor("cmd/thruserv.handleWebSocket")
		return
	}
	info := ws.Info()
	cfg := ws.CFG()
	// host cleanup: a deferred literal that deletes the session under role == "sender"
	var cleanupDefer *ast.DeferStmt
	cfg.EachNode(func(r NodeRef) {
		if d, ok := r.Node().(*ast.DeferStmt); ok {
			if lit, ok := ast.Unparen(d.Call.Fun).(*ast.FuncLit); ok {
				if li := p.LitInfo(lit); li != nil && callsDelete(li) {
					cleanupDefer = d
				}
			}
		}
	})
	if cleanupDefer == nil {
		c.Bad("host-cleanup/registered", ws.Pos(), "handleWebSocket has no deferred cleanup that deletes the host's session: the join code stays valid after the host disconnected")
	} else {
		guarded := false
		ast.Inspect(cleanupDefer, func(n ast.Node) bool {
			if is, ok := n.(*ast.IfStmt); ok && strings.Contains(types.ExprString(is.Cond), `"sender"`) {
				ast.Inspect(is.Body, func(m ast.Node) bool {
					if call, ok := m.(*ast.CallExpr); ok {
						if fi := p.CalleeInfo(info, call); fi != nil && fi.Name == "session.(*Store).Delete" {
							guarded = true
						}
					}
					return true
				})
			}
			return true
		})
		c.Check(guarded, "host-cleanup/deletes-on-sender", cleanupDefer.Pos(), "the deferred cleanup deletes the session when the disconnecting peer is the host", "the deferred cleanup does not delete the session for role sender")
		// every way out of the cleanup either deleted the session, or the peer is not the host, or the farewell message could
		// not even be built: no other early exit (e.g. "this connection was replaced") may skip the deletion - whoever took over
		// the peer id is not necessarily a sender, and then nobody ever deletes the session
		if lit, ok := ast.Unparen(cleanupDefer.Call.Fun).(*ast.FuncLit); ok {
			li := p.LitInfo(lit)
			lcfg := li.CFG()
			linfo := li.Info()
			// literals handed to Hub.Inspect: they run under the hub's lock with the session's peers as their parameter (F70)
			inspectLits := map[*ast.FuncLit]types.Object{}
			ast.Inspect(li.Body, func(n ast.Node) bool {
				if call, ok := n.(*ast.CallExpr); ok && len(call.Args) == 2 {
					if fi := p.CalleeInfo(linfo, call); fi != nil && fi.Name == "peers.(*Hub).Inspect" {
						if fl, ok := ast.Unparen(call.Args[1]).(*ast.FuncLit); ok && fl.Type.Params != nil && len(fl.Type.Params.List) == 1 && len(fl.Type.Params.List[0].Names) == 1 {
							inspectLits[fl] = linfo.Defs[fl.Type.Params.List[0].Names[0]]
						}
					}
				}
				return true
			})
			// a range over the peers of the session: hub.List(..), or the parameter of a literal handed to Hub.Inspect
			isPeerListing := func(x ast.Expr) bool {
				if call, ok := ast.Unparen(x).(*ast.CallExpr); ok {
					if fi := p.CalleeInfo(linfo, call); fi != nil && fi.Name == "peers.(*Hub).List" {
						return true
					}
				}
				if o := ObjOf(linfo, x); o != nil {
					for _, po := range inspectLits {
						if po == o {
							return true
						}
					}
				}
				return false
			}
			exitSpec := &PassSpec{Vias: []Via{
				{Immediate: true, Call: func(f *FuncInfo, call *ast.CallExpr) (string, bool) {
					if fi := p.CalleeInfo(f.Info(), call); fi != nil && fi.Name == "session.(*Store).Delete" {
						return "settled", true
					}
					return "", false
				}},
				{Cond: func(f *FuncInfo, e ast.Expr) (string, bool, bool) {
					be, ok := ast.Unparen(e).(*ast.BinaryExpr)
					if ok && (be.Op == token.EQL || be.Op == token.NEQ) {
						if sv, isC := constString(f.Info(), be.Y); isC && sv == "sender" {
							return "settled", be.Op == token.NEQ, true
						}
					}
					return "", false, false
				}},
				{Call: func(f *FuncInfo, call *ast.CallExpr) (string, bool) { // the *failure* edge of NewEnvelope is the allowed early exit: modelled below
					return "", false
				}},
			}}
			// err != nil of protocol.NewEnvelope
			envErr := map[types.Object]bool{}
			ast.Inspect(li.Body, func(n ast.Node) bool {
				if as, ok := n.(*ast.AssignStmt); ok && len(as.Rhs) == 1 && len(as.Lhs) == 2 {
					if call, ok := ast.Unparen(as.Rhs[0]).(*ast.CallExpr); ok && calleeIs(linfo, call, RepoPkg("pkg/protocol"), "NewEnvelope") {
						envErr[ObjOf(linfo, as.Lhs[1])] = true
					}
				}
				return true
			})
			exitSpec.Vias = append(exitSpec.Vias, Via{Cond: func(f *FuncInfo, e ast.Expr) (string, bool, bool) {
				if o, nilOnTrue, ok := NilTest(f.Info(), e); ok && envErr[o] {
					return "settled", !nilOnTrue, true
				}
				return "", false, false
			}})
			// "another connection with the sender role is still in the session": a bool that is only ever set to true inside a
			// range over hub.List(...) under `<elem>.Role == "sender"`. The session then still has its host (a reconnect
			// replaced this socket, or this socket only claimed the role): `role == "sender" && !remains` false is settled.
			remains := map[types.Object]bool{}
			remainsSrc := map[types.Object]types.Object{}
			ast.Inspect(li.Body, func(n ast.Node) bool {
				rs, ok := n.(*ast.RangeStmt)
				if !ok {
					return true
				}
				if !isPeerListing(rs.X) {
					return true
				}
				ast.Inspect(rs.Body, func(m ast.Node) bool {
					is, ok := m.(*ast.IfStmt)
					if !ok {
						return true
					}
					be, ok := ast.Unparen(is.Cond).(*ast.BinaryExpr)
					if !ok || be.Op != token.EQL {
						return true
					}
					sel, ok := ast.Unparen(be.X).(*ast.SelectorExpr)
					if sv, isC := constString(linfo, be.Y); !ok || !isC || sv != "sender" || sel.Sel.Name != "Role" || ObjOf(linfo, sel.X) != ObjOf(linfo, rs.Value) {
						return true
					}
					for _, st := range is.Body.List {
						if as, ok := st.(*ast.AssignStmt); ok && len(as.Lhs) == 1 && types.ExprString(as.Rhs[0]) == "true" {
							remains[ObjOf(linfo, as.Lhs[0])] = true
							remainsSrc[ObjOf(linfo, as.Lhs[0])] = ObjOf(linfo, rs.X) // nil for hub.List(..)
						}
					}
					return true
				})
				return true
			})
			// any other assignment of true to such a variable disqualifies it
			ast.Inspect(li.Body, func(n ast.Node) bool {
				if as, ok := n.(*ast.AssignStmt); ok && as.Tok == token.ASSIGN {
					for i, l := range as.Lhs {
						if o := ObjOf(linfo, l); o != nil && remains[o] && i < len(as.Rhs) && types.ExprString(as.Rhs[i]) != "true" && types.ExprString(as.Rhs[i]) != "false" {
							delete(remains, o)
						}
					}
				}
				return true
			})
			exitSpec.Vias = append(exitSpec.Vias, Via{Cond: func(f *FuncInfo, e ast.Expr) (string, bool, bool) {
				if o := ObjOf(f.Info(), e); o != nil && remains[o] {
					return "settled", true, true // a sender-role connection remains
				}
				be, ok := ast.Unparen(e).(*ast.BinaryExpr)
				if !ok || be.Op != token.LAND {
					return "", false, false
				}
				hasRole, hasRemains, other := false, false, false
				for _, a := range Implied(be, true) {
					if b2, ok := a.E.(*ast.BinaryExpr); ok && a.Val && b2.Op == token.EQL {
						if sv, isC := constString(f.Info(), b2.Y); isC && sv == "sender" {
							hasRole = true
							continue
						}
					}
					if o := ObjOf(f.Info(), a.E); o != nil && remains[o] && !a.Val {
						hasRemains = true
						continue
					}
					other = true
				}
				if hasRole && hasRemains && !other {
					return "settled", false, true
				}
				return "", false, false
			}})
			// the converse (F26): the session is deleted, and peer_left announced, only for what is really gone - not for
			// whichever socket closed. `remains` holds the "a sender is still connected" variables; the same shape under
			// `<elem>.PeerID == peerID` gives the "this peer id is still connected" variables.
			stillHere := map[types.Object]bool{}
			ast.Inspect(li.Body, func(n ast.Node) bool {
				rs, ok := n.(*ast.RangeStmt)
				if !ok {
					return true
				}
				if !isPeerListing(rs.X) {
					return true
				}
				ast.Inspect(rs.Body, func(m ast.Node) bool {
					is, ok := m.(*ast.IfStmt)
					if !ok {
						return true
					}
					be, ok := ast.Unparen(is.Cond).(*ast.BinaryExpr)
					if !ok || be.Op != token.EQL {
						return true
					}
					sel, ok := ast.Unparen(be.X).(*ast.SelectorExpr)
					if !ok || sel.Sel.Name != "PeerID" || ObjOf(linfo, sel.X) != ObjOf(linfo, rs.Value) {
						return true
					}
					for _, st := range is.Body.List {
						if as, ok := st.(*ast.AssignStmt); ok && len(as.Lhs) == 1 && types.ExprString(as.Rhs[0]) == "true" {
							stillHere[ObjOf(linfo, as.Lhs[0])] = true
						}
					}
					return true
				})
				return true
			})
			gone := &PassSpec{Vias: []Via{{Cond: func(f *FuncInfo, e ast.Expr) (string, bool, bool) {
				if o := ObjOf(f.Info(), e); o != nil {
					if remains[o] {
						return "no-sender-remains", false, true
					}
					if stillHere[o] {
						return "peer-gone", false, true
					}
				}
				return "", false, false
			}}}}
			// the hub must have been asked after this connection was taken out of it
			removedFirst := &PassSpec{SkipDefer: true, NoInheritAsync: true, Vias: []Via{{Immediate: true, Call: func(f *FuncInfo, call *ast.CallExpr) (string, bool) {
				if id, ok := ast.Unparen(call.Fun).(*ast.Ident); ok {
					if v, ok := ObjOf(f.Info(), id).(*types.Var); ok && v.Name() == "removePeer" {
						return "own-connection-removed", true
					}
				}
				return "", false
			}}}}
			nd, nb := 0, 0
			units := []*FuncInfo{li}
			for fl := range inspectLits {
				if ki := p.LitInfo(fl); ki != nil {
					units = append(units, ki)
				}
			}
			sort.Slice(units, func(i, j int) bool { return units[i].Pos() < units[j].Pos() })
			for _, li := range units {
				lcfg := li.CFG()
				_, underHubLock := inspectLits[li.Lit]
				lcfg.Calls(func(r NodeRef, call *ast.CallExpr) {
					if fi := p.CalleeInfo(linfo, call); fi != nil && fi.Name == "session.(*Store).Delete" {
						nd++
						// F70: decided and done in the critical section of the hub in which a joining peer's admission test runs
						usesSnapshot := false
						if underHubLock {
							for _, is := range enclosingIfs(li.Body, call) {
								ast.Inspect(is.Cond, func(x ast.Node) bool {
									if id, ok := x.(*ast.Ident); ok {
										if o := ObjOf(linfo, id); o != nil && remains[o] && remainsSrc[o] != nil && remainsSrc[o] == inspectLits[li.Lit] {
											usesSnapshot = true
										}
									}
									return true
								})
							}
						}
						c.Check(underHubLock && usesSnapshot, fmt.Sprintf("host-cleanup/delete-under-hub-lock#%d", nd), call.Pos(), "the session is deleted inside the literal handed to Hub.Inspect, on the peers that literal is given",
							"the disconnect cleanup lists the peers that are left and deletes the session in separate steps (hub.List, then store.Delete): the admission test of a joining peer runs under the hub's lock and only asks whether the session exists, "+
								"so a host that reconnects between the two steps is admitted and then sits, connected and listed, in a session whose join code no longer resolves")
						c.Check(gone.Passed(li, r, "no-sender-remains") && removedFirst.Passed(li, r, "own-connection-removed"), fmt.Sprintf("host-cleanup/delete-only-without-sender#%d", nd), call.Pos(),
							"the session is deleted only when, after this connection was removed, no connection with the sender role remains",
							"the disconnect cleanup deletes the session for whichever socket with role sender closed, without asking the hub (after removing its own connection) whether a sender-role connection remains: a host that reconnected loses its session when the old socket closes, and any peer that connects with role=sender and hangs up ends the real host's session - the join code answers 404 while the host is connected")
					}
					if fi := p.CalleeInfo(linfo, call); fi != nil && fi.Name == "peers.(*Hub).Broadcast" {
						nb++
						c.Check(gone.Passed(li, r, "peer-gone") && removedFirst.Passed(li, r, "own-connection-removed"), fmt.Sprintf("host-cleanup/peer-left-only-when-gone#%d", nb), call.Pos(),
							"peer_left is announced only when no connection of that peer id remains",
							"the disconnect cleanup announces peer_left although a (newer) connection of the same peer id may still be registered: the others drop a peer that is connected and listed")
					}
				})
			}
			if nd == 0 {
				c.Bad("host-cleanup/delete-only-without-sender", lit.Pos(), "the cleanup literal does not call store.Delete")
			}
			// Hub.Inspect runs its callback with the hub's lock held in write mode: the lock AddIf's admission test runs under (F70)
			if len(inspectLits) > 0 {
				if hi := p.Func("peers.(*Hub).Inspect"); hi != nil {
					ls := NewLockSpec()
					hinfo := hi.Info()
					var fnParam types.Object
					if hi.Type.Params != nil {
						for _, fl := range hi.Type.Params.List {
							if _, isFn := hinfo.TypeOf(fl.Type).Underlying().(*types.Signature); isFn && len(fl.Names) == 1 {
								fnParam = hinfo.Defs[fl.Names[0]]
							}
						}
					}
					nc := 0
					hi.CFG().Calls(func(r NodeRef, call *ast.CallExpr) {
						if fnParam == nil || ObjOf(hinfo, call.Fun) != fnParam {
							return
						}
						nc++
						held := false
						for _, h := range HeldAny(ls, hi, r) {
							if strings.HasPrefix(h, "W:") && strings.HasSuffix(h, ".mu") {
								held = true
							}
						}
						c.Check(held, fmt.Sprintf("host-cleanup/inspect-holds-lock#%d", nc), call.Pos(), "Hub.Inspect calls its callback with the hub's mutex held in write mode",
							"Hub.Inspect calls its callback without the hub's mutex held in write mode: what the callback decides about the session (no host left: delete it) is not atomic with the admission test of a joining peer, which runs under that mutex in AddIf")
					})
					if nc == 0 {
						c.Bad("host-cleanup/inspect-holds-lock", hi.Pos(), "Hub.Inspect never calls its callback")
					}
				} else {
					c.MissingAnchor("peers.(*Hub).Inspect")
				}
			}
			// hub.Inspect(id, lit) runs lit before it returns: the call settles what every way out of lit settles
			exitSpec.Vias = append(exitSpec.Vias, Via{Immediate: true, Call: func(f *FuncInfo, call *ast.CallExpr) (string, bool) {
				if len(call.Args) != 2 {
					return "", false
				}
				fl, ok := ast.Unparen(call.Args[1]).(*ast.FuncLit)
				if !ok {
					return "", false
				}
				if _, isInspect := inspectLits[fl]; !isInspect {
					return "", false
				}
				ki := p.LitInfo(fl)
				if ki == nil {
					return "", false
				}
				kf := exitSpec.Facts(ki)
				all, any := true, false
				for _, b := range ki.CFG().Blocks {
					if b.Live && len(b.Succs) == 0 {
						any = true
						if out := kf.AtEnd(b); out == nil || !out["pass:settled"] {
							all = false
						}
					}
				}
				if all && any {
					return "settled", true
				}
				return "", false
			}})
			facts := exitSpec.Facts(li)
			ne := 0
			for _, b := range lcfg.Blocks {
				if !b.Live {
					continue
				}
				isExit := len(b.Succs) == 0
				if !isExit {
					continue
				}
				ne++
				out := facts.AtEnd(b)
				pos := lit.End()
				if len(b.Nodes) > 0 {
					pos = b.Nodes[len(b.Nodes)-1].Pos()
				}
				c.Check(out != nil && out["pass:settled"], fmt.Sprintf("host-cleanup/exit#%d", ne), pos, "this way out of the cleanup deleted the session, or the peer is not the host",
					"the deferred disconnect cleanup can return without store.Delete although the peer may be the host (an early exit other than role != \"sender\"): the session and its join code outlive the host until the TTL, and keep admitting peers")
			}
			if ne == 0 {
				c.Unknown("host-cleanup/exits", lit.Pos(), "no exit found in the cleanup literal")
			}
		}
		// registered before any return that follows hub.Add
		spec := &PassSpec{Vias: []Via{
			{Immediate: true, Call: func(f *FuncInfo, call *ast.CallExpr) (string, bool) {
				if fi := p.CalleeInfo(f.Info(), call); fi != nil && strings.HasPrefix(fi.Name, "peers.(*Hub).Add") && !hasBoolResult(fi) {
					return "added", true
				}
				return "", false
			}},
			// an insertion that can refuse reports it in a trailing bool: the peer is in the hub only on the true edge
			{Call: func(f *FuncInfo, call *ast.CallExpr) (string, bool) {
				if fi := p.CalleeInfo(f.Info(), call); fi != nil && strings.HasPrefix(fi.Name, "peers.(*Hub).Add") && hasBoolResult(fi) {
					return "added", true
				}
				return "", false
			}},
			{Stmt: func(f *FuncInfo, n ast.Node) (string, bool) {
				if n == ast.Node(cleanupDefer) {
					return "cleanup-registered", true
				}
				return "", false
			}},
		}}
		n := 0
		for _, b := range cfg.Blocks {
			ret, ok := IsReturnExit(b)
			if !ok {
				continue
			}
			ref := NodeRef{b, len(b.Nodes) - 1}
			if !spec.Passed(ws, ref, "added") {
				continue
			}
			n++
			c.Check(spec.Passed(ws, ref, "cleanup-registered"), fmt.Sprintf("host-cleanup/before-return#%d", n), ret.Pos(), "return after registration passes the cleanup defer",
				"handleWebSocket can return after the peer was added to the hub but before the session cleanup was deferred: if this is the host, the session and its join code are never deleted")
		}
	}
	// ---- enforcement before routing / before upgrade
	pre := &PassSpec{Vias: []Via{
		{Cond: func(f *FuncInfo, e ast.Expr) (string, bool, bool) {
			s := types.ExprString(e)
			if strings.Contains(s, "msgLimiter.Allow()") || (strings.Contains(s, ".Allow()") && strings.Contains(s, "msgRatePerSec")) {
				return "rate-checked", false, true
			}
			return "", false, false
		}},
		{Cond: func(f *FuncInfo, e ast.Expr) (string, bool, bool) {
			if be, ok := ast.Unparen(e).(*ast.BinaryExpr); ok && be.Op == token.GTR && strings.HasPrefix(types.ExprString(be.X), "len(") {
				return "size-checked", false, true
			}
			// `limits.maxMessageBytes > 0 && len(message) > limits.maxMessageBytes`: the false edge means no limit, or within it
			if be, ok := ast.Unparen(e).(*ast.BinaryExpr); ok && be.Op == token.LAND {
				sizeAtom, other := false, false
				for _, a := range Implied(be, true) {
					b2, ok := ast.Unparen(a.E).(*ast.BinaryExpr)
					switch {
					case ok && a.Val && b2.Op == token.GTR && strings.HasPrefix(types.ExprString(b2.X), "len("):
						sizeAtom = true
					case ok && a.Val && b2.Op == token.GTR && types.ExprString(b2.Y) == "0" && strings.Contains(types.ExprString(b2.X), "maxMessageBytes"):
					default:
						other = true
					}
				}
				if sizeAtom && !other {
					return "size-checked", false, true
				}
			}
			return "", false, false
		}},
	}}
	pre.KillMatch = func(f *FuncInfo, n ast.Node, id string) bool {
		// a new message was read
		kill := false
		InspectNoLits(n, func(m ast.Node) bool {
			if call, ok := m.(*ast.CallExpr); ok && calleeIs(f.Info(), call, "github.com/gorilla/websocket", "Conn.ReadMessage") {
				kill = true
			}
			return true
		})
		return kill
	}
	nr := 0
	cfg.Calls(func(r NodeRef, call *ast.CallExpr) {
		g := Callee(info, call)
		if g == nil || g.Pkg() == nil || g.Pkg().Path() != RepoPkg("internal/peers") || (g.Name() != "SendTo" && g.Name() != "BroadcastExcept") {
			return
		}
		nr++
		c.Check(pre.Passed(ws, r, "rate-checked"), fmt.Sprintf("pre-route/%s#%d/rate", g.Name(), nr), call.Pos(), "routing is reached only past the per-connection message rate test", "a client message is routed without passing the per-connection rate limiter")
		c.Check(pre.Passed(ws, r, "size-checked"), fmt.Sprintf("pre-route/%s#%d/size", g.Name(), nr), call.Pos(), "routing is reached only past the message size test", "a client message is routed without passing the size test")
	})
	// connection limiter and connect-rate limiter before Upgrade
	up := &PassSpec{Vias: []Via{
		{Cond: func(f *FuncInfo, e ast.Expr) (string, bool, bool) {
			s := types.ExprString(e)
			if strings.Contains(s, "maxWSConnections") {
				return "conn-limit-block", true, true
			}
			return "", false, false
		}},
		{Cond: func(f *FuncInfo, e ast.Expr) (string, bool, bool) {
			s := types.ExprString(e)
			if strings.Contains(s, "maxWSConnections") {
				return "conn-limit-block", false, true
			}
			return "", false, false
		}},
		{Cond: func(f *FuncInfo, e ast.Expr) (string, bool, bool) {
			s := types.ExprString(e)
			if strings.Contains(s, "connectRatePerSec") {
				return "rate-limit-block", true, true
			}
			return "", false, false
		}},
		{Cond: func(f *FuncInfo, e ast.Expr) (string, bool, bool) {
			s := types.ExprString(e)
			if strings.Contains(s, "connectRatePerSec") {
				return "rate-limit-block", false, true
			}
			return "", false, false
		}},
		{Cond: func(f *FuncInfo, e ast.Expr) (string, bool, bool) {
			s := types.ExprString(e)
			if strings.Contains(s, "maxReceiversPerSender") && strings.Contains(s, `"receiver"`) {
				return "recv-limit-block", true, true
			}
			return "", false, false
		}},
		{Cond: func(f *FuncInfo, e ast.Expr) (string, bool, bool) {
			s := types.ExprString(e)
			if strings.Contains(s, "maxReceiversPerSender") && strings.Contains(s, `"receiver"`) {
				return "recv-limit-block", false, true
			}
			return "", false, false
		}},
	}}
	cfg.Calls(func(r NodeRef, call *ast.CallExpr) {
		if calleeIs(info, call, "github.com/gorilla/websocket", "Upgrader.Upgrade") {
			for _, what := range []string{"conn-limit-block", "rate-limit-block", "recv-limit-block"} {
				c.Check(up.Passed(ws, r, what), "pre-upgrade/"+what, call.Pos(), "the upgrade is reached only past this limit's test", "the WebSocket upgrade is reachable without passing the "+what+" test: the limit is enforced too late or not at all")
			}
		}
	})
}

func hasBoolResult(fi *FuncInfo) bool {
	if fi == nil || fi.Type == nil || fi.Type.Results == nil {
		return false
	}
	l := fi.Type.Results.List
	if len(l) == 0 {
		return false
	}
	t := fi.Info().TypeOf(l[len(l)-1].Type)
	return t != nil && isBool(t)
}
