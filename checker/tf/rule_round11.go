package tf

import (
	"fmt"
	"go/ast"
	"go/token"
	"go/types"
	"strings"
)

func init() {
	Register(&Rule{
		Name:  "R-ACK-QUEUE-NOT-BEHIND-END",
		Props: []string{"C15", "C02"},
		Min:   2,
		Doc: "the multiplexed receiver does not wait for room in its acknowledgement queue behind the end of the control stream (F78): (queue) every send on the channel the control writer drains, in RecvManifestMultiStream and its closures, is a clause of a select that has a default clause or " +
			"a clause receiving from a channel that the control reader closes when it ends on an error; (closed) that close is a statement of the reader's `err != nil` branch itself (not under a further condition, not in a select clause) - " +
			"a peer that stops reading the control stream fills the queue, and when it then ends its side of the stream and keeps the connection open the receive loop, waiting for room with only its own context as a way out, never saw the end of the stream",
		Run: runAckQueueNotBehindEnd,
	})
}

func runAckQueueNotBehindEnd(c *Ctx) {
	p := c.P
	recv := p.Func("transfer.RecvManifestMultiStream")
	if recv == nil {
		c.MissingAnchor("transfer.RecvManifestMultiStream")
		return
	}
	kids := allKids(recv)
	// the control reader: the go literal that calls readControlMessage
	var reader *FuncInfo
	for _, k := range kids {
		if k.Lit == nil {
			continue
		}
		info := k.Info()
		InspectNoLits(k.Body, func(m ast.Node) bool {
			if call, ok := m.(*ast.CallExpr); ok {
				if f := Callee(info, call); f != nil && f.Name() == "readControlMessage" {
					reader = k
				}
			}
			return true
		})
	}
	if reader == nil {
		c.MissingAnchor("the control reader goroutine of transfer.RecvManifestMultiStream (readControlMessage)")
		return
	}
	// channels the reader closes in its error branch, as a statement of that branch
	ended := map[types.Object]bool{}
	{
		info := reader.Info()
		ast.Inspect(reader.Body, func(m ast.Node) bool {
			is, ok := m.(*ast.IfStmt)
			if !ok {
				return true
			}
			o, nilOnTrue, ok := NilTest(info, is.Cond)
			if !ok || nilOnTrue || o == nil || !isErrorType(o.Type()) {
				return true
			}
			for _, st := range is.Body.List {
				es, ok := st.(*ast.ExprStmt)
				if !ok {
					continue
				}
				call, ok := es.X.(*ast.CallExpr)
				if !ok || len(call.Args) != 1 {
					continue
				}
				if id, ok := ast.Unparen(call.Fun).(*ast.Ident); ok && id.Name == "close" {
					if _, isBuiltin := info.Uses[id].(*types.Builtin); isBuiltin {
						if co := ObjOf(info, call.Args[0]); co != nil {
							ended[co] = true
						}
					}
				}
			}
			return true
		})
	}
	c.Check(len(ended) > 0, "ack-queue/closed", reader.Pos(), "the control reader closes a channel when it ends on an error",
		"the goroutine that reads the control stream closes no channel in its `err != nil` branch (as a statement of that branch): nothing tells a receive loop that waits for room in the acknowledgement queue that the peer has gone from the stream")
	// the queue: channels whose element type carries a *FileDone
	isQueue := func(t types.Type) bool {
		ch, ok := types.Unalias(t).Underlying().(*types.Chan)
		if !ok {
			return false
		}
		st, ok := types.Unalias(ch.Elem()).Underlying().(*types.Struct)
		if !ok {
			return false
		}
		for i := 0; i < st.NumFields(); i++ {
			if strings.HasSuffix(st.Field(i).Type().String(), "transfer.FileDone") {
				return true
			}
		}
		return false
	}
	n := 0
	per := map[string]int{}
	for _, f := range append([]*FuncInfo{recv}, kids...) {
		info := f.Info()
		InspectNoLits(f.Body, func(m ast.Node) bool {
			ss, ok := m.(*ast.SendStmt)
			if !ok || !isQueue(info.TypeOf(ss.Chan)) {
				return true
			}
			n++
			per[f.Name]++
			good := false
			// the select this send is a clause of
			InspectNoLits(f.Body, func(x ast.Node) bool {
				sel, ok := x.(*ast.SelectStmt)
				if !ok {
					return true
				}
				mine := false
				for _, cl := range sel.Body.List {
					if cc := cl.(*ast.CommClause); cc.Comm == ast.Stmt(ss) {
						mine = true
					}
				}
				if !mine {
					return true
				}
				for _, cl := range sel.Body.List {
					cc := cl.(*ast.CommClause)
					if cc.Comm == nil {
						good = true // default: the send does not wait
						continue
					}
					if _, isSend := cc.Comm.(*ast.SendStmt); isSend {
						continue
					}
					if o := ObjOf(info, commRecvExpr(cc)); o != nil && ended[o] {
						good = true
					}
				}
				return true
			})
			c.Check(good, fmt.Sprintf("ack-queue/queue/%s#%d", f.Name, per[f.Name]), ss.Pos(), "a wait for room in the acknowledgement queue ends with the control stream",
				f.Name+" sends on the control writer's queue and waits for room with no way out but its context (no default clause, no clause on the channel the control reader closes at the end of the stream): "+
					"a peer that does not read acknowledgements fills the queue (8 per data stream), ends its side of the control stream and keeps the connection open - the receive loop sits in this send and never sees that the stream has ended")
			return true
		})
	}
	if n == 0 {
		c.Bad("ack-queue/queue/none", recv.Pos(), "found no send on the control writer's queue in RecvManifestMultiStream")
	}
}

var _ = token.NoPos

// ackQueueNode finds, in the closure fin, the statement that hands a control message built with the key `key`
// (`done`, `resume`) to the control writer: a send of such a composite literal on a channel, or a call of a sibling
// closure that sends its own parameter on a channel (the queueing helper of F78). It returns the node to look up in
// fin's CFG, nil when there is none.
func ackQueueNode(p *Program, fin *FuncInfo, key string) ast.Node {
	info := fin.Info()
	mentions := func(e ast.Expr) bool {
		hit := false
		ast.Inspect(e, func(x ast.Node) bool {
			if kv, ok := x.(*ast.KeyValueExpr); ok {
				if k, ok := kv.Key.(*ast.Ident); ok && k.Name == key {
					hit = true
				}
			}
			return true
		})
		return hit
	}
	var found ast.Node
	InspectNoLits(fin.Body, func(m ast.Node) bool {
		if found != nil {
			return false
		}
		switch s := m.(type) {
		case *ast.SendStmt:
			if mentions(s.Value) {
				found = s
			}
		case *ast.CallExpr:
			if len(s.Args) == 0 {
				return true
			}
			h := p.CalleeInfo(info, s)
			if h == nil || h.Lit == nil || !isQueueHelper(h) {
				return true
			}
			for _, a := range s.Args {
				if mentions(a) {
					found = s
				}
			}
		}
		return true
	})
	return found
}

// isQueueHelper: a closure that sends one of its parameters on a channel.
func isQueueHelper(h *FuncInfo) bool {
	info := h.Info()
	res := false
	ast.Inspect(h.Body, func(m ast.Node) bool {
		ss, ok := m.(*ast.SendStmt)
		if !ok {
			return true
		}
		o := ObjOf(info, ss.Value)
		if o == nil {
			return true
		}
		if _, isChan := types.Unalias(info.TypeOf(ss.Chan)).Underlying().(*types.Chan); !isChan {
			return true
		}
		for k := 0; ; k++ {
			po := paramObj(h, k)
			if po == nil {
				break
			}
			if po == o {
				res = true
			}
		}
		return true
	})
	return res
}
