package tf

import (
	"fmt"
	"go/ast"
	"go/token"
	"go/types"
	"strings"
)

func init() {
	Register(&Rule{
		Name:  "R-ACK-QUEUE-NOT-BEHIND-END",
		Props: []string{"C15", "C02"},
		Min:   2,
		Doc: "the multiplexed receiver does not wait for room in its acknowledgement queue behind the end of the control stream (F78): (queue) every send on the channel the control writer drains, in RecvManifestMultiStream and its closures, is a clause of a select that has a default clause or " +
			"a clause receiving from a channel that the control reader closes on every way out; (closed) that close is deferred at the top of the reader's body, or lies in front of every return of the reader, the one behind the End record included (F83) - " +
			"a peer that stops reading the control stream fills the queue, and when it then ends its side of the stream and keeps the connection open the receive loop, waiting for room with only its own context as a way out, never saw the end of the stream; " +
			"(deadline, F83) the goroutine that drains the queue writes to the control stream through writeFullWithTimeout only, so that a peer that never reads fails the receive after the stream I/O timeout",
		Run: runAckQueueNotBehindEnd,
	})
}

func runAckQueueNotBehindEnd(c *Ctx) {
	p := c.P
	recv := p.Func("transfer.RecvManifestMultiStream")
	if recv == nil {
		c.MissingAnchor("transfer.RecvManifestMultiStream")
		return
	}
	kids := allKids(recv)
	// the control reader: the go literal that calls readControlMessage
	var reader *FuncInfo
	for _, k := range kids {
		if k.Lit == nil {
			continue
		}
		info := k.Info()
		InspectNoLits(k.Body, func(m ast.Node) bool {
			if call, ok := m.(*ast.CallExpr); ok {
				if f := Callee(info, call); f != nil && f.Name() == "readControlMessage" {
					reader = k
				}
			}
			return true
		})
	}
	if reader == nil {
		c.MissingAnchor("the control reader goroutine of transfer.RecvManifestMultiStream (readControlMessage)")
		return
	}
	// channels the reader closes on EVERY way out (an error, the End record: F83): a deferred close at the top of its body,
	// or a close that every return lies behind
	ended := map[types.Object]bool{}
	{
		info := reader.Info()
		isClose := func(call *ast.CallExpr) types.Object {
			if len(call.Args) != 1 {
				return nil
			}
			if id, ok := ast.Unparen(call.Fun).(*ast.Ident); ok && id.Name == "close" {
				if _, isBuiltin := info.Uses[id].(*types.Builtin); isBuiltin {
					return ObjOf(info, call.Args[0])
				}
			}
			return nil
		}
		for _, st := range reader.Body.List {
			if ds, ok := st.(*ast.DeferStmt); ok {
				if o := isClose(ds.Call); o != nil {
					ended[o] = true
				}
			}
		}
		cands := map[types.Object]bool{}
		InspectNoLits(reader.Body, func(m ast.Node) bool {
			if call, ok := m.(*ast.CallExpr); ok {
				if o := isClose(call); o != nil {
					cands[o] = true
				}
			}
			return true
		})
		for o := range cands {
			if ended[o] {
				continue
			}
			obj := o
			spec := &PassSpec{Name: "closed", SkipDefer: true, Vias: []Via{{Call: func(g *FuncInfo, c2 *ast.CallExpr) (string, bool) {
				if isClose(c2) == obj {
					return "closed", true
				}
				return "", false
			}, Immediate: true}}}
			all, n := true, 0
			for _, b := range reader.CFG().Blocks {
				if !b.Live {
					continue
				}
				if _, ok := IsReturnExit(b); ok {
					n++
					if len(b.Nodes) == 0 || !spec.Passed(reader, NodeRef{b, len(b.Nodes) - 1}, "closed") {
						all = false
					}
				}
			}
			if all && n > 0 {
				ended[o] = true
			}
		}
	}
	c.Check(len(ended) > 0, "ack-queue/closed", reader.Pos(), "the control reader closes a channel on every way out",
		"the goroutine that reads the control stream closes no channel on every one of its ways out (a deferred close, or a close in front of every return - the return behind the End record included): "+
			"a receive loop that waits for room in the acknowledgement queue is not told that nothing more is read from the stream, and sits there with the End record queued behind the record it is stuck on")
	// the queue: channels whose element type carries a *FileDone
	isQueue := func(t types.Type) bool {
		ch, ok := types.Unalias(t).Underlying().(*types.Chan)
		if !ok {
			return false
		}
		st, ok := types.Unalias(ch.Elem()).Underlying().(*types.Struct)
		if !ok {
			return false
		}
		for i := 0; i < st.NumFields(); i++ {
			if strings.HasSuffix(st.Field(i).Type().String(), "transfer.FileDone") {
				return true
			}
		}
		return false
	}
	n := 0
	per := map[string]int{}
	for _, f := range append([]*FuncInfo{recv}, kids...) {
		info := f.Info()
		InspectNoLits(f.Body, func(m ast.Node) bool {
			ss, ok := m.(*ast.SendStmt)
			if !ok || !isQueue(info.TypeOf(ss.Chan)) {
				return true
			}
			n++
			per[f.Name]++
			good := false
			// the select this send is a clause of
			InspectNoLits(f.Body, func(x ast.Node) bool {
				sel, ok := x.(*ast.SelectStmt)
				if !ok {
					return true
				}
				mine := false
				for _, cl := range sel.Body.List {
					if cc := cl.(*ast.CommClause); cc.Comm == ast.Stmt(ss) {
						mine = true
					}
				}
				if !mine {
					return true
				}
				for _, cl := range sel.Body.List {
					cc := cl.(*ast.CommClause)
					if cc.Comm == nil {
						good = true // default: the send does not wait
						continue
					}
					if _, isSend := cc.Comm.(*ast.SendStmt); isSend {
						continue
					}
					if o := ObjOf(info, commRecvExpr(cc)); o != nil && ended[o] {
						good = true
					}
				}
				return true
			})
			c.Check(good, fmt.Sprintf("ack-queue/queue/%s#%d", f.Name, per[f.Name]), ss.Pos(), "a wait for room in the acknowledgement queue ends with the control stream",
				f.Name+" sends on the control writer's queue and waits for room with no way out but its context (no default clause, no clause on the channel the control reader closes at the end of the stream): "+
					"a peer that does not read acknowledgements fills the queue (8 per data stream), ends its side of the control stream and keeps the connection open - the receive loop sits in this send and never sees that the stream has ended")
			return true
		})
	}
	if n == 0 {
		c.Bad("ack-queue/queue/none", recv.Pos(), "found no send on the control writer's queue in RecvManifestMultiStream")
	}
	// (deadline) the goroutine that drains the queue writes to the control stream with a deadline only
	var streamObj types.Object
	{
		info := reader.Info()
		InspectNoLits(reader.Body, func(m ast.Node) bool {
			if call, ok := m.(*ast.CallExpr); ok && len(call.Args) >= 1 {
				if f := Callee(info, call); f != nil && f.Name() == "readControlMessage" {
					streamObj = ObjOf(info, call.Args[0])
				}
			}
			return true
		})
	}
	nw := 0
	for _, f := range kids {
		if f.Lit == nil || f == reader {
			continue
		}
		info := f.Info()
		drains := false
		InspectNoLits(f.Body, func(m ast.Node) bool {
			if u, ok := m.(*ast.UnaryExpr); ok && u.Op == token.ARROW && isQueue(info.TypeOf(u.X)) {
				drains = true
			}
			return true
		})
		if !drains {
			continue
		}
		InspectNoLits(f.Body, func(m ast.Node) bool {
			call, ok := m.(*ast.CallExpr)
			if !ok || streamObj == nil {
				return true
			}
			uses := false
			for _, a := range call.Args {
				if ObjOf(info, a) == streamObj {
					uses = true
				}
			}
			if !uses {
				return true
			}
			nw++
			g := p.CalleeInfo(info, call)
			good := g != nil && (g.Name == "transfer.writeFullWithTimeout" || g.Name == "transfer.writeFullWithTimeoutDelta")
			// ... and a failed write ends the receive: the `if err := write(..); err != nil` body records the error / cancels
			if good {
				ends := false
				for _, is := range enclosingIfsOrInit(f.Body, call) {
					ast.Inspect(is.Body, func(k ast.Node) bool {
						if c2, ok := k.(*ast.CallExpr); ok {
							if id, ok := ast.Unparen(c2.Fun).(*ast.Ident); ok && (id.Name == "setRecvErr" || strings.Contains(strings.ToLower(id.Name), "cancel")) {
								ends = true
							}
						}
						return true
					})
				}
				if !ends {
					c.Bad(fmt.Sprintf("ack-queue/deadline/%s#%d", f.Name, nw), call.Pos(), f.Name+" writes an acknowledgement with a deadline but a failed write does not end the receive (no setRecvErr / cancel in the branch that sees the error): "+
						"the writer is gone, the queue stays full, and the receive loop waits in it - behind a control reader that is itself stuck on the loop - for ever")
					return true
				}
			}
			c.Check(good, fmt.Sprintf("ack-queue/deadline/%s#%d", f.Name, nw), call.Pos(), "acknowledgements are written with the transfer's write deadline",
				f.Name+" hands the control stream to a writer other than writeFullWithTimeout: a plain blocking write to a peer that never reads its acknowledgements (and keeps the connection open) holds the writer, the full queue behind it holds the receive loop, "+
					"and with the loop stuck the control reader stops at its 65th record - the receive never returns, whatever the peer sends or ends afterwards")
			return true
		})
	}
	if nw == 0 {
		c.Bad("ack-queue/deadline/none", recv.Pos(), "found no write to the control stream in the goroutine that drains the acknowledgement queue")
	}
}

var _ = token.NoPos

// ackQueueNode finds, in the closure fin, the statement that hands a control message built with the key `key`
// (`done`, `resume`) to the control writer: a send of such a composite literal on a channel, or a call of a sibling
// closure that sends its own parameter on a channel (the queueing helper of F78). It returns the node to look up in
// fin's CFG, nil when there is none.
func ackQueueNode(p *Program, fin *FuncInfo, key string) ast.Node {
	info := fin.Info()
	mentions := func(e ast.Expr) bool {
		hit := false
		ast.Inspect(e, func(x ast.Node) bool {
			if kv, ok := x.(*ast.KeyValueExpr); ok {
				if k, ok := kv.Key.(*ast.Ident); ok && k.Name == key {
					hit = true
				}
			}
			return true
		})
		return hit
	}
	var found ast.Node
	InspectNoLits(fin.Body, func(m ast.Node) bool {
		if found != nil {
			return false
		}
		switch s := m.(type) {
		case *ast.SendStmt:
			if mentions(s.Value) {
				found = s
			}
		case *ast.CallExpr:
			if len(s.Args) == 0 {
				return true
			}
			h := p.CalleeInfo(info, s)
			if h == nil || h.Lit == nil || !isQueueHelper(h) {
				return true
			}
			for _, a := range s.Args {
				if mentions(a) {
					found = s
				}
			}
		}
		return true
	})
	return found
}

// isQueueHelper: a closure that sends one of its parameters on a channel.
func isQueueHelper(h *FuncInfo) bool {
	info := h.Info()
	res := false
	ast.Inspect(h.Body, func(m ast.Node) bool {
		ss, ok := m.(*ast.SendStmt)
		if !ok {
			return true
		}
		o := ObjOf(info, ss.Value)
		if o == nil {
			return true
		}
		if _, isChan := types.Unalias(info.TypeOf(ss.Chan)).Underlying().(*types.Chan); !isChan {
			return true
		}
		for k := 0; ; k++ {
			po := paramObj(h, k)
			if po == nil {
				break
			}
			if po == o {
				res = true
			}
		}
		return true
	})
	return res
}

// ---------------------------------------------------------------------------
// round 11

func init() {
	Register(&Rule{
		Name:  "R-BROADCAST-UNADDRESSED-ONLY",
		Props: []string{"C10"},
		Min:   1,
		Doc: "the server broadcasts a client's message only when the message names no addressee: every call of Hub.BroadcastExcept / Hub.Broadcast with a forwarded client envelope in handleWebSocket is reached only where `env.To == \"\"` is known " +
			"(the else branch of `env.To != \"\"` and nothing else) - a routing test narrowed by a further conjunct (`&& env.To != peerID`) sends the messages it no longer covers to everybody but the peer they name",
		Run: runBroadcastUnaddressedOnly,
	})
	Register(&Rule{
		Name:  "R-PONG-EXTENDS-DEADLINE",
		Props: []string{"C16"},
		Min:   1,
		Doc: "where the server arms a read deadline from the idle timeout it also installs a pong handler that pushes that deadline (gorilla consumes pong frames inside ReadMessage: the read loop never sees them): " +
			"in every function that calls SetReadDeadline with the idle-timeout limit on a websocket connection there is a SetPongHandler on that connection whose function calls SetReadDeadline with the same limit - " +
			"otherwise a peer that only waits (a host without receivers) is cut off one idle timeout after its last data frame although it answers every ping, and its session goes with it",
		Run: runPongExtendsDeadline,
	})
}

func runBroadcastUnaddressedOnly(c *Ctx) {
	p := c.P
	ws := p.Func("cmd/thruserv.handleWebSocket")
	if ws == nil {
		c.MissingAnchor("cmd/thruserv.handleWebSocket")
		return
	}
	info := ws.Info()
	var isTo func(e ast.Expr) bool
	isTo = func(e ast.Expr) bool {
		if id, ok := ast.Unparen(e).(*ast.Ident); ok {
			// a local copy of the field
			n := 0
			for _, d := range resolveExprs(ws, id, 2) {
				if _, same := ast.Unparen(d).(*ast.Ident); same {
					continue
				}
				if !isTo(d) {
					return false
				}
				n++
			}
			return n > 0
		}
		sel, ok := ast.Unparen(e).(*ast.SelectorExpr)
		if !ok || sel.Sel.Name != "To" {
			return false
		}
		t := info.TypeOf(sel.X)
		return t != nil && strings.HasSuffix(strings.TrimPrefix(t.String(), "*"), "protocol.Envelope")
	}
	spec := &PassSpec{Name: "unaddressed", SkipDefer: true, Vias: []Via{{Cond: func(g *FuncInfo, e ast.Expr) (string, bool, bool) {
		be, ok := ast.Unparen(e).(*ast.BinaryExpr)
		if !ok || (be.Op != token.EQL && be.Op != token.NEQ) {
			return "", false, false
		}
		var other ast.Expr
		switch {
		case isTo(be.X):
			other = be.Y
		case isTo(be.Y):
			other = be.X
		default:
			return "", false, false
		}
		if s, ok := constString(g.Info(), other); !ok || s != "" {
			return "", false, false
		}
		return "to-empty", be.Op == token.EQL, true
	}}}}
	spec.Kill = func(g *FuncInfo, n ast.Node) []string {
		if as, ok := n.(*ast.AssignStmt); ok {
			for _, l := range as.Lhs {
				if isTo(l) {
					return []string{"to-empty"}
				}
			}
		}
		return nil
	}
	n := 0
	ws.CFG().Calls(func(r NodeRef, call *ast.CallExpr) {
		f := Callee(info, call)
		if f == nil || !(f.Name() == "BroadcastExcept" || f.Name() == "Broadcast") || f.Pkg() == nil || !strings.HasSuffix(f.Pkg().Path(), "internal/peers") {
			return
		}
		// only broadcasts of the client's own envelope (the one whose To was tested); server notices are not routed
		forwarded := false
		for _, a := range call.Args {
			if t := info.TypeOf(a); t != nil && strings.HasSuffix(t.String(), "protocol.Envelope") {
				if o := rootObj(info, a); o != nil && o.Name() == "env" {
					forwarded = true
				}
			}
		}
		if !forwarded {
			return
		}
		n++
		c.Check(spec.Passed(ws, r, "to-empty"), fmt.Sprintf("broadcast-unaddressed/%s#%d", f.Name(), n), call.Pos(), "a client's message is broadcast only when it names nobody",
			"handleWebSocket can reach "+f.Name()+" with the client's envelope on a path where env.To == \"\" is not known: a message that names an addressee is delivered to every other peer of the session and not to the peer it names")
	})
	if n == 0 {
		c.Bad("broadcast-unaddressed/none", ws.Pos(), "found no broadcast of the client's envelope in handleWebSocket")
	}
}

func runPongExtendsDeadline(c *Ctx) {
	p := c.P
	n := 0
	for _, f := range p.Funcs() {
		if f.Decl == nil || f.Body == nil || !strings.Contains(p.Fset.Position(f.Pos()).Filename, "/cmd/thruserv/") || strings.HasSuffix(p.Fset.Position(f.Pos()).Filename, "_test.go") {
			continue
		}
		info := f.Info()
		// SetReadDeadline(<now>.Add(<limit field>)) directly in f: conn object and the limit's text
		type armed struct {
			conn  types.Object
			limit string
			pos   token.Pos
		}
		var arms []armed
		deadlineArg := func(call *ast.CallExpr) (types.Object, string, bool) {
			sel, ok := ast.Unparen(call.Fun).(*ast.SelectorExpr)
			if !ok || sel.Sel.Name != "SetReadDeadline" || len(call.Args) != 1 {
				return nil, "", false
			}
			add, ok := ast.Unparen(call.Args[0]).(*ast.CallExpr)
			if !ok || len(add.Args) != 1 {
				return nil, "", false
			}
			if s2, ok := ast.Unparen(add.Fun).(*ast.SelectorExpr); !ok || s2.Sel.Name != "Add" {
				return nil, "", false
			}
			lim := types.ExprString(add.Args[0])
			if !strings.Contains(strings.ToLower(lim), "idle") {
				return nil, "", false
			}
			return rootObj(info, sel.X), lim, true
		}
		// anywhere in f, helper closures included - but not inside the handlers themselves
		handlerLits := map[*ast.FuncLit]bool{}
		ast.Inspect(f.Body, func(m ast.Node) bool {
			if call, ok := m.(*ast.CallExpr); ok && len(call.Args) == 1 {
				if sel, ok := ast.Unparen(call.Fun).(*ast.SelectorExpr); ok && (sel.Sel.Name == "SetPongHandler" || sel.Sel.Name == "SetPingHandler") {
					if lit, ok := ast.Unparen(call.Args[0]).(*ast.FuncLit); ok {
						handlerLits[lit] = true
					}
				}
			}
			return true
		})
		ast.Inspect(f.Body, func(m ast.Node) bool {
			if lit, ok := m.(*ast.FuncLit); ok && handlerLits[lit] {
				return false
			}
			if call, ok := m.(*ast.CallExpr); ok {
				if o, lim, ok := deadlineArg(call); ok && o != nil {
					arms = append(arms, armed{o, lim, call.Pos()})
				}
			}
			return true
		})
		seen := map[types.Object]bool{}
		for _, a := range arms {
			if seen[a.conn] {
				continue
			}
			seen[a.conn] = true
			n++
			good := false
			ast.Inspect(f.Body, func(m ast.Node) bool {
				call, ok := m.(*ast.CallExpr)
				if !ok || len(call.Args) != 1 {
					return true
				}
				sel, ok := ast.Unparen(call.Fun).(*ast.SelectorExpr)
				if !ok || sel.Sel.Name != "SetPongHandler" || rootObj(info, sel.X) != a.conn {
					return true
				}
				var body *ast.BlockStmt
				if lit, ok := ast.Unparen(call.Args[0]).(*ast.FuncLit); ok {
					body = lit.Body
				} else if h := p.CalleeInfo(info, &ast.CallExpr{Fun: call.Args[0]}); h != nil {
					body = h.Body
				}
				if body == nil {
					return true
				}
				ast.Inspect(body, func(k ast.Node) bool {
					if c2, ok := k.(*ast.CallExpr); ok {
						if o, lim, ok := deadlineArg(c2); ok && o == a.conn && lim == a.limit {
							good = true
						}
						// through a helper closure of f
						if h := p.CalleeInfo(info, c2); h != nil && h.Lit != nil && h.Body != nil {
							ast.Inspect(h.Body, func(k2 ast.Node) bool {
								if c3, ok := k2.(*ast.CallExpr); ok {
									if o, lim, ok := deadlineArg(c3); ok && o == a.conn && lim == a.limit {
										good = true
									}
								}
								return true
							})
						}
					}
					return true
				})
				return true
			})
			c.Check(good, fmt.Sprintf("pong-extends/%s/%s", f.Name, a.conn.Name()), a.pos, "the idle deadline is pushed by pongs too",
				f.Name+" arms a read deadline of "+a.limit+" on "+a.conn.Name()+" but installs no pong handler that pushes it: the websocket library consumes pong frames inside ReadMessage, so the read loop never extends the deadline for them - "+
					"a peer that only waits is disconnected one idle timeout after its last data frame although it answers every ping (a host loses its session)")
		}
	}
	if n == 0 {
		c.Bad("pong-extends/none", token.NoPos, "found no SetReadDeadline armed from an idle-timeout limit in cmd/thruserv")
	}
}

func init() {
	Register(&Rule{
		Name:  "R-OUTPUT-OPEN-NONBLOCKING",
		Props: []string{"C02"},
		Min:   2,
		Doc: "an output path that cannot be written fails, it does not block: every os.OpenFile in the non-test code of internal/transfer that may create its file (O_CREATE among the flags) opens it O_RDWR (or O_NONBLOCK) - " +
			"a write-only open of a FIFO that happens to sit at the output path blocks until somebody reads it, inside the receive loop and deaf to cancellation, and the sender waits with it; opened for reading and writing it returns at once and the Truncate behind it fails",
		Run: runOutputOpenNonblocking,
	})
}

func runOutputOpenNonblocking(c *Ctx) {
	p := c.P
	n := 0
	per := map[string]int{}
	for _, f := range p.FuncsIn("internal/transfer") {
		if f.Body == nil || strings.HasSuffix(p.Fset.Position(f.Pos()).Filename, "_test.go") {
			continue
		}
		info := f.Info()
		InspectNoLits(f.Body, func(m ast.Node) bool {
			call, ok := m.(*ast.CallExpr)
			if !ok || !calleeIs(info, call, "os", "OpenFile") || len(call.Args) != 3 {
				return true
			}
			names := map[string]bool{}
			for _, e := range resolveExprs(f, call.Args[1], 2) {
				ast.Inspect(e, func(k ast.Node) bool {
					switch x := k.(type) {
					case *ast.SelectorExpr:
						names[x.Sel.Name] = true
					case *ast.Ident:
						if cst, ok := info.ObjectOf(x).(*types.Const); ok {
							names[cst.Name()] = true
						}
					}
					return true
				})
			}
			if !names["O_CREATE"] {
				return true
			}
			n++
			per[f.Name]++
			c.Check(names["O_RDWR"] || names["O_NONBLOCK"], fmt.Sprintf("output-open/%s#%d", f.Name, per[f.Name]), call.Pos(), "a created output file is opened for reading and writing",
				f.Name+" opens an output path with O_CREATE but neither O_RDWR nor O_NONBLOCK: when the path is a FIFO the open blocks until a reader appears - the receiver sits in it, does not see its context end, and the sender waits with it")
			return true
		})
	}
	if n == 0 {
		c.Bad("output-open/none", token.NoPos, "found no os.OpenFile with O_CREATE in internal/transfer")
	}
}

func init() {
	Register(&Rule{
		Name:  "R-DERIVED-CTX-IN-WORKERS",
		Props: []string{"C02", "C03"},
		Min:   2,
		Doc: "the goroutines and helper closures of a transfer watch the transfer's own context: in SendManifestMultiStream and RecvManifestMultiStream, which derive a cancellable context from their context parameter (X, cancel := context.WithCancel(ctx)), " +
			"no function literal behind the derivation refers to the parameter itself - an error recorded by one worker cancels the derived context, and a worker (or a helper it calls) that waits on the caller's context instead never sees it: " +
			"wg.Wait does not return, the streams stay open and the peer hangs too",
		Run: runDerivedCtxInWorkers,
	})
}

func runDerivedCtxInWorkers(c *Ctx) {
	p := c.P
	n := 0
	for _, f := range p.FuncsIn("internal/transfer") {
		if f.Decl == nil || f.Body == nil || strings.HasSuffix(p.Fset.Position(f.Pos()).Filename, "_test.go") {
			continue
		}
		// the two entry points the binaries call; the single-stream variants (tests only) derive a context for their reader alone
		if f.Name != "transfer.SendManifestMultiStream" && f.Name != "transfer.RecvManifestMultiStream" {
			continue
		}
		info := f.Info()
		// the derivation, directly in f's body
		var parent types.Object
		var derivedName string
		var at token.Pos
		InspectNoLits(f.Body, func(m ast.Node) bool {
			as, ok := m.(*ast.AssignStmt)
			if !ok || len(as.Rhs) != 1 || len(as.Lhs) != 2 || at != token.NoPos {
				return true
			}
			call, ok := ast.Unparen(as.Rhs[0]).(*ast.CallExpr)
			if !ok || !calleeIs(info, call, "context", "WithCancel") || len(call.Args) != 1 {
				return true
			}
			o := ObjOf(info, call.Args[0])
			if o == nil {
				return true
			}
			isParam := false
			for k := 0; ; k++ {
				po := paramObj(f, k)
				if po == nil {
					break
				}
				if po == o {
					isParam = true
				}
			}
			if isParam {
				parent, derivedName, at = o, types.ExprString(as.Lhs[0]), as.Pos()
			}
			return true
		})
		if parent == nil {
			continue
		}
		n++
		var bad []token.Pos
		for _, k := range allKids(f) {
			if k.Lit == nil || k.Lit.Pos() < at {
				continue
			}
			InspectNoLits(k.Body, func(m ast.Node) bool {
				if id, ok := m.(*ast.Ident); ok && info.Uses[id] == parent {
					bad = append(bad, id.Pos())
				}
				return true
			})
		}
		if len(bad) == 0 {
			c.OK("derived-ctx/"+f.Name, at, "no closure behind the derivation of "+derivedName+" refers to the caller's context")
			continue
		}
		for i, pos := range bad {
			c.Bad(fmt.Sprintf("derived-ctx/%s#%d", f.Name, i+1), pos, "a closure of "+f.Name+" refers to the caller's context "+parent.Name()+" although the transfer runs under "+derivedName+
				": when another worker records an error and cancels "+derivedName+", this one goes on waiting - the function's wait for its workers never ends, the streams stay open and the peer hangs as well")
		}
	}
	if n == 0 {
		c.Bad("derived-ctx/none", token.NoPos, "found no function in internal/transfer that derives a cancellable context from its context parameter")
	}
}

func init() {
	Register(&Rule{
		Name:  "R-CHUNKS-INDEXED",
		Props: []string{"C19", "C01"},
		Min:   1,
		Doc: "a file's chunks are counted by index: where the multiplexed receiver registers a file's state (stateByKey[key] = state) every path has attached resume metadata to it (state.sidecar assigned), given it an index bitmap (state.seen assigned), " +
			"or found the file beyond the size for which an index is kept (the false edge of `state.sidecar == nil && totalChunks <= maxResumeChunks`) - a state with neither counts frames, so a peer that sends one chunk twice and another never gets the file acknowledged with a hole in it",
		Run: runChunksIndexed,
	})
}

func runChunksIndexed(c *Ctx) {
	p := c.P
	recv := p.Func("transfer.RecvManifestMultiStream")
	if recv == nil {
		c.MissingAnchor("transfer.RecvManifestMultiStream")
		return
	}
	n := 0
	for _, f := range allKids(recv) {
		if f.Lit == nil {
			continue
		}
		info := f.Info()
		isStateField := func(e ast.Expr, name string) bool {
			sel, ok := ast.Unparen(e).(*ast.SelectorExpr)
			if !ok || sel.Sel.Name != name {
				return false
			}
			t := info.TypeOf(sel.X)
			return t != nil && strings.HasSuffix(t.String(), "recvFileStateMux")
		}
		spec := &PassSpec{Name: "indexed", SkipDefer: true, Vias: []Via{
			{Stmt: func(g *FuncInfo, nd ast.Node) (string, bool) {
				if as, ok := nd.(*ast.AssignStmt); ok {
					for i, l := range as.Lhs {
						if isStateField(l, "sidecar") || isStateField(l, "seen") {
							if len(as.Rhs) == len(as.Lhs) && types.ExprString(as.Rhs[i]) == "nil" {
								continue
							}
							return "indexed", true
						}
					}
				}
				return "", false
			}},
			{Cond: func(g *FuncInfo, e ast.Expr) (string, bool, bool) {
				// `state.sidecar == nil && totalChunks <= maxResumeChunks`: false means metadata attached or no index kept for this size
				var conj []ast.Expr
				var split func(x ast.Expr)
				split = func(x ast.Expr) {
					if be, ok := ast.Unparen(x).(*ast.BinaryExpr); ok && be.Op == token.LAND {
						split(be.X)
						split(be.Y)
						return
					}
					conj = append(conj, ast.Unparen(x))
				}
				split(e)
				if len(conj) == 0 {
					return "", false, false
				}
				for _, cj := range conj {
					be, ok := cj.(*ast.BinaryExpr)
					if !ok {
						return "", false, false
					}
					switch {
					case be.Op == token.EQL && (isStateField(be.X, "sidecar") || isStateField(be.X, "seen")) && types.ExprString(be.Y) == "nil":
					case (be.Op == token.LEQ || be.Op == token.LSS) && strings.Contains(types.ExprString(be.Y), "maxResumeChunks"):
					default:
						return "", false, false
					}
				}
				return "indexed", false, true
			}},
		}}
		f.CFG().EachNode(func(r NodeRef) {
			as, ok := r.Node().(*ast.AssignStmt)
			if !ok || len(as.Lhs) != 1 {
				return
			}
			ix, ok := ast.Unparen(as.Lhs[0]).(*ast.IndexExpr)
			if !ok || types.ExprString(ix.X) != "stateByKey" {
				return
			}
			n++
			c.Check(spec.Passed(f, r, "indexed"), fmt.Sprintf("chunks-indexed/%s#%d", f.Name, n), as.Pos(), "a registered file has resume metadata or an index bitmap",
				f.Name+" registers a file's state on a path that has neither attached resume metadata nor an index bitmap to it: its chunks are then counted per frame, "+
					"and a peer that sends a chunk twice and another never completes the file with a hole in it")
		})
	}
	if n == 0 {
		c.Bad("chunks-indexed/none", recv.Pos(), "found no `stateByKey[key] = state` in the closures of RecvManifestMultiStream")
	}
}

func init() {
	Register(&Rule{
		Name:  "R-DUMB-WRITE-CANCELLABLE",
		Props: []string{"C12"},
		Min:   2,
		Doc: "a cancelled transfer stops moving bytes (F79, F82): sendDumbDataWriter takes no context, so for every call of it in internal/app every path to the call has passed context.AfterFunc(<the function's context>, <a function that closes the writer, " +
			"or the connection the writer's stream was opened on>) - with --dumb-tcp, and with --dumb over more than one connection (the scheduler's closer reaches the first only), a receiver that left was marked failed and its slot given away while its streams went on: two transfers with --max-receivers 1",
		Run: runDumbWriteCancellable,
	})
}

func runDumbWriteCancellable(c *Ctx) {
	p := c.P
	writer := p.Func("app.sendDumbDataWriter")
	if writer == nil {
		c.MissingAnchor("app.sendDumbDataWriter")
		return
	}
	n := 0
	perFn := map[string]int{}
	for _, f := range p.FuncsIn("internal/app") {
		if f.Body == nil || f == writer || strings.HasSuffix(p.Fset.Position(f.Pos()).Filename, "_test.go") {
			continue
		}
		info := f.Info()
		var ctxObj types.Object
		for k := 0; ; k++ {
			po := paramObj(f, k)
			if po == nil {
				break
			}
			if po.Type().String() == "context.Context" {
				ctxObj = po
			}
		}
		closes := func(lit *ast.FuncLit, target types.Object) bool {
			hit := false
			ast.Inspect(lit.Body, func(m ast.Node) bool {
				if call, ok := m.(*ast.CallExpr); ok {
					if sel, ok := ast.Unparen(call.Fun).(*ast.SelectorExpr); ok && sel.Sel.Name == "Close" && rootObj(info, sel.X) == target {
						hit = true
					}
				}
				return true
			})
			return hit
		}
		f.CFG().Calls(func(r NodeRef, call *ast.CallExpr) {
			if p.CalleeInfo(info, call) != writer || len(call.Args) == 0 {
				return
			}
			n++
			perFn[f.Name]++
			w := rootObj(info, call.Args[0])
			key := fmt.Sprintf("dumb-write/%s#%d", f.Name, perFn[f.Name])
			if w == nil || ctxObj == nil {
				c.Bad(key, call.Pos(), f.Name+" hands sendDumbDataWriter a writer the checker cannot name, or has no context parameter: nothing can stop the write when the transfer is cancelled")
				return
			}
			// the writer, or the connection its stream was opened on
			targets := map[types.Object]bool{w: true}
			for _, d := range resolveExprs(f, call.Args[0], 2) {
				if oc, ok := ast.Unparen(d).(*ast.CallExpr); ok {
					if sel, ok := ast.Unparen(oc.Fun).(*ast.SelectorExpr); ok && sel.Sel.Name == "OpenStream" {
						if co := rootObj(info, sel.X); co != nil {
							targets[co] = true
						}
					}
				}
			}
			spec := &PassSpec{Name: "closer", SkipDefer: true, Vias: []Via{{Call: func(g *FuncInfo, c2 *ast.CallExpr) (string, bool) {
				if calleeIs(info, c2, "context", "AfterFunc") && len(c2.Args) == 2 && ObjOf(info, c2.Args[0]) == ctxObj {
					if lit, ok := ast.Unparen(c2.Args[1]).(*ast.FuncLit); ok {
						for t := range targets {
							if closes(lit, t) {
								return "closer", true
							}
						}
					}
				}
				return "", false
			}, Immediate: true}}}
			c.Check(spec.Passed(f, r, "closer"), key, call.Pos(), "the connection is closed when the transfer's context ends",
				f.Name+" writes to "+w.Name()+" through sendDumbDataWriter, which takes no context, and no context.AfterFunc("+ctxObj.Name()+", close "+w.Name()+") lies on every path to the call: "+
					"a receiver that leaves is marked failed and its slot goes to the next one while this write goes on - more simultaneous transfers than max-receivers")
		})
	}
	if n == 0 {
		c.Bad("dumb-write/none", writer.Pos(), "nothing in internal/app calls sendDumbDataWriter")
	}
}

func init() {
	Register(&Rule{
		Name:  "R-PROMPT-OFF-READLOOP",
		Props: []string{"C16"},
		Min:   2,
		Doc: "the signaling read loop is never held up by a question to the user (F80): (sync) nothing that runs synchronously in a callback handed to wsclient.Conn.ReadLoop - the callback, the functions of internal/app it calls, function literals that are not started with `go` - " +
			"mentions os.Stdin or calls a function of internal/app that takes a *bufio.Reader; (gate) in such a callback every call that sends the manifest accept lies behind a test of an atomic flag that the asking goroutine stores only after its last question - " +
			"only a loop that goes on reading answers the server's pings: a user slower than --ws-idle-timeout lost the connection at the prompt, and an offer repeated meanwhile must not accept for them",
		Run: runPromptOffReadLoop,
	})
}

func runPromptOffReadLoop(c *Ctx) {
	p := c.P
	// callbacks: literals passed to ReadLoop, and the methods they call with the envelope
	var roots []*FuncInfo
	for _, f := range p.FuncsIn("internal/app") {
		if f.Body == nil || strings.HasSuffix(p.Fset.Position(f.Pos()).Filename, "_test.go") {
			continue
		}
		info := f.Info()
		InspectNoLits(f.Body, func(m ast.Node) bool {
			call, ok := m.(*ast.CallExpr)
			if !ok || len(call.Args) != 2 {
				return true
			}
			if fn := Callee(info, call); fn == nil || fn.Name() != "ReadLoop" || fn.Pkg() == nil || !strings.HasSuffix(fn.Pkg().Path(), "internal/wsclient") {
				return true
			}
			if lit, ok := ast.Unparen(call.Args[1]).(*ast.FuncLit); ok {
				if li := p.LitInfo(lit); li != nil {
					roots = append(roots, li)
				}
			} else if h := p.CalleeInfo(info, &ast.CallExpr{Fun: call.Args[1]}); h != nil {
				roots = append(roots, h)
			}
			return true
		})
	}
	if len(roots) == 0 {
		c.MissingAnchor("a callback handed to wsclient.Conn.ReadLoop in internal/app")
		return
	}
	takesReader := func(g *FuncInfo) bool {
		if g == nil || g.Type == nil || g.Type.Params == nil {
			return false
		}
		for _, fl := range g.Type.Params.List {
			if t := g.Info().TypeOf(fl.Type); t != nil && strings.HasSuffix(t.String(), "bufio.Reader") {
				return true
			}
		}
		return false
	}
	// synchronous closure of a function: its body without go-started literals, plus app callees (depth 3)
	type finding struct {
		pos  token.Pos
		what string
	}
	var visit func(f *FuncInfo, depth int, seen map[*FuncInfo]bool, out *[]finding, accepts *[]struct {
		f    *FuncInfo
		call *ast.CallExpr
	})
	visit = func(f *FuncInfo, depth int, seen map[*FuncInfo]bool, out *[]finding, accepts *[]struct {
		f    *FuncInfo
		call *ast.CallExpr
	}) {
		if f == nil || f.Body == nil || seen[f] || depth > 3 {
			return
		}
		seen[f] = true
		info := f.Info()
		goLits := map[*ast.FuncLit]bool{}
		ast.Inspect(f.Body, func(m ast.Node) bool {
			if gs, ok := m.(*ast.GoStmt); ok {
				if lit, ok := ast.Unparen(gs.Call.Fun).(*ast.FuncLit); ok {
					goLits[lit] = true
				}
			}
			return true
		})
		var walk func(n ast.Node) bool
		walk = func(m ast.Node) bool {
			switch x := m.(type) {
			case *ast.FuncLit:
				if goLits[x] {
					return false
				}
			case *ast.GoStmt:
				// the call itself runs elsewhere; its arguments are evaluated here
				for _, a := range x.Call.Args {
					ast.Inspect(a, walk)
				}
				if lit, ok := ast.Unparen(x.Call.Fun).(*ast.FuncLit); ok {
					_ = lit
				}
				return false
			case *ast.SelectorExpr:
				if id, ok := x.X.(*ast.Ident); ok && id.Name == "os" && x.Sel.Name == "Stdin" {
					if pn, ok := info.Uses[id].(*types.PkgName); ok && pn.Imported().Path() == "os" {
						*out = append(*out, finding{x.Pos(), f.Name + " mentions os.Stdin"})
					}
				}
			case *ast.CallExpr:
				g := p.CalleeInfo(info, x)
				if g != nil && strings.HasPrefix(g.Name, "app.") {
					if takesReader(g) {
						*out = append(*out, finding{x.Pos(), f.Name + " calls " + g.Name + ", which reads the user's answer"})
					}
					if g.Name == "app.(*snapshotReceiver).sendAccept" || g.Name == "app.(*snapshotReceiver).sendAcceptTo" {
						*accepts = append(*accepts, struct {
							f    *FuncInfo
							call *ast.CallExpr
						}{f, x})
					} else {
						visit(g, depth+1, seen, out, accepts)
					}
				}
			}
			return true
		}
		ast.Inspect(f.Body, walk)
	}
	n := 0
	for _, root := range roots {
		var found []finding
		var accepts []struct {
			f    *FuncInfo
			call *ast.CallExpr
		}
		visit(root, 0, map[*FuncInfo]bool{}, &found, &accepts)
		n++
		key := fmt.Sprintf("prompt-off-readloop/sync/%s", root.Name)
		if len(found) == 0 {
			c.OK(key, root.Pos(), "nothing that runs synchronously in this read-loop callback waits for the user")
		} else {
			for i, fd := range found {
				c.Bad(fmt.Sprintf("%s#%d", key, i+1), fd.pos, "in the callback of the signaling read loop "+fd.what+": while the user has not answered nothing reads from the socket, the server's pings go unanswered, "+
					"and after --ws-idle-timeout the server closes the connection - the receiver loses its session at its own first prompt")
			}
		}
		// (gate)
		for i, ac := range accepts {
			f := ac.f
			info := f.Info()
			spec := &PassSpec{Name: "answered", SkipDefer: true, Vias: []Via{{Cond: func(g *FuncInfo, e ast.Expr) (string, bool, bool) {
				call, ok := ast.Unparen(e).(*ast.CallExpr)
				if !ok {
					return "", false, false
				}
				sel, ok := ast.Unparen(call.Fun).(*ast.SelectorExpr)
				if !ok || sel.Sel.Name != "Load" {
					return "", false, false
				}
				if t := g.Info().TypeOf(sel.X); t == nil || !strings.HasSuffix(t.String(), "atomic.Bool") {
					return "", false, false
				}
				fieldSel, ok := ast.Unparen(sel.X).(*ast.SelectorExpr)
				if !ok || !flagStoredAfterQuestions(p, takesReader, fieldSel.Sel.Name) {
					return "", false, false
				}
				return "answered", true, true
			}}}}
			ref := f.CFG().Find(ac.call.Pos())
			n++
			c.Check(ref.Valid() && spec.Passed(f, ref, "answered"), fmt.Sprintf("prompt-off-readloop/gate/%s#%d", f.Name, i+1), ac.call.Pos(), "an offer accepts only once the user has answered",
				f.Name+" sends the manifest accept from the read loop on a path that has not seen the asking goroutine's `answered` flag set: the host offers again whenever a peer joins, "+
					"and such an offer would accept the transfer while the user is still at the prompt (or has said no and the process has not exited yet)")
			_ = info
		}
	}
	if n == 0 {
		c.Bad("prompt-off-readloop/none", token.NoPos, "no read-loop callback found")
	}
}

// flagStoredAfterQuestions: some go-started literal of internal/app calls a reader-taking function and stores true into the
// atomic field of that name only behind its last such call, and nobody else stores into it.
func flagStoredAfterQuestions(p *Program, takesReader func(*FuncInfo) bool, field string) bool {
	stores, good := 0, 0
	for _, f := range p.FuncsIn("internal/app") {
		if f.Body == nil || strings.HasSuffix(p.Fset.Position(f.Pos()).Filename, "_test.go") {
			continue
		}
		info := f.Info()
		var lastQ token.Pos
		InspectNoLits(f.Body, func(m ast.Node) bool {
			if call, ok := m.(*ast.CallExpr); ok {
				if g := p.CalleeInfo(info, call); g != nil && takesReader(g) && call.End() > lastQ {
					lastQ = call.End()
				}
			}
			return true
		})
		InspectNoLits(f.Body, func(m ast.Node) bool {
			call, ok := m.(*ast.CallExpr)
			if !ok || len(call.Args) != 1 {
				return true
			}
			sel, ok := ast.Unparen(call.Fun).(*ast.SelectorExpr)
			if !ok || sel.Sel.Name != "Store" {
				return true
			}
			fs, ok := ast.Unparen(sel.X).(*ast.SelectorExpr)
			if !ok || fs.Sel.Name != field {
				return true
			}
			stores++
			if lastQ != token.NoPos && call.Pos() > lastQ && f.Lit != nil && types.ExprString(call.Args[0]) == "true" {
				// not inside a conditional of its own
				if len(enclosingIfs(f.Body, call)) == 0 {
					good++
				}
			}
			return true
		})
	}
	return stores > 0 && stores == good
}

func init() {
	Register(&Rule{
		Name:  "R-EMPTY-TREE-CONFIRMED",
		Props: []string{"C02"},
		Min:   1,
		Doc: "the sender reports success for a tree without files only on a confirmation it can tell from a failure (Y1/AA5, third report in round 11; known finding F81): with files the success rests on a FileDone{ok} per file; behind `totalFiles == 0` the final `return nil` of SendManifestMultiStream " +
			"must lie behind a received value that is looked at (a record, an error, an `ok`), not behind a select whose every clause merely ends the wait - today it ends on any end of the control stream, on five seconds, on cancellation: " +
			"a receiver that could not create a directory fails, and the sender says success",
		Run: runEmptyTreeConfirmed,
	})
}

func runEmptyTreeConfirmed(c *Ctx) {
	p := c.P
	f := p.Func("transfer.SendManifestMultiStream")
	if f == nil {
		c.MissingAnchor("transfer.SendManifestMultiStream")
		return
	}
	info := f.Info()
	// the step in front of the final `return nil`: an if (whatever the spelling of its condition) or a bare select that waits
	var last *ast.IfStmt
	if n := len(f.Body.List); n >= 2 {
		if rs, ok := f.Body.List[n-1].(*ast.ReturnStmt); ok && len(rs.Results) == 1 && types.ExprString(rs.Results[0]) == "nil" {
			switch st := f.Body.List[n-2].(type) {
			case *ast.IfStmt:
				hasSelect := false
				ast.Inspect(st.Body, func(m ast.Node) bool {
					if _, ok := m.(*ast.SelectStmt); ok {
						hasSelect = true
					}
					return true
				})
				if hasSelect && strings.Contains(types.ExprString(st.Cond), "totalFiles") {
					last = st
				}
			}
		}
	}
	if last == nil {
		c.Unknown("empty-tree/transfer.SendManifestMultiStream", f.Pos(), "cannot find the wait for a tree without files (an if on totalFiles holding a select) in front of the sender's final `return nil`")
		return
	}
	_ = info
	// confirmed: some receive in the block binds a value that is used in a condition of the block, and a failing outcome returns an error
	confirmed := false
	ast.Inspect(last.Body, func(m ast.Node) bool {
		cc, ok := m.(*ast.CommClause)
		if !ok {
			return true
		}
		as, ok := cc.Comm.(*ast.AssignStmt)
		if !ok || len(as.Lhs) == 0 {
			return true
		}
		bound := ObjOf(info, as.Lhs[0])
		if bound == nil {
			return true
		}
		for _, st := range cc.Body {
			ast.Inspect(st, func(k ast.Node) bool {
				if is, ok := k.(*ast.IfStmt); ok {
					uses := false
					ast.Inspect(is.Cond, func(x ast.Node) bool {
						if id, ok := x.(*ast.Ident); ok && info.ObjectOf(id) == bound {
							uses = true
						}
						return true
					})
					if uses {
						ast.Inspect(is.Body, func(x ast.Node) bool {
							if rs, ok := x.(*ast.ReturnStmt); ok && len(rs.Results) == 1 && types.ExprString(rs.Results[0]) != "nil" {
								confirmed = true
							}
							return true
						})
					}
				}
				return true
			})
		}
		return true
	})
	c.Check(confirmed, "empty-tree/transfer.SendManifestMultiStream", last.Pos(), "success for a tree without files rests on something the receiver sent",
		"behind `totalFiles == 0` SendManifestMultiStream returns nil whatever ended its wait (the receiver's end of the control stream - the same on success and failure -, five seconds, cancellation): "+
			"for a tree of directories only, a receiver that could not create one of them reports failure while the sender reports success")
}

// enclosingIfsOrInit: the if statements whose init statement or condition contains target (the `if err := f(); err != nil` idiom),
// plus those whose body contains it.
func enclosingIfsOrInit(root ast.Node, target ast.Node) []*ast.IfStmt {
	var out []*ast.IfStmt
	ast.Inspect(root, func(m ast.Node) bool {
		is, ok := m.(*ast.IfStmt)
		if !ok {
			return true
		}
		if is.Init != nil && is.Init.Pos() <= target.Pos() && target.End() <= is.Init.End() {
			out = append(out, is)
		}
		return true
	})
	return out
}
