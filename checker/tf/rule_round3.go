package tf

// Rules added after the third round of seeded changes (DESIGN.md section 8.5).

import (
	"fmt"
	"go/ast"
	"go/token"
	"go/types"
	"strings"
)

func init() {
	Register(&Rule{
		Name:  "R-CTX-SCOPE",
		Props: []string{"C02"},
		Min:   3,
		Doc: "the sender's goroutines wait on the context that the transfer's error path cancels: in SendManifestMultiStream every context passed, inside a goroutine started after the cancellable transfer context was made, " +
			"to a blocking helper (the local task/poll closures, waitReady, registry waits, read/write-with-timeout helpers) derives from that transfer context, not from the caller's context - " +
			"otherwise a worker that is idle when the transfer fails polls forever and the sender never returns",
		Run: runCtxScope,
	})
	Register(&Rule{
		Name:  "R-SCOPE-PAIR",
		Props: []string{"C09"},
		Min:   1,
		Doc: "the election flag that decides which dial hands over its connection is created in the same function activation as the result channel it guards: a flag that outlives the channel (shared by the direct and the relay phase) " +
			"is already set when the second phase starts, its winner closes itself and the owner waits for a connection that never comes",
		Run: runScopePair,
	})
	Register(&Rule{
		Name:  "R-INFLIGHT-BALANCE",
		Props: []string{"C17", "C03"},
		Min:   2,
		Doc: "every call of markChunkDone un-counts its chunk: each return of markChunkDone is reached only past the inFlight decrement (or the test that inFlight is already 0); " +
			"a return in front of it leaves inFlight one too high for ever, FileEnd is never emitted and both sides wait",
		Run: runInflightBalance,
	})
	Register(&Rule{
		Name:  "R-REGISTRY",
		Props: []string{"C03", "C15"},
		Min:   4,
		Doc: "wait/deliver registries of internal/transfer: (all-waiters) fileWaitRegistry keeps every waiter of a file (registration appends to the per-file list, signal closes each element) - with one slot per file a second reader replaces the first and is the only one woken; " +
			"(close-after-unlink) a waiter's channel is closed by deliver only after its map entry was deleted in the same critical section - otherwise a second record for the same file sends on a closed channel and the process dies",
		Run: runRegistry,
	})
}

func allKids(f *FuncInfo) []*FuncInfo {
	out := []*FuncInfo{f}
	for _, k := range f.Kids {
		out = append(out, allKids(k)...)
	}
	return out
}

func runCtxScope(c *Ctx) {
	p := c.P
	send := p.Func("transfer.SendManifestMultiStream")
	if send == nil {
		c.MissingAnchor("transfer.SendManifestMultiStream")
		return
	}
	info := send.Info()
	// the transfer context: the WithCancel whose cancel function is called by the closure that records the transfer error
	var tctx, outer types.Object
	if send.Type.Params != nil && len(send.Type.Params.List) > 0 && len(send.Type.Params.List[0].Names) > 0 {
		outer = info.Defs[send.Type.Params.List[0].Names[0]]
	}
	cancelOf := map[types.Object]types.Object{} // cancel func -> ctx
	InspectNoLits(send.Body, func(n ast.Node) bool {
		if as, ok := n.(*ast.AssignStmt); ok && len(as.Lhs) == 2 && len(as.Rhs) == 1 {
			if call, ok := ast.Unparen(as.Rhs[0]).(*ast.CallExpr); ok && calleeIs(info, call, "context", "WithCancel") {
				cancelOf[ObjOf(info, as.Lhs[1])] = ObjOf(info, as.Lhs[0])
			}
		}
		return true
	})
	for _, k := range send.Kids {
		if k.Var == nil {
			continue
		}
		// an error recorder: assigns a captured error variable and calls a cancel function
		setsErr := false
		var cancels types.Object
		ast.Inspect(k.Body, func(n ast.Node) bool {
			switch v := n.(type) {
			case *ast.AssignStmt:
				for _, l := range v.Lhs {
					if o, ok := ObjOf(k.Info(), l).(*types.Var); ok && isErrorType(o.Type()) && owningFunc(k, o) == send {
						setsErr = true
					}
				}
			case *ast.CallExpr:
				if o := ObjOf(k.Info(), v.Fun); o != nil && cancelOf[o] != nil {
					cancels = o
				}
			}
			return true
		})
		if setsErr && cancels != nil {
			tctx = cancelOf[cancels]
		}
	}
	if tctx == nil || outer == nil {
		c.Unknown("ctx-scope/transfer-context", send.Pos(), "cannot identify the transfer context (a context.WithCancel whose cancel function the error recorder calls)")
		return
	}
	c.OK("ctx-scope/transfer-context", tctx.Pos(), "transfer context "+tctx.Name()+" is cancelled by the error recorder")
	derives := func(f *FuncInfo, e ast.Expr) bool {
		ok := false
		for _, d := range resolveExprs(f, e, 3) {
			ast.Inspect(d, func(n ast.Node) bool {
				if id, isID := n.(*ast.Ident); isID && f.Info().Uses[id] == tctx {
					ok = true
				}
				return true
			})
		}
		return ok
	}
	// goroutines: literals that are the operand of a go statement, and everything nested in them
	n := 0
	for _, g := range allKids(send) {
		if g == send || g.Lit == nil {
			continue
		}
		inGo := false
		for a := g; a != nil && a != send; a = a.Parent {
			par := a.Parent
			if par == nil {
				break
			}
			ast.Inspect(par.Body, func(m ast.Node) bool {
				if gs, ok := m.(*ast.GoStmt); ok && ast.Unparen(gs.Call.Fun) == ast.Expr(a.Lit) && gs.Pos() > tctx.Pos() {
					inGo = true
				}
				return true
			})
		}
		if !inGo {
			continue
		}
		gi := g.Info()
		InspectNoLits(g.Body, func(m ast.Node) bool {
			call, ok := m.(*ast.CallExpr)
			if !ok || len(call.Args) == 0 {
				return true
			}
			t := gi.TypeOf(call.Args[0])
			if t == nil || t.String() != "context.Context" {
				return true
			}
			// only uses of the caller's context matter: a context made inside the goroutine (timeouts) is judged at its creation
			usesOuter := false
			ast.Inspect(call.Args[0], func(x ast.Node) bool {
				if id, isID := x.(*ast.Ident); isID && gi.Uses[id] == outer {
					usesOuter = true
				}
				return true
			})
			n++
			key := fmt.Sprintf("ctx-scope/%s#%d", g.Name, n)
			if usesOuter && !derives(g, call.Args[0]) {
				c.Bad(key, call.Pos(), types.ExprString(call.Fun)+" is given the caller's context inside a goroutine of the transfer: it is not cancelled when the transfer fails (setErr cancels "+tctx.Name()+" only), so a worker that is idle at that moment keeps polling, wg.Wait never returns and the sender hangs after the fault")
			} else {
				c.OK(key, call.Pos(), "context argument is scoped to the transfer (or made locally)")
			}
			return true
		})
	}
}

func runScopePair(c *Ctx) {
	p := c.P
	pd := p.Func("ice.(*Prober).ProbeAndDial")
	if pd == nil {
		c.MissingAnchor("ice.(*Prober).ProbeAndDial")
		return
	}
	n := 0
	for _, f := range allKids(pd) {
		info := f.Info()
		// result channels of connections made in f
		var chans []types.Object
		InspectNoLits(f.Body, func(m ast.Node) bool {
			if as, ok := m.(*ast.AssignStmt); ok && len(as.Lhs) == 1 && len(as.Rhs) == 1 {
				if call, ok := ast.Unparen(as.Rhs[0]).(*ast.CallExpr); ok {
					if id, ok := ast.Unparen(call.Fun).(*ast.Ident); ok && id.Name == "make" && len(call.Args) >= 1 {
						if ct, ok := info.TypeOf(call.Args[0]).Underlying().(*types.Chan); ok && strings.HasSuffix(ct.Elem().String(), "quic-go.Conn") {
							chans = append(chans, ObjOf(info, as.Lhs[0]))
						}
					}
				}
			}
			return true
		})
		if len(chans) == 0 {
			continue
		}
		// election flags used by sends into those channels (CompareAndSwap receivers in f and its closures)
		for _, g := range allKids(f) {
			gi := g.Info()
			InspectNoLits(g.Body, func(m ast.Node) bool {
				call, ok := m.(*ast.CallExpr)
				if !ok {
					return true
				}
				sel, ok := ast.Unparen(call.Fun).(*ast.SelectorExpr)
				if !ok || !strings.HasPrefix(sel.Sel.Name, "CompareAndSwap") {
					return true
				}
				flag, _ := ObjOf(gi, sel.X).(*types.Var)
				if flag == nil {
					return true
				}
				n++
				own := owningFunc(g, flag)
				// round 6: flag and channel hoisted together are consistent with each other and still shared between rounds: the election's
				// state lives in the function that takes the winner out of the channel (one election per receive)
				for _, ch := range chans {
					for _, h := range allKids(f) {
						recvHere := false
						InspectNoLits(h.Body, func(x ast.Node) bool {
							if u, ok := x.(*ast.UnaryExpr); ok && u.Op == token.ARROW && ObjOf(h.Info(), u.X) == ch {
								recvHere = true
							}
							return true
						})
						if recvHere && h != own {
							c.Bad(fmt.Sprintf("scope-pair/%s/%s#%d/per-round", f.Name, flag.Name(), n), call.Pos(), "the election state ("+flag.Name()+", "+ch.Name()+") is declared in "+own.Name+" but the winner is taken out of the channel in "+h.Name+", which runs once per probing round (direct phase, then relay phase): "+
								"after a first round in which every dial failed the election is already taken, the dial that succeeds in the second round closes its connection as a loser and the owner waits for ever on an empty channel")
						}
					}
				}
				c.Check(own == f, fmt.Sprintf("scope-pair/%s/%s#%d", f.Name, flag.Name(), n), call.Pos(), "election flag "+flag.Name()+" lives in the activation that made the result channel",
					"the election flag "+flag.Name()+" is declared outside the function that makes the result channel it guards: one flag is shared by successive activations (direct phase, then relay phase); after a failed first phase it is already set, the winner of the second phase closes itself as a loser and the owner waits for ever on an empty channel")
				return true
			})
		}
	}
	if n == 0 {
		c.Unknown("scope-pair/none", pd.Pos(), "found no election (CompareAndSwap) next to a connection result channel in ProbeAndDial")
	}
}

func runInflightBalance(c *Ctx) {
	p := c.P
	f := p.Func("transfer.(*sendFileState).markChunkDone")
	if f == nil {
		c.MissingAnchor("transfer.(*sendFileState).markChunkDone")
		return
	}
	info := f.Info()
	isInFlight := func(e ast.Expr) bool {
		sel, ok := ast.Unparen(e).(*ast.SelectorExpr)
		if !ok {
			return false
		}
		v, _ := info.Uses[sel.Sel].(*types.Var)
		return v != nil && v.IsField() && v.Name() == "inFlight"
	}
	spec := &PassSpec{SkipDefer: true, Vias: []Via{
		{Stmt: func(g *FuncInfo, n ast.Node) (string, bool) {
			switch s := n.(type) {
			case *ast.IncDecStmt:
				if s.Tok == token.DEC && isInFlight(s.X) {
					return "uncounted", true
				}
			case *ast.AssignStmt:
				if len(s.Lhs) == 1 && isInFlight(s.Lhs[0]) && s.Tok == token.SUB_ASSIGN {
					return "uncounted", true
				}
			}
			return "", false
		}},
		{Cond: func(g *FuncInfo, e ast.Expr) (string, bool, bool) {
			if be, ok := ast.Unparen(e).(*ast.BinaryExpr); ok && isInFlight(be.X) {
				if z, isC := constInt(info, be.Y); isC && z == 0 {
					switch be.Op {
					case token.GTR, token.NEQ:
						return "uncounted", false, true // already 0
					case token.EQL:
						return "uncounted", true, true
					}
				}
			}
			return "", false, false
		}},
	}}
	n := 0
	for _, b := range f.CFG().Blocks {
		ret, ok := IsReturnExit(b)
		if !ok {
			continue
		}
		n++
		c.Check(spec.Passed(f, NodeRef{b, len(b.Nodes) - 1}, "uncounted"), fmt.Sprintf("inflight/markChunkDone/return#%d", n), ret.Pos(), "return reached only past the inFlight decrement",
			"markChunkDone can return before it has un-counted the finished chunk (inFlight--): a chunk that finishes while the verification verdict or a re-send is pending stays counted for ever, scheduleDone && inFlight == 0 never holds, FileEnd is never emitted and both sides wait")
	}
}

func runRegistry(c *Ctx) {
	p := c.P
	ls := NewLockSpec()
	// (all-waiters)
	wait := p.Func("transfer.(*fileWaitRegistry).wait")
	sig := p.Func("transfer.(*fileWaitRegistry).signal")
	if wait == nil || sig == nil {
		c.MissingAnchor("transfer.(*fileWaitRegistry).wait / signal")
	} else {
		wi := wait.Info()
		appends := false
		ast.Inspect(wait.Body, func(n ast.Node) bool {
			as, ok := n.(*ast.AssignStmt)
			if !ok || len(as.Lhs) != 1 || len(as.Rhs) != 1 {
				return true
			}
			ix, ok := ast.Unparen(as.Lhs[0]).(*ast.IndexExpr)
			if !ok {
				return true
			}
			sel, ok := ast.Unparen(ix.X).(*ast.SelectorExpr)
			if !ok || sel.Sel.Name != "waiters" {
				return true
			}
			if call, ok := ast.Unparen(as.Rhs[0]).(*ast.CallExpr); ok {
				if id, ok := ast.Unparen(call.Fun).(*ast.Ident); ok && id.Name == "append" && len(call.Args) >= 2 && types.ExprString(call.Args[0]) == types.ExprString(as.Lhs[0]) {
					appends = true
				}
			}
			return true
		})
		_ = wi
		c.Check(appends, "all-waiters/registration-appends", wait.Pos(), "every waiter of a file is kept (append to the per-file list)",
			"fileWaitRegistry.wait stores its channel in a single slot per file: when two data streams deliver chunks of a file before its FileBegin was handled, the second reader replaces the first, only one of them is woken, the other keeps a chunk header with its payload unread and the transfer hangs")
		closesAll := false
		ast.Inspect(sig.Body, func(n ast.Node) bool {
			if rs, ok := n.(*ast.RangeStmt); ok {
				ast.Inspect(rs.Body, func(m ast.Node) bool {
					if call, ok := m.(*ast.CallExpr); ok {
						if id, ok := ast.Unparen(call.Fun).(*ast.Ident); ok && id.Name == "close" && len(call.Args) == 1 && ObjOf(sig.Info(), call.Args[0]) == ObjOf(sig.Info(), rs.Value) {
							closesAll = true
						}
					}
					return true
				})
			}
			return true
		})
		c.Check(closesAll, "all-waiters/signal-closes-each", sig.Pos(), "signal closes every registered channel", "fileWaitRegistry.signal does not close each registered waiter channel: readers other than one stay blocked")
	}
	// (close-after-unlink)
	n := 0
	for _, f := range p.FuncsIn("internal/transfer") {
		if f.Decl == nil || f.Decl.Recv == nil || !strings.HasSuffix(f.Name, ".deliver") {
			continue
		}
		info := f.Info()
		cfg := f.CFG()
		// channels looked up from r.waiters[...]
		fromMap := map[types.Object]ast.Expr{}
		ast.Inspect(f.Body, func(m ast.Node) bool {
			if as, ok := m.(*ast.AssignStmt); ok && len(as.Rhs) == 1 {
				if ix, ok := ast.Unparen(as.Rhs[0]).(*ast.IndexExpr); ok {
					if sel, ok := ast.Unparen(ix.X).(*ast.SelectorExpr); ok && sel.Sel.Name == "waiters" {
						fromMap[ObjOf(info, as.Lhs[0])] = ix.Index
					}
				}
			}
			return true
		})
		unl := &PassSpec{SkipDefer: true, Vias: []Via{{Stmt: func(g *FuncInfo, nd ast.Node) (string, bool) {
			hit := ""
			InspectNoLits(nd, func(m ast.Node) bool {
				if call, ok := m.(*ast.CallExpr); ok && len(call.Args) == 2 {
					if id, ok := ast.Unparen(call.Fun).(*ast.Ident); ok && id.Name == "delete" {
						if sel, ok := ast.Unparen(call.Args[0]).(*ast.SelectorExpr); ok && sel.Sel.Name == "waiters" {
							hit = "unlinked:" + types.ExprString(call.Args[1])
						}
					}
				}
				return true
			})
			return hit, hit != ""
		}}}}
		cfg.Calls(func(r NodeRef, call *ast.CallExpr) {
			id, ok := ast.Unparen(call.Fun).(*ast.Ident)
			if !ok || id.Name != "close" || len(call.Args) != 1 {
				return
			}
			ch := ObjOf(info, call.Args[0])
			key, isWaiter := fromMap[ch]
			if !isWaiter {
				return
			}
			n++
			held := len(HeldAny(ls, f, r)) > 0
			_ = held
			c.Check(unl.Passed(f, r, "unlinked:"+types.ExprString(key)), fmt.Sprintf("close-after-unlink/%s#%d", f.Name, n), call.Pos(), "the waiter's map entry is deleted before its channel is closed",
				f.Name+" closes a waiter channel that is still in the waiters map: a second record for the same file (a duplicated FileDone from a faulty or hostile peer) finds it and sends on the closed channel - the goroutine reading acknowledgements panics and the process dies")
		})
	}
	if n == 0 {
		c.Unknown("close-after-unlink/none", token.NoPos, "found no deliver method closing a waiter channel in internal/transfer")
	}
}

func init() {
	Register(&Rule{
		Name:  "R-READ-LOOP",
		Props: []string{"C15"},
		Min:   1,
		Doc: "a loop that reads a stream until a byte count is reached leaves the loop on every non-nil read error, io.EOF included: after `n, err := r.Read(buf)` inside a loop, the edge on which err is non-nil reaches only " +
			"a break/return (a condition that exempts io.EOF without a separate `err == io.EOF` exit keeps reading an ended stream for ever at 100% CPU)",
		Run: runReadLoop,
	})
	Register(&Rule{
		Name:  "R-IP-KEY",
		Props: []string{"C14"},
		Min:   2,
		Doc: "per-address limits are keyed by the connection's remote address: the key passed to ipLimiter.Allow derives from http.Request.RemoteAddr only; nothing the client writes (a header such as X-Forwarded-For) flows into it - " +
			"otherwise a fresh header value per request gets a fresh full bucket and one address exceeds the configured rates without bound",
		Run: runIPKey,
	})
	Register(&Rule{
		Name:  "R-STORE-BY-VALUE",
		Props: []string{"C14"},
		Min:   1,
		Doc: "Store.sessions holds Session values: the session is stored into the map only after its last field assignment (no write to a field of the local session reachable after the store) and byCode is keyed by the field of that same value - " +
			"a store before the join-code retry loop leaves a stale code in the stored copy, two live sessions carry the same code and deleting one unlinks the other",
		Run: runStoreByValue,
	})
	Register(&Rule{
		Name:  "R-DEADLINE-REARM",
		Props: []string{"C10"},
		Min:   1,
		Doc: "an absolute I/O deadline on a signaling connection is re-armed where the I/O happens: every SetWriteDeadline on the WebSocket connection sits in the function that performs the write (per message), " +
			"never once at connection setup - a deadline armed once expires after the idle timeout and from then on every message to that peer is lost while the peer keeps reading",
		Run: runDeadlineRearm,
	})
	Register(&Rule{
		Name:  "R-PEERID-DELETE",
		Props: []string{"C10", "C11"},
		Min:   2,
		Doc: "an entry of Hub.byPeerID is deleted only by the connection it names: every delete(byPeerID[sid], peerID) is reached, in the same critical section, only past a read of that very entry whose value was compared with a connection id - " +
			"after a last-write-wins replacement the entry belongs to the newer connection, and an unguarded delete by the old connection's remove function makes a connected, reading peer unroutable",
		Run: runPeerIDDelete,
	})
	Register(&Rule{
		Name:  "R-TURN-URL",
		Props: []string{"C16"},
		Min:   1,
		Doc: "the credential URL the server mints is the operator's URL with the user info set: injectTurnCredentials returns String() of the very *url.URL it parsed (mutated in place), or a literal that carries RawQuery and Path over - " +
			"a rebuilt URL without the query drops transport=tcp / servername / insecure and the client derives a different endpoint configuration than the operator configured",
		Run: runTurnURL,
	})
	Register(&Rule{
		Name:  "R-DIR-CREATED",
		Props: []string{"C02", "C01"},
		Min:   2,
		Doc: "every directory item of the manifest is created: in the receivers' loops over m.Items each iteration for a directory item ends past an error-checked os.MkdirAll of its path " +
			"(a shortcut such as 'os.Stat succeeded -> skip' accepts a regular file sitting at that path, and both sides report success with the directory missing)",
		Run: runDirCreated,
	})
	Register(&Rule{
		Name:  "R-ARG-ORDER",
		Props: []string{"C13", "C01"},
		Min:   2,
		Doc: "equal base names are numbered in argument order on both sides: neither ScanPaths nor buildPathResolver reorders the list of selected paths (no sort / slices.Sort* / swap on it or on a copy it numbers from) before handing out the ordinal prefixes",
		Run: runArgOrder,
	})
}

func runReadLoop(c *Ctx) {
	p := c.P
	n := 0
	for _, pkg := range []string{"internal/app", "internal/transfer"} {
		for _, f := range p.FuncsIn(pkg) {
			if strings.Contains(p.Pos(f.Pos()), "_test.go") || strings.Contains(p.Pos(f.Pos()), "mock.go") {
				continue
			}
			info := f.Info()
			cfg := f.CFG()
			ast.Inspect(f.Body, func(m ast.Node) bool {
				if lit, ok := m.(*ast.FuncLit); ok && lit != f.Lit {
					return false
				}
				loop, ok := m.(*ast.ForStmt)
				if !ok {
					return true
				}
				ast.Inspect(loop.Body, func(x ast.Node) bool {
					if _, isLit := x.(*ast.FuncLit); isLit {
						return false
					}
					as, ok := x.(*ast.AssignStmt)
					if !ok || len(as.Lhs) != 2 || len(as.Rhs) != 1 {
						return true
					}
					call, ok := ast.Unparen(as.Rhs[0]).(*ast.CallExpr)
					if !ok {
						return true
					}
					sel, ok := ast.Unparen(call.Fun).(*ast.SelectorExpr)
					if !ok || sel.Sel.Name != "Read" || len(call.Args) != 1 {
						return true
					}
					errObj := ObjOf(info, as.Lhs[1])
					cntObj := ObjOf(info, as.Lhs[0])
					if errObj == nil || !isErrorType(errObj.Type()) {
						return true
					}
					// only "read until count reached" loops: the loop condition compares a counter
					if loop.Cond == nil {
						return true
					}
					n++
					key := fmt.Sprintf("read-loop/%s#%d", f.Name, n)
					// every condition on err inside the loop: the err-non-nil knowledge must lead out of the loop
					exitsOnAnyErr := false
					exitsOnEOF := false
					ast.Inspect(loop.Body, func(y ast.Node) bool {
						is, ok := y.(*ast.IfStmt)
						if !ok {
							return true
						}
						leaves := false
						for _, st := range is.Body.List {
							switch st.(type) {
							case *ast.ReturnStmt:
								leaves = true
							case *ast.BranchStmt:
								if st.(*ast.BranchStmt).Tok == token.BREAK {
									leaves = true
								}
							}
						}
						if !leaves {
							return true
						}
						atoms := Implied(is.Cond, true)
						if len(atoms) == 1 {
							if o, nilOnTrue, ok := NilTest(info, atoms[0].E); ok && o == errObj && !nilOnTrue && atoms[0].Val {
								exitsOnAnyErr = true
							}
							if be, ok := atoms[0].E.(*ast.BinaryExpr); ok && be.Op == token.EQL && atoms[0].Val && ObjOf(info, be.X) == errObj && strings.HasSuffix(types.ExprString(be.Y), "io.EOF") {
								exitsOnEOF = true
							}
							// `if n == 0 { break }`: an ended stream yields (0, io.EOF)
							if be, ok := atoms[0].E.(*ast.BinaryExpr); ok && be.Op == token.EQL && atoms[0].Val && cntObj != nil && ObjOf(info, be.X) == cntObj {
								if z, isC := constInt(info, be.Y); isC && z == 0 {
									exitsOnEOF = true
								}
							}
						}
						return true
					})
					_ = cfg
					c.Check(exitsOnAnyErr || exitsOnEOF, key, as.Pos(), "the loop is left on io.EOF (or on any read error)",
						"the read loop has no exit for io.EOF (no `err == io.EOF` break and no plain `err != nil` exit): when the stream ends before the announced size, Read keeps returning (0, io.EOF), the count never advances and the receiver spins for ever on input that has ended")
					return true
				})
				return true
			})
		}
	}
	if n == 0 {
		c.Unknown("read-loop/none", token.NoPos, "found no counted read loop")
	}
}

func runIPKey(c *Ctx) {
	p := c.P
	n := 0
	allow := p.Func("cmd/thruserv.(*ipLimiter).Allow")
	if allow == nil {
		c.MissingAnchor("cmd/thruserv.(*ipLimiter).Allow")
		return
	}
	var check func(f *FuncInfo, e ast.Expr, depth int) string
	check = func(f *FuncInfo, e ast.Expr, depth int) string {
		if depth == 0 {
			return "derivation too deep"
		}
		info := f.Info()
		bad := ""
		for _, d := range resolveExprs(f, e, 3) {
			ast.Inspect(d, func(n ast.Node) bool {
				switch v := n.(type) {
				case *ast.CallExpr:
					if g := p.CalleeInfo(info, v); g != nil && g.Decl != nil && g.Pkg == f.Pkg {
						// a helper of this package: all of its returns must be clean
						ast.Inspect(g.Body, func(m ast.Node) bool {
							if ret, ok := m.(*ast.ReturnStmt); ok {
								for _, r := range ret.Results {
									if b := check(g, r, depth-1); b != "" {
										bad = b
									}
								}
							}
							return true
						})
						// and nothing else in it may read client-controlled request data
						ast.Inspect(g.Body, func(m ast.Node) bool {
							if sel, ok := m.(*ast.SelectorExpr); ok {
								switch sel.Sel.Name {
								case "Header", "Form", "PostForm", "URL", "Cookie", "Cookies", "Body", "Trailer":
									if t := g.Info().TypeOf(sel.X); t != nil && strings.HasSuffix(t.String(), "http.Request") {
										bad = "reads r." + sel.Sel.Name + " in " + g.Name + " at " + p.Pos(sel.Pos())
									}
								}
							}
							return true
						})
					}
				case *ast.SelectorExpr:
					switch v.Sel.Name {
					case "Header", "Form", "PostForm", "URL", "Cookie", "Cookies", "Body", "Trailer":
						if t := info.TypeOf(v.X); t != nil && strings.HasSuffix(t.String(), "http.Request") {
							bad = "reads r." + v.Sel.Name + " at " + p.Pos(v.Pos())
						}
					}
				}
				return true
			})
		}
		return bad
	}
	for _, f := range p.FuncsIn("cmd/thruserv") {
		info := f.Info()
		f.CFG().Calls(func(r NodeRef, call *ast.CallExpr) {
			if p.CalleeInfo(info, call) != allow || len(call.Args) != 1 {
				return
			}
			n++
			bad := check(f, call.Args[0], 3)
			c.Check(bad == "", fmt.Sprintf("ip-key/%s#%d", f.Name, n), call.Pos(), "the limiter key derives from the connection's remote address only",
				"the key of a per-address limiter depends on data the client writes ("+bad+"): a different value per request gets a fresh full bucket, so one address exceeds --session-creates-per-min / --ws-connects-per-min without bound")
		})
	}
}

func runStoreByValue(c *Ctx) {
	p := c.P
	sessions, _ := p.LookupObj("internal/session", "Store.sessions").(*types.Var)
	if sessions == nil {
		c.MissingAnchor("session.Store.sessions")
		return
	}
	n := 0
	for _, f := range p.FuncsIn("internal/session") {
		info := f.Info()
		cfg := f.CFG()
		cfg.EachNode(func(r NodeRef) {
			as, ok := r.Node().(*ast.AssignStmt)
			if !ok || len(as.Lhs) != 1 || len(as.Rhs) != 1 {
				return
			}
			ix, ok := ast.Unparen(as.Lhs[0]).(*ast.IndexExpr)
			if !ok {
				return
			}
			sel, ok := ast.Unparen(ix.X).(*ast.SelectorExpr)
			if !ok || info.Uses[sel.Sel] != sessions {
				return
			}
			val, _ := ObjOf(info, as.Rhs[0]).(*types.Var)
			if val == nil {
				return
			}
			n++
			late := ""
			cfg.EachNode(func(r2 NodeRef) {
				if r2 == r || !cfg.Reaches(r, r2) {
					return
				}
				if a2, ok := r2.Node().(*ast.AssignStmt); ok {
					for _, l := range a2.Lhs {
						if s2, ok := ast.Unparen(l).(*ast.SelectorExpr); ok && ObjOf(info, s2.X) == val {
							late = s2.Sel.Name + " at " + p.Pos(a2.Pos())
						}
					}
				}
			})
			c.Check(late == "", fmt.Sprintf("store-by-value/%s#%d", f.Name, n), as.Pos(), "the session value is complete when it is stored",
				"the session is stored into Store.sessions (a map of values) and its field "+late+" is assigned afterwards: the stored copy keeps the old value; after a join-code collision two live sessions carry the same code, and deleting the younger one removes the older one's code from the index while its host is still connected")
		})
	}
	if n == 0 {
		c.Unknown("store-by-value/none", token.NoPos, "found no store of a session value into Store.sessions")
	}
}

func runDeadlineRearm(c *Ctx) {
	p := c.P
	ws := p.Func("cmd/thruserv.handleWebSocket")
	if ws == nil {
		c.MissingAnchor("cmd/thruserv.handleWebSocket")
		return
	}
	nw, nwrites := 0, 0
	for _, f := range allKids(ws) {
		info := f.Info()
		writes := false
		var sets []*ast.CallExpr
		InspectNoLits(f.Body, func(m ast.Node) bool {
			call, ok := m.(*ast.CallExpr)
			if !ok {
				return true
			}
			for _, w := range []string{"Conn.WriteJSON", "Conn.WriteMessage", "Conn.WriteControl"} {
				if calleeIs(info, call, "github.com/gorilla/websocket", w) {
					writes = true
				}
			}
			if calleeIs(info, call, "github.com/gorilla/websocket", "Conn.SetWriteDeadline") {
				sets = append(sets, call)
			}
			return true
		})
		if writes {
			nwrites++
		}
		for _, s := range sets {
			nw++
			// per write: the enclosing function is a closure (called per message) that itself writes; not the handler body
			c.Check(writes && f != ws, fmt.Sprintf("deadline-rearm/%s#%d", f.Name, nw), s.Pos(), "write deadline armed in the function that writes, per message",
				"SetWriteDeadline is called once while the connection is set up, not where the writes happen: the deadline is absolute, so once the connection is older than --ws-idle-timeout every WriteJSON to it fails, the hub's writer goroutine stops and all later messages to that peer are lost although it keeps reading")
		}
	}
	if nw == 0 {
		c.Check(nwrites > 0, "deadline-rearm/none", ws.Pos(), fmt.Sprintf("no write deadline is armed on the signaling connection (%d writing functions)", nwrites), "no write to the WebSocket connection found under handleWebSocket (anchor lost)")
	}
}

func runPeerIDDelete(c *Ctx) {
	p := c.P
	_, _, byPeer, _ := hubFields(c)
	if byPeer == nil {
		return
	}
	n := 0
	for _, f := range p.FuncsIn("internal/peers") {
		info := f.Info()
		cfg := f.CFG()
		al := hubAliases(f, byPeer, byPeer)
		innerOf := func(e ast.Expr) bool { // e denotes an inner map of byPeerID
			e = ast.Unparen(e)
			if ix, ok := e.(*ast.IndexExpr); ok {
				if sel, ok := ast.Unparen(ix.X).(*ast.SelectorExpr); ok && info.Uses[sel.Sel] == byPeer {
					return true
				}
			}
			if o := ObjOf(info, e); o != nil && al[o] {
				if m, ok := o.Type().Underlying().(*types.Map); ok {
					if b, ok := m.Elem().Underlying().(*types.Basic); ok && b.Kind() == types.String {
						return true
					}
				}
			}
			return false
		}
		spec := &PassSpec{SkipDefer: true}
		spec.Vias = []Via{
			// `old, ok := inner[key]` followed by a comparison is modelled by the comparison itself: inner[key] == X / old (from inner[key]) != X
			{Cond: func(g *FuncInfo, e ast.Expr) (string, bool, bool) {
				be, ok := ast.Unparen(e).(*ast.BinaryExpr)
				if !ok || (be.Op != token.EQL && be.Op != token.NEQ) {
					return "", false, false
				}
				for _, side := range []ast.Expr{be.X, be.Y} {
					for _, d := range resolveExprs(g, side, 1) {
						if ix, ok := ast.Unparen(d).(*ast.IndexExpr); ok && innerOf(ix.X) {
							// either outcome tells whose entry it is; the delete must then sit on the matching side, which the
							// code decides - here: knowledge of the entry's value in this critical section
							return "entry-known:" + types.ExprString(ix.Index), true, true
						}
					}
				}
				return "", false, false
			}},
		}
		// the NEQ form (`exists && old != p.ConnID` -> replace) also knows the entry on its true edge
		spec.Vias = append(spec.Vias, Via{Cond: func(g *FuncInfo, e ast.Expr) (string, bool, bool) {
			be, ok := ast.Unparen(e).(*ast.BinaryExpr)
			if !ok || be.Op != token.NEQ {
				return "", false, false
			}
			for _, side := range []ast.Expr{be.X, be.Y} {
				for _, d := range resolveExprs(g, side, 1) {
					if ix, ok := ast.Unparen(d).(*ast.IndexExpr); ok && innerOf(ix.X) {
						return "entry-known:" + types.ExprString(ix.Index), true, true
					}
				}
			}
			return "", false, false
		}})
		spec.KillAll = func(g *FuncInfo, nd ast.Node) bool {
			kill := false
			InspectNoLits(nd, func(m ast.Node) bool {
				if call, ok := m.(*ast.CallExpr); ok {
					if _, op, ok := mutexOp(g.Info(), call); ok && (op == "Unlock" || op == "Lock") {
						kill = true
					}
				}
				return true
			})
			return kill
		}
		cfg.Calls(func(r NodeRef, call *ast.CallExpr) {
			id, ok := ast.Unparen(call.Fun).(*ast.Ident)
			if !ok || id.Name != "delete" || len(call.Args) != 2 || !innerOf(call.Args[0]) {
				return
			}
			n++
			key := types.ExprString(call.Args[1])
			c.Check(spec.Passed(f, r, "entry-known:"+key), fmt.Sprintf("peerid-delete/%s#%d", f.Name, n), call.Pos(), "the entry's value was read and compared in this critical section before it is deleted",
				"delete(byPeerID[...], "+key+") without first reading that entry and comparing it with a connection id in the same critical section: after a reconnect the entry names the newer connection; the old connection's remove function then unlinks a peer that is connected and reading - addressed messages to it get peer_not_found and its own broadcasts are echoed back to it")
		})
	}
	if n == 0 {
		c.Unknown("peerid-delete/none", token.NoPos, "found no delete on an inner map of Hub.byPeerID")
	}
}

func runTurnURL(c *Ctx) {
	p := c.P
	f := p.Func("cmd/thruserv.injectTurnCredentials")
	if f == nil {
		c.MissingAnchor("cmd/thruserv.injectTurnCredentials")
		return
	}
	info := f.Info()
	// the parsed URL object
	var parsed types.Object
	InspectNoLits(f.Body, func(m ast.Node) bool {
		if as, ok := m.(*ast.AssignStmt); ok && len(as.Rhs) == 1 && len(as.Lhs) == 2 {
			if call, ok := ast.Unparen(as.Rhs[0]).(*ast.CallExpr); ok && calleeIs(info, call, "net/url", "Parse") {
				parsed = ObjOf(info, as.Lhs[0])
			}
		}
		return true
	})
	if parsed == nil {
		c.Unknown("turn-url/parse", f.Pos(), "injectTurnCredentials does not call url.Parse")
		return
	}
	n := 0
	for _, b := range f.CFG().Blocks {
		ret, ok := IsReturnExit(b)
		if !ok || len(ret.Results) != 2 || types.ExprString(ret.Results[1]) != "nil" {
			continue
		}
		n++
		good := false
		why := types.ExprString(ret.Results[0])
		for _, d := range resolveExprs(f, ret.Results[0], 2) {
			call, ok := ast.Unparen(d).(*ast.CallExpr)
			if !ok {
				continue
			}
			sel, ok := ast.Unparen(call.Fun).(*ast.SelectorExpr)
			if !ok || sel.Sel.Name != "String" {
				continue
			}
			if ObjOf(info, sel.X) == parsed {
				good = true
				continue
			}
			// a fresh literal: must carry RawQuery and Path of the parsed URL over
			for _, dd := range resolveExprs(f, sel.X, 2) {
				e := ast.Unparen(dd)
				if u, ok := e.(*ast.UnaryExpr); ok {
					e = ast.Unparen(u.X)
				}
				if cl, ok := e.(*ast.CompositeLit); ok {
					has := map[string]bool{}
					for _, el := range cl.Elts {
						if kv, ok := el.(*ast.KeyValueExpr); ok {
							has[types.ExprString(kv.Key)] = true
						}
					}
					if has["RawQuery"] && has["Host"] && has["Scheme"] {
						good = true
					} else {
						why = "a rebuilt url.URL literal without RawQuery"
					}
				}
			}
		}
		c.Check(good, fmt.Sprintf("turn-url/return#%d", n), ret.Pos(), "the minted URL is the parsed operator URL with the user info set",
			"injectTurnCredentials returns "+why+" instead of the parsed URL with credentials set: query options of the operator's --turn-server value (transport=tcp, servername=, insecure=) are dropped, so the client parses the minted URL into a different endpoint configuration than the server intended")
	}
	if n == 0 {
		c.Unknown("turn-url/returns", f.Pos(), "injectTurnCredentials has no success return")
	}
}

func runDirCreated(c *Ctx) {
	p := c.P
	n := 0
	for _, f := range recvDataFuncs(p) {
		if f.Lit != nil {
			continue
		}
		info := f.Info()
		ast.Inspect(f.Body, func(m ast.Node) bool {
			if _, isLit := m.(*ast.FuncLit); isLit {
				return false
			}
			rs, ok := m.(*ast.RangeStmt)
			if !ok || rs.Value == nil {
				return true
			}
			if s2, ok := ast.Unparen(rs.X).(*ast.SelectorExpr); !ok || s2.Sel.Name != "Items" {
				return true
			}
			item := ObjOf(info, rs.Value)
			hasMkdir := false
			ast.Inspect(rs.Body, func(x ast.Node) bool {
				if call, ok := x.(*ast.CallExpr); ok && (calleeIs(info, call, "os", "MkdirAll") || calleeIs(info, call, "os", "Mkdir")) {
					hasMkdir = true
				}
				return true
			})
			if !hasMkdir {
				return true
			}
			n++
			spec := &PassSpec{Vias: []Via{
				{Call: func(g *FuncInfo, call *ast.CallExpr) (string, bool) {
					// only the MkdirAll of this loop's body (an earlier one, e.g. for the base directory, says nothing about the item)
					if calleeIs(g.Info(), call, "os", "MkdirAll") && rs.Body.Pos() <= call.Pos() && call.End() <= rs.Body.End() {
						return "settled", true
					}
					return "", false
				}},
				{Cond: func(g *FuncInfo, e ast.Expr) (string, bool, bool) {
					if sel, ok := ast.Unparen(e).(*ast.SelectorExpr); ok && sel.Sel.Name == "IsDir" && ObjOf(g.Info(), sel.X) == item {
						return "settled", false, true // not a directory item
					}
					return "", false, false
				}},
			}}
			facts := spec.Facts(f)
			cfg := f.CFG()
			okAll, iters := true, 0
			for _, b := range cfg.Blocks {
				if b.Stmt != ast.Node(rs) || b.Kind.String() != "RangeLoop" {
					continue
				}
				for _, pb := range cfg.Preds(b) {
					if !pb.Live || !cfg.BlockDominates(b, pb) {
						continue
					}
					iters++
					if out := facts.AtEnd(pb); out == nil || !out["pass:settled"] {
						okAll = false
					}
				}
			}
			c.Check(okAll && iters > 0, fmt.Sprintf("dir-created/%s#%d", f.Name, n), rs.Pos(), "every iteration for a directory item ends past a checked MkdirAll",
				"the loop that creates the manifest's directories can finish an iteration for a directory item without a successful os.MkdirAll (a shortcut such as 'os.Stat succeeded, skip'): a regular file sitting at the path of an empty directory is accepted and both sides report success with the directory missing")
			return true
		})
	}
	if n == 0 {
		c.Unknown("dir-created/none", token.NoPos, "found no directory-creating loop over manifest items in the receivers")
	}
}

func runArgOrder(c *Ctx) {
	p := c.P
	n := 0
	for _, name := range []string{"manifest.ScanPaths", "app.buildPathResolver"} {
		f := p.Func(name)
		if f == nil {
			c.MissingAnchor(name)
			continue
		}
		n++
		bad := ""
		for _, g := range allKids(f) {
			gi := g.Info()
			InspectNoLits(g.Body, func(m ast.Node) bool {
				call, ok := m.(*ast.CallExpr)
				if !ok {
					return true
				}
				fn := Callee(gi, call)
				if fn == nil || fn.Pkg() == nil {
					return true
				}
				isSort := (fn.Pkg().Path() == "sort" && (fn.Name() == "Strings" || fn.Name() == "Slice" || fn.Name() == "SliceStable" || fn.Name() == "Sort" || fn.Name() == "Stable")) ||
					(fn.Pkg().Path() == "slices" && (strings.HasPrefix(fn.Name(), "Sort") || fn.Name() == "Reverse"))
				if !isSort || len(call.Args) == 0 {
					return true
				}
				// sorting the manifest's items is the required final step of ScanPaths; anything of type []string (the path lists) is not
				if t := gi.TypeOf(call.Args[0]); t != nil {
					if sl, ok := t.Underlying().(*types.Slice); ok {
						if b, ok := sl.Elem().Underlying().(*types.Basic); ok && b.Kind() == types.String {
							bad = types.ExprString(call) + " at " + p.Pos(call.Pos())
						}
					}
				}
				return true
			})
		}
		c.Check(bad == "", "arg-order/"+name, f.Pos(), "the list of selected paths is not reordered before equal base names are numbered",
			name+" reorders a list of paths ("+bad+") before it numbers equal base names: the manifest numbers them in argument order, so `1_data` names one directory in the manifest and another in the resolver - the sender reads, checksums and sends the wrong file and both sides report success")
	}
}

func init() {
	Register(&Rule{
		Name:  "R-RECEIVER-STATE",
		Props: []string{"C12"},
		Min:   3,
		Doc: "a receiver that waits in the queue or owns a slot changes state only through the slot machinery (F27): (idle-cleanup) cleanup() deletes a receiver only past the tests Status != TRANSFERRING and Status != QUEUED; " +
			"(re-announce) Status is set to JOINED only where the receiver is neither QUEUED nor TRANSFERRING; " +
			"(dispatch-context) runTransfer never hands its own context (cancelled when its peer leaves) to maybeStartTransfers",
		Run: runReceiverState,
	})
}

func runReceiverState(c *Ctx) {
	p := c.P
	statusF, _ := p.LookupObj("internal/app", "ReceiverState.Status").(*types.Var)
	receivers, _ := p.LookupObj("internal/app", "SnapshotSender.receivers").(*types.Var)
	if statusF == nil || receivers == nil {
		c.MissingAnchor("app.ReceiverState.Status / SnapshotSender.receivers")
		return
	}
	cst := func(name string) *types.Const {
		k, _ := p.LookupObj("internal/app", name).(*types.Const)
		return k
	}
	queued, transferring, joined := cst("ReceiverStatusQueued"), cst("ReceiverStatusTransferring"), cst("ReceiverStatusJoined")
	if queued == nil || transferring == nil || joined == nil {
		c.MissingAnchor("app.ReceiverStatus{Queued,Transferring,Joined}")
		return
	}
	notIn := func() *PassSpec {
		return &PassSpec{SkipDefer: true, Vias: []Via{{Cond: func(g *FuncInfo, e ast.Expr) (string, bool, bool) {
			be, ok := ast.Unparen(e).(*ast.BinaryExpr)
			if !ok || (be.Op != token.EQL && be.Op != token.NEQ) {
				return "", false, false
			}
			sel, ok := ast.Unparen(be.X).(*ast.SelectorExpr)
			if !ok || g.Info().Uses[sel.Sel] != statusF {
				return "", false, false
			}
			switch ObjOf(g.Info(), be.Y) {
			case types.Object(queued):
				return "not-queued", be.Op == token.NEQ, true
			case types.Object(transferring):
				return "not-transferring", be.Op == token.NEQ, true
			}
			return "", false, false
		}}}}
	}
	// (idle-cleanup)
	if f := p.Func("app.(*SnapshotSender).cleanup"); f != nil {
		info := f.Info()
		spec := notIn()
		n := 0
		f.CFG().Calls(func(r NodeRef, call *ast.CallExpr) {
			id, ok := ast.Unparen(call.Fun).(*ast.Ident)
			if !ok || id.Name != "delete" || len(call.Args) != 2 {
				return
			}
			sel, ok := ast.Unparen(call.Args[0]).(*ast.SelectorExpr)
			if !ok || info.Uses[sel.Sel] != receivers {
				return
			}
			n++
			c.Check(spec.Passed(f, r, "not-queued") && spec.Passed(f, r, "not-transferring"), fmt.Sprintf("idle-cleanup/delete#%d", n), call.Pos(), "only receivers that neither wait nor are served are dropped as idle",
				"cleanup() can delete a receiver whose status is QUEUED or TRANSFERRING: a queued receiver sends nothing while it waits, so after receiverTTL with all slots busy it is dropped from the queue silently and never started")
		})
		if n == 0 {
			c.Unknown("idle-cleanup/delete", f.Pos(), "cleanup() does not delete from s.receivers")
		}
	} else {
		c.MissingAnchor("app.(*SnapshotSender).cleanup")
	}
	// (re-announce)
	nj := 0
	for _, f := range p.FuncsIn("internal/app") {
		if !strings.HasPrefix(f.Root().Name, "app.(*SnapshotSender)") {
			continue
		}
		info := f.Info()
		spec := notIn()
		f.CFG().EachNode(func(r NodeRef) {
			as, ok := r.Node().(*ast.AssignStmt)
			if !ok || len(as.Lhs) != 1 || len(as.Rhs) != 1 {
				return
			}
			sel, ok := ast.Unparen(as.Lhs[0]).(*ast.SelectorExpr)
			if !ok || info.Uses[sel.Sel] != statusF || ObjOf(info, as.Rhs[0]) != types.Object(joined) {
				return
			}
			nj++
			c.Check(spec.Passed(f, r, "not-queued") && spec.Passed(f, r, "not-transferring"), fmt.Sprintf("re-announce/%s#%d", f.Name, nj), as.Pos(), "JOINED is only assigned to a receiver that neither waits nor is served",
				"a receiver's status is reset to JOINED although it may be QUEUED or TRANSFERRING (a second peer_joined for its id): the accept that follows passes the 'already transferring' test, it is queued again and its second slot overwrites the first - more transfers than max-receivers, and a receiver in two states at once")
		})
	}
	if nj == 0 {
		c.Unknown("re-announce/none", token.NoPos, "found no assignment of ReceiverStatusJoined")
	}
	// (dispatch-context)
	if f := p.Func("app.(*SnapshotSender).runTransfer"); f != nil {
		info := f.Info()
		var own types.Object
		if f.Type.Params != nil && len(f.Type.Params.List) > 0 && len(f.Type.Params.List[0].Names) > 0 {
			own = info.Defs[f.Type.Params.List[0].Names[0]]
		}
		n := 0
		f.CFG().Calls(func(r NodeRef, call *ast.CallExpr) {
			if g := p.CalleeInfo(info, call); g == nil || g.Name != "app.(*SnapshotSender).maybeStartTransfers" || len(call.Args) != 1 {
				return
			}
			n++
			uses := false
			for _, d := range resolveExprs(f, call.Args[0], 2) {
				ast.Inspect(d, func(m ast.Node) bool {
					if id, ok := m.(*ast.Ident); ok && info.Uses[id] == own && own != nil {
						uses = true
					}
					return true
				})
			}
			c.Check(!uses, fmt.Sprintf("dispatch-context/runTransfer#%d", n), call.Pos(), "the next receiver is dispatched on a context that is not this transfer's own",
				"runTransfer dispatches the next receiver on its own transfer context: when this transfer's peer left, that context is cancelled, and if this goroutine gets there before handlePeerLeft the next queued receiver is started already cancelled, fails at once and loses its turn although it never left")
		})
		if n == 0 {
			c.Unknown("dispatch-context/runTransfer", f.Pos(), "runTransfer does not call maybeStartTransfers")
		}
	} else {
		c.MissingAnchor("app.(*SnapshotSender).runTransfer")
	}
}

func init() {
	Register(&Rule{
		Name:  "R-WALK-ROOT",
		Props: []string{"C13"},
		Min:   2,
		Doc: "in pkg/manifest a directory that was recognised through os.Stat (which follows a symbolic link) is walked from a link-resolved root: the root argument of every filepath.WalkDir / Walk in a function that classifies its path with os.Stat " +
			"derives from filepath.EvalSymlinks (directly or through a helper that returns its result) - WalkDir lstats its root and never descends into a link, so a selected link to a directory would be listed as an empty directory and transferred as one (F30); " +
			"the relative paths of the walk are taken against that same root",
		Run: runWalkRoot,
	})
}

func runWalkRoot(c *Ctx) {
	p := c.P
	// helpers that return EvalSymlinks' result
	resolves := func(info *types.Info, e ast.Expr) bool {
		call, ok := ast.Unparen(e).(*ast.CallExpr)
		if !ok {
			return false
		}
		if calleeIs(info, call, "path/filepath", "EvalSymlinks") {
			return true
		}
		g := p.CalleeInfo(info, call)
		if g == nil {
			return false
		}
		hit := false
		gi := g.Info()
		ast.Inspect(g.Body, func(m ast.Node) bool {
			if c2, ok := m.(*ast.CallExpr); ok && calleeIs(gi, c2, "path/filepath", "EvalSymlinks") {
				hit = true
			}
			return true
		})
		if !hit {
			return false
		}
		// some return of g returns the variable assigned from EvalSymlinks
		retOK := false
		ast.Inspect(g.Body, func(m ast.Node) bool {
			rs, ok := m.(*ast.ReturnStmt)
			if !ok || len(rs.Results) == 0 {
				return true
			}
			for _, d := range resolveExprs(g, rs.Results[0], 2) {
				if c2, ok := ast.Unparen(d).(*ast.CallExpr); ok && calleeIs(gi, c2, "path/filepath", "EvalSymlinks") {
					retOK = true
				}
			}
			return true
		})
		return retOK
	}
	n := 0
	perFn := map[string]int{}
	for _, f := range p.FuncsIn("pkg/manifest") {
		if f.Lit != nil {
			continue
		}
		info := f.Info()
		usesStat := false
		InspectNoLits(f.Body, func(m ast.Node) bool {
			if call, ok := m.(*ast.CallExpr); ok && calleeIs(info, call, "os", "Stat") {
				usesStat = true
			}
			return true
		})
		InspectNoLits(f.Body, func(m ast.Node) bool {
			call, ok := m.(*ast.CallExpr)
			if !ok || !(calleeIs(info, call, "path/filepath", "WalkDir") || calleeIs(info, call, "path/filepath", "Walk")) || len(call.Args) != 2 {
				return true
			}
			n++
			perFn[f.Name]++
			key := fmt.Sprintf("walk-root/%s#%d", f.Name, perFn[f.Name])
			if !usesStat {
				c.OK(key, call.Pos(), f.Name+" does not classify its path with os.Stat")
				return true
			}
			ok2 := false
			for _, d := range resolveExprs(f, call.Args[0], 2) {
				if resolves(info, d) {
					ok2 = true
				}
			}
			// a root variable with a fallback (`root, err := EvalSymlinks(p); if err != nil { root = p }`): one definition resolves
			if o := ObjOf(info, call.Args[0]); o != nil && !ok2 {
				for _, d := range allDefs(f, o) {
					if resolves(info, d) {
						ok2 = true
					}
				}
			}
			c.Check(ok2, key, call.Pos(), "the walk starts at the link-resolved directory",
				f.Name+" recognises a directory with os.Stat (follows links) but walks "+types.ExprString(call.Args[0])+" as given: filepath.WalkDir does not descend into a symbolic link even as its root, so a selected link to a directory is listed as an empty directory and the transfer delivers an empty folder without any error")
			// relative paths are taken against the same root
			rootObj := ObjOf(info, call.Args[0])
			if lit, isLit := ast.Unparen(call.Args[1]).(*ast.FuncLit); isLit && rootObj != nil {
				k := 0
				ast.Inspect(lit.Body, func(x ast.Node) bool {
					c3, ok := x.(*ast.CallExpr)
					if !ok || !calleeIs(info, c3, "path/filepath", "Rel") || len(c3.Args) != 2 {
						return true
					}
					k++
					c.Check(ObjOf(info, c3.Args[0]) == rootObj, fmt.Sprintf("%s/rel#%d", key, k), c3.Pos(), "relative paths are computed against the walked root",
						"the walk callback computes relative paths against "+types.ExprString(c3.Args[0])+", not against the walked root "+rootObj.Name()+": below a resolved link every entry gets a path that climbs out of the selection (../..), or the walk fails")
					return true
				})
			}
			return true
		})
	}
	if n == 0 {
		c.Bad("walk-root/none", token.NoPos, "found no directory walk in pkg/manifest")
	}
}
