package tf

import (
	"fmt"
	"go/ast"
	"go/token"
	"go/types"
	"strings"

	"golang.org/x/tools/go/cfg"
)

// Round 14 (seeds of the fourteenth round of sub-agents).

func init() {
	Register(&Rule{
		Name:  "R-DIRTY-AFTER-CHANGE",
		Props: []string{"C04", "C05"},
		Min:   4,
		Doc: "what Flush would write differently is marked to be written: in every method of *Sidecar other than Flush, every path from a change of the persisted state (an assignment to s.unconfirmed, a Set/Clear of s.bitmap, a call of a ...Locked helper that does one of these) to a return passes `s.dirty = true` - " +
			"Flush returns at once while the flag is down; a reservation that ends without the flag (Confirm) leaves the chunk missing in the metadata of a completed file when a periodic flush came in between, and a reservation that begins without it leaves the chunk claimed on disk while the sender may be replacing it",
		Run: runDirtyAfterChange,
	})
	Register(&Rule{
		Name:  "R-SIDECAR-NIL-GUARD",
		Props: []string{"C15"},
		Min:   8,
		Doc: "a file without resume metadata is not a crash: every method call or field access through a `.sidecar` field of type *Sidecar in internal/transfer is guarded by a nil test of that same field (an enclosing `x.sidecar != nil`, an earlier `if x.sidecar == nil { return/continue }` in an enclosing block, or the left side of the same &&) - " +
			"the receiver leaves the field nil when the sender's FileBegin announces more chunks than metadata are kept for (a peer-chosen chunk size of 1), and no method of *Sidecar is nil-safe: each locks s.mu before it looks at s",
		Run: runSidecarNilGuard,
	})
	Register(&Rule{
		Name:  "R-OFFSET-SAME-GEOMETRY",
		Props: []string{"C01", "C19"},
		Min:   2,
		Doc: "a chunk is read where its index says, in the geometry announced for its file: in every function of internal/transfer that reads source chunks (readAtWithPool), the chunk-size factor of the read offset is the same value as the chunk size the function's buffer pool is chosen by (chunkPoolFor) - " +
			"the per-file chunk size is what FileBegin announced and what the receiver places chunks by; an offset computed from the transfer-wide parameters reads other bytes as soon as the parameter source changes the chunk size between two files, the CRC is computed over those bytes, and both sides report success over a file of the right length and the wrong content",
		Run: runOffsetSameGeometry,
	})
	Register(&Rule{
		Name:  "R-SCAN-SKIPS-BY-NAME",
		Props: []string{"C01", "C13"},
		Min:   2,
		Doc: "the scanner leaves out nothing for its name: in the WalkDir callbacks of manifest.Scan and manifest.ScanPaths a silent skip (an if whose body is a bare `return nil`) whose condition mentions the relative path is the comparison `relPath == \".\"` (the walked root itself) and nothing else - " +
			"a test on the first byte, a prefix or the empty string drops `.gitignore`, `.config/` and everything below them from the manifest without a scan error: the rest transfers, both sides report success, and the output lacks those paths",
		Run: runScanSkipsByName,
	})
	Register(&Rule{
		Name:  "R-WS-SCHEME-FROM-PARSED",
		Props: []string{"C16"},
		Min:   1,
		Doc: "the signaling connection uses TLS whenever the session was created over TLS: in buildWebSocketURL every condition that selects \"wss\" reads the scheme of the parsed URL (url.URL.Scheme, lower-cased by url.Parse) or compares case-insensitively (ToLower / EqualFold) - " +
			"clienthttp.CreateSession goes through url.Parse, for which HTTPS://host is https; a prefix test on the typed string makes both roles connect with ws:// to port 80 of a server that speaks TLS on 443",
		Run: runWsSchemeFromParsed,
	})
	Register(&Rule{
		Name:  "R-BURST-FLOOR",
		Props: []string{"C16", "C14"},
		Min:   1,
		Doc: "every token bucket of the server can hold one token: newTokenBucket raises a burst below 1 to 1 before it builds the bucket, or else newServerLimits raises every *Burst value of the configuration it copies - " +
			"a bucket with burst 0 starts empty and is capped at 0: with --session-creates-burst 0 (a documented value: `no burst`) every POST /session is answered 429 and no host can create a session",
		Run: runBurstFloor,
	})
}

// escapes: is there a path from just behind ref to an exit of the function on which no node satisfies good?
// only: when non-nil, the walk leaves ref's block through these successors only.
func escapes(ref NodeRef, only []*cfg.Block, good func(ast.Node) bool) bool {
	seen := map[*cfg.Block]bool{}
	var walk func(b *cfg.Block, from int, succs []*cfg.Block) bool
	walk = func(b *cfg.Block, from int, succs []*cfg.Block) bool {
		for i := from; i < len(b.Nodes); i++ {
			if good(b.Nodes[i]) {
				return false
			}
		}
		if len(b.Succs) == 0 {
			return true
		}
		if succs == nil {
			succs = b.Succs
		}
		for _, s := range succs {
			if seen[s] || !s.Live {
				continue
			}
			seen[s] = true
			if walk(s, 0, nil) {
				return true
			}
		}
		return false
	}
	return walk(ref.B, ref.I+1, only)
}

func isSidecarType(t types.Type) bool {
	return t != nil && strings.HasSuffix(strings.TrimPrefix(t.String(), "*"), "transfer.Sidecar")
}

func runDirtyAfterChange(c *Ctx) {
	p := c.P
	var methods []*FuncInfo
	for _, f := range p.FuncsIn("internal/transfer") {
		if f.Decl == nil || f.Body == nil || !strings.HasPrefix(f.Name, "transfer.(*Sidecar).") || strings.HasSuffix(p.Fset.Position(f.Pos()).Filename, "_test.go") {
			continue
		}
		methods = append(methods, f)
	}
	if len(methods) == 0 {
		c.MissingAnchor("methods of transfer.(*Sidecar)")
		return
	}
	// a direct change of the persisted state
	directChange := func(info *types.Info, n ast.Node) bool {
		switch v := n.(type) {
		case *ast.AssignStmt:
			for _, l := range v.Lhs {
				if sel, ok := ast.Unparen(l).(*ast.SelectorExpr); ok && sel.Sel.Name == "unconfirmed" && isSidecarType(info.TypeOf(sel.X)) {
					return true
				}
			}
		case *ast.CallExpr:
			if sel, ok := ast.Unparen(v.Fun).(*ast.SelectorExpr); ok && (sel.Sel.Name == "Set" || sel.Sel.Name == "Clear") {
				if in, ok := ast.Unparen(sel.X).(*ast.SelectorExpr); ok && in.Sel.Name == "bitmap" && isSidecarType(info.TypeOf(in.X)) {
					return true
				}
			}
		}
		return false
	}
	// helpers that change the state for their callers (they run under the caller's lock and leave the flag to it)
	helper := map[*FuncInfo]bool{}
	for _, f := range methods {
		if !strings.HasSuffix(f.Name, "Locked") {
			continue
		}
		InspectNoLits(f.Body, func(m ast.Node) bool {
			if directChange(f.Info(), m) {
				helper[f] = true
			}
			return true
		})
	}
	setsDirty := func(info *types.Info) func(ast.Node) bool {
		return func(n ast.Node) bool {
			found := false
			ast.Inspect(n, func(m ast.Node) bool {
				if _, isLit := m.(*ast.FuncLit); isLit {
					return false
				}
				as, ok := m.(*ast.AssignStmt)
				if !ok || len(as.Lhs) != 1 || len(as.Rhs) != 1 {
					return true
				}
				sel, ok := ast.Unparen(as.Lhs[0]).(*ast.SelectorExpr)
				if !ok || sel.Sel.Name != "dirty" || !isSidecarType(info.TypeOf(sel.X)) {
					return true
				}
				if id, ok := ast.Unparen(as.Rhs[0]).(*ast.Ident); ok && id.Name == "true" {
					found = true
				}
				return true
			})
			return found
		}
	}
	n := 0
	for _, f := range methods {
		if helper[f] || f.Name == "transfer.(*Sidecar).Flush" {
			continue
		}
		info := f.Info()
		g := f.CFG()
		if g == nil {
			continue
		}
		short := strings.TrimPrefix(f.Name, "transfer.(*Sidecar).")
		k := 0
		for _, b := range g.Blocks {
			if !b.Live {
				continue
			}
			for i, node := range b.Nodes {
				changed, viaCond := false, false
				var at token.Pos
				ast.Inspect(node, func(m ast.Node) bool {
					if m == nil {
						return false
					}
					if _, isLit := m.(*ast.FuncLit); isLit {
						return false
					}
					if directChange(info, m) {
						changed, at = true, m.Pos()
					}
					if call, ok := m.(*ast.CallExpr); ok {
						if callee := p.CalleeInfo(info, call); callee != nil && helper[callee] {
							changed, at = true, call.Pos()
							if _, isExpr := node.(ast.Expr); isExpr && i == len(b.Nodes)-1 && len(b.Succs) == 2 {
								viaCond = true
							}
						}
					}
					return true
				})
				if !changed {
					continue
				}
				// a range statement's or for statement's own nodes are visited as their parts; skip composite statements
				switch node.(type) {
				case *ast.RangeStmt, *ast.ForStmt, *ast.IfStmt, *ast.SwitchStmt, *ast.BlockStmt:
					continue
				}
				k++
				n++
				var only []*cfg.Block
				if viaCond {
					// `if s.dropUnconfirmedLocked(i) {`: the helper reports whether it changed anything; the false edge carries no change
					if un, ok := ast.Unparen(node.(ast.Expr)).(*ast.UnaryExpr); ok && un.Op == token.NOT {
						only = []*cfg.Block{b.Succs[1]}
					} else {
						only = []*cfg.Block{b.Succs[0]}
					}
				}
				key := fmt.Sprintf("dirty/%s#%d", short, k)
				// the flag raised in front of the change, in the same critical section, serves as well (only Flush lowers it)
				raisedBefore := false
				isDirty := setsDirty(info)
				g.EachNode(func(r NodeRef) {
					if !raisedBefore && isDirty(r.Node()) && !(r.B == b && r.I >= i) && g.Dominates(r, NodeRef{b, i}) {
						switch r.Node().(type) {
						case *ast.AssignStmt:
							raisedBefore = true
						}
					}
				})
				if raisedBefore {
					c.OK(key, at, "Sidecar."+short+": s.dirty is set in front of this change of the persisted state, on every path to it")
				} else if escapes(NodeRef{b, i}, only, setsDirty(info)) {
					c.Bad(key, at, "Sidecar."+short+" changes what Flush writes (reservations or bitmap) and can return without `s.dirty = true`: Flush does nothing while the flag is down, so the change reaches the disk only with the next unrelated one - "+
						"after Confirm a completed file's metadata keep lacking the chunk that was under comparison (it is fetched again by the next run); after a new reservation the disk goes on claiming a chunk the sender may be replacing")
				} else {
					c.OK(key, at, "Sidecar."+short+": every path from this change of the persisted state to a return sets s.dirty")
				}
			}
		}
	}
	if n == 0 {
		c.Bad("dirty/none", methods[0].Pos(), "found no change of the persisted state in the methods of *Sidecar")
	}
}

// pathTo returns the chain of nodes from root down to target (inclusive), or nil.
func pathTo(root ast.Node, target ast.Node) []ast.Node {
	var stack, out []ast.Node
	ast.Inspect(root, func(m ast.Node) bool {
		if out != nil {
			return false
		}
		if m == nil {
			stack = stack[:len(stack)-1]
			return false
		}
		stack = append(stack, m)
		if m == target {
			out = append([]ast.Node(nil), stack...)
			return false
		}
		return true
	})
	return out
}

func terminates(bs *ast.BlockStmt) bool {
	if bs == nil || len(bs.List) == 0 {
		return false
	}
	switch v := bs.List[len(bs.List)-1].(type) {
	case *ast.ReturnStmt:
		return true
	case *ast.BranchStmt:
		return v.Tok == token.CONTINUE || v.Tok == token.BREAK || v.Tok == token.GOTO
	case *ast.ExprStmt:
		if call, ok := v.X.(*ast.CallExpr); ok {
			if id, ok := call.Fun.(*ast.Ident); ok && id.Name == "panic" {
				return true
			}
		}
	}
	return false
}

// condImpliesNonNil: does cond being `val` imply that the expression written `what` is not nil?
func condImpliesNonNil(cond ast.Expr, val bool, what string) bool {
	cond = ast.Unparen(cond)
	if be, ok := cond.(*ast.BinaryExpr); ok {
		switch {
		case be.Op == token.LAND && val, be.Op == token.LOR && !val:
			return condImpliesNonNil(be.X, val, what) || condImpliesNonNil(be.Y, val, what)
		case be.Op == token.NEQ || be.Op == token.EQL:
			x, y := types.ExprString(ast.Unparen(be.X)), types.ExprString(ast.Unparen(be.Y))
			if (x == what && y == "nil") || (y == what && x == "nil") {
				return (be.Op == token.NEQ) == val
			}
		}
	}
	if un, ok := cond.(*ast.UnaryExpr); ok && un.Op == token.NOT {
		return condImpliesNonNil(un.X, !val, what)
	}
	return false
}

// nilGuardedAt: is target, inside root, reached only where the expression written `what` was tested against nil?
// (an enclosing if / &&, or an earlier terminating `if what == nil {...}` in an enclosing statement list; guards outside a
// function literal count for the literal: the fields tested are set once, when the file begins)
func nilGuardedAt(root ast.Node, target ast.Node, what string) bool {
	path := pathTo(root, target)
	for i := len(path) - 2; i >= 0; i-- {
		child := path[i+1]
		switch v := path[i].(type) {
		case *ast.IfStmt:
			if child == v.Body && condImpliesNonNil(v.Cond, true, what) {
				return true
			}
			if child == v.Else && condImpliesNonNil(v.Cond, false, what) {
				return true
			}
		case *ast.BinaryExpr:
			if v.Op == token.LAND && child == v.Y && condImpliesNonNil(v.X, true, what) {
				return true
			}
			if v.Op == token.LOR && child == v.Y && condImpliesNonNil(v.X, false, what) {
				return true
			}
		case *ast.BlockStmt, *ast.CaseClause, *ast.CommClause:
			var list []ast.Stmt
			switch bl := v.(type) {
			case *ast.BlockStmt:
				list = bl.List
			case *ast.CaseClause:
				list = bl.Body
			case *ast.CommClause:
				list = bl.Body
			}
			for _, st := range list {
				if st == child {
					break
				}
				if is, ok := st.(*ast.IfStmt); ok && is.Else == nil && terminates(is.Body) && condImpliesNonNil(is.Cond, false, what) {
					return true
				}
			}
		}
	}
	return false
}

func rangesOverFiltered(f *FuncInfo, base *ast.Ident, use ast.Node) bool {
	info := f.Info()
	root := f.Root().Body
	bo := ObjOf(info, base)
	if bo == nil {
		return false
	}
	path := pathTo(root, use)
	for i := len(path) - 1; i >= 0; i-- {
		rs, ok := path[i].(*ast.RangeStmt)
		if !ok || rs.Value == nil || ObjOf(info, rs.Value) != bo {
			continue
		}
		list := ObjOf(info, rs.X)
		if list == nil {
			return false
		}
		appends, okAll := 0, true
		ast.Inspect(root, func(m ast.Node) bool {
			call, ok := m.(*ast.CallExpr)
			if !ok || len(call.Args) < 2 {
				return true
			}
			if id, ok := call.Fun.(*ast.Ident); !ok || id.Name != "append" || ObjOf(info, call.Args[0]) != list {
				return true
			}
			for _, a := range call.Args[1:] {
				appends++
				if !nilGuardedAt(root, call, types.ExprString(ast.Unparen(a))+".sidecar") {
					okAll = false
				}
			}
			return true
		})
		return appends > 0 && okAll
	}
	return false
}

func runSidecarNilGuard(c *Ctx) {
	p := c.P
	n := 0
	for _, f := range p.FuncsIn("internal/transfer") {
		if f.Body == nil || strings.HasSuffix(p.Fset.Position(f.Pos()).Filename, "_test.go") {
			continue
		}
		if strings.HasPrefix(f.Name, "transfer.(*Sidecar).") {
			continue
		}
		info := f.Info()
		k := 0
		InspectNoLits(f.Body, func(m ast.Node) bool {
			outer, ok := m.(*ast.SelectorExpr)
			if !ok {
				return true
			}
			inner, ok := ast.Unparen(outer.X).(*ast.SelectorExpr)
			if !ok || inner.Sel.Name != "sidecar" || !isSidecarType(info.TypeOf(inner)) {
				return true
			}
			if _, isPtr := types.Unalias(info.TypeOf(inner)).(*types.Pointer); !isPtr {
				return true
			}
			what := types.ExprString(inner)
			k++
			n++
			key := fmt.Sprintf("sidecar-nil/%s#%d/%s", f.Name, k, outer.Sel.Name)
			guarded := nilGuardedAt(f.Root().Body, outer, what)
			// a list filtered by the nil test: `for _, st := range states` where every append(states, x) is guarded for x.sidecar
			if !guarded {
				if base, ok := ast.Unparen(inner.X).(*ast.Ident); ok {
					guarded = rangesOverFiltered(f, base, outer)
				}
			}
			if guarded {
				c.OK(key, outer.Pos(), what+"."+outer.Sel.Name+" is reached only where "+what+" was tested against nil")
			} else {
				c.Bad(key, outer.Pos(), f.Name+" reaches "+what+"."+outer.Sel.Name+" without a nil test of "+what+" on the way: the field stays nil for a file whose announced chunk count is beyond what resume metadata are kept for (the peer chooses the chunk size), "+
					"and every method of *Sidecar locks s.mu before it looks at s - a nil receiver is a crash of the receiving process, not an error")
			}
			return true
		})
	}
	if n == 0 {
		c.Bad("sidecar-nil/none", token.NoPos, "found no use of a .sidecar field in internal/transfer")
	}
}

// localDef resolves an identifier to the right-hand side of its single definition in f (nil when there is none or several).
func localDef(f *FuncInfo, e ast.Expr) ast.Expr {
	info := f.Info()
	o := ObjOf(info, e)
	if o == nil {
		return nil
	}
	var def ast.Expr
	count := 0
	root := f.Root()
	ast.Inspect(root.Body, func(m ast.Node) bool {
		as, ok := m.(*ast.AssignStmt)
		if !ok || len(as.Lhs) != len(as.Rhs) {
			return true
		}
		for i, l := range as.Lhs {
			if ObjOf(info, l) == o {
				count++
				def = as.Rhs[i]
			}
		}
		return true
	})
	if count == 1 {
		return def
	}
	return nil
}

func runOffsetSameGeometry(c *Ctx) {
	p := c.P
	n := 0
	for _, f := range p.FuncsIn("internal/transfer") {
		if f.Body == nil || strings.HasSuffix(p.Fset.Position(f.Pos()).Filename, "_test.go") {
			continue
		}
		info := f.Info()
		var reads []*ast.CallExpr
		var pools []*ast.CallExpr
		InspectNoLits(f.Body, func(m ast.Node) bool {
			call, ok := m.(*ast.CallExpr)
			if !ok {
				return true
			}
			if callee := p.CalleeInfo(info, call); callee != nil {
				switch callee.Name {
				case "transfer.readAtWithPool":
					reads = append(reads, call)
				case "transfer.chunkPoolFor":
					pools = append(pools, call)
				}
			}
			return true
		})
		if len(reads) == 0 {
			continue
		}
		if len(pools) == 0 && f.Root() != f {
			// the pool is chosen by the enclosing function, the read happens in its read-ahead goroutine
			ast.Inspect(f.Root().Body, func(m ast.Node) bool {
				if call, ok := m.(*ast.CallExpr); ok {
					if callee := p.CalleeInfo(info, call); callee != nil && callee.Name == "transfer.chunkPoolFor" {
						pools = append(pools, call)
					}
				}
				return true
			})
		}
		// the chunk size the pool is chosen by, with local aliases resolved
		resolve := func(e ast.Expr) string {
			e = ast.Unparen(e)
			for i := 0; i < 3; i++ {
				if call, ok := e.(*ast.CallExpr); ok && len(call.Args) == 1 {
					if tv, ok := info.Types[call.Fun]; ok && tv.IsType() {
						e = ast.Unparen(call.Args[0])
						continue
					}
				}
				if _, ok := e.(*ast.Ident); ok {
					if d := localDef(f, e); d != nil {
						if _, isSel := ast.Unparen(d).(*ast.SelectorExpr); isSel {
							e = ast.Unparen(d)
							continue
						}
					}
				}
				break
			}
			return types.ExprString(e)
		}
		poolSizes := map[string]bool{}
		for _, pc := range pools {
			if len(pc.Args) == 1 {
				poolSizes[resolve(pc.Args[0])] = true
			}
		}
		for k, rc := range reads {
			if len(rc.Args) < 3 {
				continue
			}
			n++
			key := fmt.Sprintf("offset-geometry/%s#%d", f.Name, k+1)
			off := ast.Unparen(rc.Args[2])
			if _, ok := off.(*ast.Ident); ok {
				// the defining product (the first definition: later `+=` advance it by what was read)
				var def ast.Expr
				o := ObjOf(info, off)
				ast.Inspect(f.Body, func(m ast.Node) bool {
					if as, ok := m.(*ast.AssignStmt); ok && def == nil && as.Tok == token.DEFINE && len(as.Lhs) == len(as.Rhs) {
						for i, l := range as.Lhs {
							if ObjOf(info, l) == o {
								def = as.Rhs[i]
							}
						}
					}
					return true
				})
				if def != nil {
					off = ast.Unparen(def)
				}
			}
			mul, ok := off.(*ast.BinaryExpr)
			if !ok || mul.Op != token.MUL {
				c.Unknown(key, rc.Pos(), "the read offset "+types.ExprString(off)+" is not a product index * chunk size")
				continue
			}
			if len(poolSizes) == 0 {
				c.Unknown(key, rc.Pos(), f.Name+" reads chunks but chooses no buffer pool by chunk size: nothing to compare the offset's chunk size with")
				continue
			}
			x, y := resolve(mul.X), resolve(mul.Y)
			if poolSizes[x] || poolSizes[y] {
				c.OK(key, rc.Pos(), "the read offset "+types.ExprString(off)+" uses the chunk size the buffer pool is chosen by")
			} else {
				var have []string
				for s := range poolSizes {
					have = append(have, s)
				}
				c.Bad(key, rc.Pos(), f.Name+" reads a chunk at "+types.ExprString(off)+" while its buffers are sized by "+strings.Join(have, ", ")+": two chunk sizes in one function - the file's (announced in FileBegin, used by the receiver to place the chunk) and another; "+
					"when the parameter source changes the chunk size between two files the sender reads other bytes than the index names, computes the CRC over them, and both sides report success over wrong content")
			}
		}
	}
	if n == 0 {
		c.Bad("offset-geometry/none", token.NoPos, "found no call of readAtWithPool in internal/transfer")
	}
}

func runScanSkipsByName(c *Ctx) {
	p := c.P
	n := 0
	for _, name := range []string{"manifest.Scan", "manifest.ScanPaths"} {
		root := p.Func(name)
		if root == nil {
			c.MissingAnchor(name)
			continue
		}
		var visit func(f *FuncInfo)
		visit = func(f *FuncInfo) {
			for _, kid := range f.Kids {
				visit(kid)
			}
			if f.Lit == nil || f.Type == nil || f.Type.Params == nil || len(f.Type.Params.List) < 2 {
				return
			}
			info := f.Info()
			// a WalkDir callback: (path string, d fs.DirEntry, err error)
			isWalk := false
			for _, fl := range f.Type.Params.List {
				if t := info.TypeOf(fl.Type); t != nil && strings.HasSuffix(t.String(), "fs.DirEntry") {
					isWalk = true
				}
			}
			if !isWalk {
				return
			}
			// the relative path: variables assigned from filepath.Rel / ToSlash of one
			rel := map[types.Object]bool{}
			InspectNoLits(f.Body, func(m ast.Node) bool {
				as, ok := m.(*ast.AssignStmt)
				if !ok || len(as.Rhs) != 1 {
					return true
				}
				call, ok := ast.Unparen(as.Rhs[0]).(*ast.CallExpr)
				if !ok {
					return true
				}
				if fn := Callee(info, call); fn != nil && fn.Pkg() != nil && fn.Pkg().Path() == "path/filepath" && (fn.Name() == "Rel" || fn.Name() == "ToSlash") {
					if o := ObjOf(info, as.Lhs[0]); o != nil {
						rel[o] = true
					}
				}
				return true
			})
			k := 0
			InspectNoLits(f.Body, func(m ast.Node) bool {
				is, ok := m.(*ast.IfStmt)
				if !ok || len(is.Body.List) != 1 {
					return true
				}
				rs, ok := is.Body.List[0].(*ast.ReturnStmt)
				if !ok || len(rs.Results) != 1 {
					return true
				}
				if id, ok := ast.Unparen(rs.Results[0]).(*ast.Ident); !ok || id.Name != "nil" {
					return true
				}
				mentions := false
				ast.Inspect(is.Cond, func(x ast.Node) bool {
					if id, ok := x.(*ast.Ident); ok && rel[info.Uses[id]] {
						mentions = true
					}
					return true
				})
				if !mentions {
					return true
				}
				k++
				n++
				key := fmt.Sprintf("scan-skip/%s#%d", name, k)
				ok2 := false
				if be, isB := ast.Unparen(is.Cond).(*ast.BinaryExpr); isB && be.Op == token.EQL {
					x, y := ast.Unparen(be.X), ast.Unparen(be.Y)
					if lit, isL := x.(*ast.BasicLit); isL {
						x, y = y, lit
					}
					if id, isI := x.(*ast.Ident); isI && rel[info.Uses[id]] {
						if lit, isL := y.(*ast.BasicLit); isL && lit.Value == `"."` {
							ok2 = true
						}
					}
				}
				if ok2 {
					c.OK(key, is.Pos(), name+" skips the walked root itself (`"+types.ExprString(is.Cond)+"`) and no other entry by its name")
				} else {
					c.Bad(key, is.Pos(), name+" leaves an entry out of the manifest, without a scan error, under `"+types.ExprString(is.Cond)+"`: a test on the relative path other than the comparison with \".\" drops entries for their names "+
						"(a first byte '.', a prefix, the empty string): `.gitignore`, `.config/` and what lies below never reach the manifest, the rest transfers, and both sides report success over an incomplete tree")
				}
				return true
			})
		}
		visit(root)
	}
	if n == 0 {
		c.Bad("scan-skip/none", token.NoPos, "found no skip of the walked root in the WalkDir callbacks of manifest.Scan / ScanPaths")
	}
}

func runWsSchemeFromParsed(c *Ctx) {
	p := c.P
	f := p.Func("app.buildWebSocketURL")
	if f == nil {
		c.MissingAnchor("app.buildWebSocketURL")
		return
	}
	info := f.Info()
	caseBlind := func(e ast.Expr) bool {
		okc := false
		ast.Inspect(e, func(m ast.Node) bool {
			switch v := m.(type) {
			case *ast.SelectorExpr:
				if v.Sel.Name == "Scheme" {
					if t := info.TypeOf(v.X); t != nil && strings.HasSuffix(strings.TrimPrefix(t.String(), "*"), "net/url.URL") {
						okc = true
					}
				}
			case *ast.CallExpr:
				if fn := Callee(info, v); fn != nil && fn.Pkg() != nil && fn.Pkg().Path() == "strings" && (fn.Name() == "ToLower" || fn.Name() == "EqualFold") {
					okc = true
				}
			case *ast.Ident:
				// a local defined from one of the above
				if d := localDef(f, v); d != nil && d != e {
					ast.Inspect(d, func(k ast.Node) bool {
						if s, ok := k.(*ast.SelectorExpr); ok && s.Sel.Name == "Scheme" {
							okc = true
						}
						if call, ok := k.(*ast.CallExpr); ok {
							if fn := Callee(info, call); fn != nil && fn.Pkg() != nil && fn.Pkg().Path() == "strings" && (fn.Name() == "ToLower" || fn.Name() == "EqualFold") {
								okc = true
							}
						}
						return true
					})
				}
			}
			return true
		})
		return okc
	}
	n := 0
	InspectNoLits(f.Body, func(m ast.Node) bool {
		lit, ok := m.(*ast.BasicLit)
		if !ok || lit.Value != `"wss"` {
			return true
		}
		path := pathTo(f.Body, lit)
		// the innermost if / case whose body holds the literal
		for i := len(path) - 2; i >= 0; i-- {
			switch v := path[i].(type) {
			case *ast.IfStmt:
				if path[i+1] == v.Body {
					n++
					key := fmt.Sprintf("ws-scheme/wss#%d", n)
					if caseBlind(v.Cond) {
						c.OK(key, v.Pos(), "\"wss\" is chosen under `"+types.ExprString(v.Cond)+"`, which reads the parsed scheme or compares case-insensitively")
					} else {
						c.Bad(key, v.Pos(), "buildWebSocketURL chooses \"wss\" under `"+types.ExprString(v.Cond)+"`, a test that is neither on the parsed URL's scheme nor case-insensitive: for HTTPS://host the session is created over TLS (url.Parse lower-cases the scheme) "+
							"and the signaling connection goes to ws://host, plain text on port 80")
					}
					return true
				}
			case *ast.CaseClause:
				n++
				key := fmt.Sprintf("ws-scheme/wss#%d", n)
				okc := false
				if i > 1 {
					if sw, isSw := path[i-2].(*ast.SwitchStmt); isSw && sw.Tag != nil && caseBlind(sw.Tag) {
						okc = true
					}
				}
				for _, e := range v.List {
					if caseBlind(e) {
						okc = true
					}
				}
				c.Check(okc, key, v.Pos(), "\"wss\" is chosen in a switch over the parsed or lower-cased scheme",
					"buildWebSocketURL chooses \"wss\" in a case that is neither on the parsed URL's scheme nor case-insensitive: HTTPS://host gets ws://")
				return true
			}
		}
		return true
	})
	if n == 0 {
		// one-expression forms (strings.Replace of u.Scheme) carry no literal "wss": the scheme must then come from the parsed URL
		fromParsed := false
		InspectNoLits(f.Body, func(m ast.Node) bool {
			if kv, ok := m.(*ast.KeyValueExpr); ok {
				if id, ok := kv.Key.(*ast.Ident); ok && id.Name == "Scheme" && caseBlind(kv.Value) {
					fromParsed = true
				}
			}
			return true
		})
		c.Check(fromParsed, "ws-scheme/derived", f.Pos(), "the WebSocket scheme is derived from the parsed URL's scheme",
			"buildWebSocketURL neither chooses \"wss\" under a test of the parsed scheme nor derives the scheme from it")
	}
}

func runBurstFloor(c *Ctx) {
	p := c.P
	f := p.Func("main.newTokenBucket")
	if f == nil {
		for _, g := range p.FuncsIn("cmd/thruserv") {
			if strings.HasSuffix(g.Name, ".newTokenBucket") {
				f = g
			}
		}
	}
	if f == nil {
		c.MissingAnchor("thruserv newTokenBucket")
		return
	}
	info := f.Info()
	// the floor: `if <x> < 1 { <x> = 1 }` or `<= 0`, or max(x, 1)
	floorOf := func(body *ast.BlockStmt, finfo *types.Info, what string) bool {
		found := false
		ast.Inspect(body, func(m ast.Node) bool {
			switch v := m.(type) {
			case *ast.IfStmt:
				be, ok := ast.Unparen(v.Cond).(*ast.BinaryExpr)
				if !ok || types.ExprString(ast.Unparen(be.X)) != what {
					return true
				}
				lit, ok := ast.Unparen(be.Y).(*ast.BasicLit)
				if !ok || !((be.Op == token.LSS && lit.Value == "1") || (be.Op == token.LEQ && lit.Value == "0")) {
					return true
				}
				for _, st := range v.Body.List {
					if as, ok := st.(*ast.AssignStmt); ok && len(as.Lhs) == 1 && types.ExprString(as.Lhs[0]) == what {
						if l, ok := ast.Unparen(as.Rhs[0]).(*ast.BasicLit); ok && l.Value != "0" {
							found = true
						}
					}
				}
			case *ast.AssignStmt:
				if len(v.Lhs) == 1 && len(v.Rhs) == 1 && types.ExprString(v.Lhs[0]) == what {
					if call, ok := ast.Unparen(v.Rhs[0]).(*ast.CallExpr); ok {
						if id, ok := call.Fun.(*ast.Ident); ok && id.Name == "max" {
							found = true
						}
					}
				}
			}
			return true
		})
		return found
	}
	burstParam := ""
	if f.Type.Params != nil {
		for _, fl := range f.Type.Params.List {
			for _, nm := range fl.Names {
				if strings.Contains(strings.ToLower(nm.Name), "burst") {
					burstParam = nm.Name
				}
			}
		}
	}
	_ = info
	if burstParam != "" && floorOf(f.Body, info, burstParam) {
		c.OK("burst-floor/constructor", f.Pos(), "newTokenBucket raises a burst below 1 to 1")
		return
	}
	// otherwise every *Burst value copied by newServerLimits is raised there
	lim := (*FuncInfo)(nil)
	for _, g := range p.FuncsIn("cmd/thruserv") {
		if strings.HasSuffix(g.Name, ".newServerLimits") {
			lim = g
		}
	}
	if lim == nil {
		c.Bad("burst-floor/constructor", f.Pos(), "newTokenBucket no longer raises a burst below 1 to 1, and there is no newServerLimits to do it: a bucket with burst 0 never grants")
		return
	}
	linfo := lim.Info()
	n, bad := 0, 0
	ast.Inspect(lim.Body, func(m ast.Node) bool {
		kv, ok := m.(*ast.KeyValueExpr)
		if !ok {
			return true
		}
		id, ok := kv.Key.(*ast.Ident)
		if !ok || !strings.HasSuffix(id.Name, "Burst") {
			return true
		}
		n++
		what := types.ExprString(ast.Unparen(kv.Value))
		if !floorOf(lim.Body, linfo, what) {
			bad++
			c.Bad("burst-floor/"+id.Name, kv.Pos(), "newTokenBucket no longer raises a burst below 1 to 1 and newServerLimits copies "+what+" into "+id.Name+" unraised: with that option at 0 the bucket starts empty and is capped at 0 - "+
				"every request it guards is refused (429 for every POST /session with --session-creates-burst 0), a documented configuration no client can work against")
		}
		return true
	})
	if n == 0 {
		c.Bad("burst-floor/constructor", f.Pos(), "newTokenBucket no longer raises a burst below 1 to 1 and newServerLimits copies no *Burst field")
	} else if bad == 0 {
		c.OK("burst-floor/constructor", f.Pos(), fmt.Sprintf("newServerLimits raises each of the %d burst values it copies", n))
	}
}

// ---- second half of round 14 ----

func init() {
	Register(&Rule{
		Name:  "R-AUTH-CODE-VERBATIM",
		Props: []string{"C08"},
		Min:   1,
		Doc: "the join code keys the proof as it is: deriveAuthKey never assigns its code parameter, and the key handed to hmac.New is the conversion of that parameter itself - " +
			"a code normalised (trimmed, upper-cased) in front of the HMAC makes codes that differ in case or surrounding blanks one key: a peer holding another code passes transport authentication",
		Run: runAuthCodeVerbatim,
	})
	Register(&Rule{
		Name:  "R-LIMITS-ONE-TO-ONE",
		Props: []string{"C14"},
		Min:   1,
		Doc: "every configured limit reaches its own limiter: in the serverLimits literal of newServerLimits no two fields are filled from the same field of the configuration - " +
			"the session-creation bucket filled from the connect burst ignores --session-creates-burst and admits twice the configured burst of POST /session",
		Run: runLimitsOneToOne,
	})
	Register(&Rule{
		Name:  "R-NO-SILENT-DROP-BY-ADDRESSEE",
		Props: []string{"C10"},
		Min:   0,
		Doc: "a message is delivered or its author is told: in handleWebSocket no branch whose condition reads the envelope's To consists of a bare `continue` - every decision by addressee ends in a send, a broadcast or a peer_not_found reply. " +
			"Rule with expected count zero: the positive example is the seed C10-r14-self-addressed-dropped",
		Run: runNoSilentDropByAddressee,
	})
	Register(&Rule{
		Name:  "R-CLOSE-AFTER-DRAIN",
		Props: []string{"C10"},
		Min:   1,
		Doc: "what was queued before Close is written before the connection says goodbye: in wsclient.(*Conn).Close every write to the socket (WriteControl / WriteMessage / WriteJSON / Close on the conn field) comes behind the receive from the writer's done channel - " +
			"a close frame written while the writer still drains the queue overtakes the queued envelopes: the next WriteJSON fails with ErrCloseSent and everything still queued is lost",
		Run: runCloseAfterDrain,
	})
	Register(&Rule{
		Name:  "R-DOTDOT-BOTH-SEPARATORS",
		Props: []string{"C07"},
		Min:   1,
		Doc: "a `..` segment is found whichever separator delimits it: in validateRelPath the segments compared with \"..\" come from an expression that names both '/' and '\\\\' (FieldsFunc over both, or a split after replacing one by the other) - " +
			"split by one separator chosen per path, `w\\\\x/../../y` has no segment `..` for the validator and two for the receiving OS",
		Run: runDotDotBothSeparators,
	})
	Register(&Rule{
		Name:  "R-COUNT-GUARD-EXACT",
		Props: []string{"C19"},
		Min:   1,
		Doc: "the guard on the chunk count bounds it by 2^32-1: the result of chunkCountFits is a comparison with the constant 4294967295 (`<=`) or 4294967296 (`<`) - " +
			"a bound of chunkSize<<32 also admits sizes whose count is exactly 2^32: every uint32 count behind the guard wraps to 0 for a non-empty file, the sender treats it as having no chunks and the receiver finalises a file of zeros",
		Run: runCountGuardExact,
	})
}

func runAuthCodeVerbatim(c *Ctx) {
	p := c.P
	f := p.Func("app.deriveAuthKey")
	if f == nil {
		c.MissingAnchor("app.deriveAuthKey")
		return
	}
	info := f.Info()
	var code types.Object
	for _, fl := range f.Type.Params.List {
		if t := info.TypeOf(fl.Type); t != nil && t.String() == "string" && len(fl.Names) > 0 {
			code = info.Defs[fl.Names[0]]
		}
	}
	if code == nil {
		c.Unknown("auth-code/param", f.Pos(), "deriveAuthKey has no string parameter")
		return
	}
	okc := true
	ast.Inspect(f.Body, func(m ast.Node) bool {
		if as, ok := m.(*ast.AssignStmt); ok {
			for _, l := range as.Lhs {
				if ObjOf(info, l) == code && as.Tok != token.DEFINE {
					okc = false
					c.Bad("auth-code/assigned", as.Pos(), "deriveAuthKey rewrites its join code ("+types.ExprString(as.Rhs[0])+") in front of the HMAC: codes that differ only in what the rewrite removes are one key, and a peer holding another code passes transport authentication")
				}
			}
		}
		return true
	})
	nKey := 0
	ast.Inspect(f.Body, func(m ast.Node) bool {
		call, ok := m.(*ast.CallExpr)
		if !ok {
			return true
		}
		if fn := Callee(info, call); fn != nil && fn.Pkg() != nil && fn.Pkg().Path() == "crypto/hmac" && fn.Name() == "New" && len(call.Args) == 2 {
			nKey++
			key := ast.Unparen(call.Args[1])
			if conv, ok := key.(*ast.CallExpr); ok && len(conv.Args) == 1 {
				if tv, ok := info.Types[conv.Fun]; ok && tv.IsType() {
					key = ast.Unparen(conv.Args[0])
				}
			}
			if ObjOf(info, key) != code {
				okc = false
				c.Bad("auth-code/key", call.Pos(), "deriveAuthKey keys the HMAC with "+types.ExprString(call.Args[1])+", not with the join code it was given as it is")
			}
		}
		return true
	})
	if nKey == 0 {
		c.Unknown("auth-code/key", f.Pos(), "found no hmac.New in deriveAuthKey")
		return
	}
	if okc {
		c.OK("auth-code/verbatim", f.Pos(), "the join code is the HMAC key as it was given: never assigned, converted and handed to hmac.New")
	}
}

func runLimitsOneToOne(c *Ctx) {
	p := c.P
	var lim *FuncInfo
	for _, g := range p.FuncsIn("cmd/thruserv") {
		if strings.HasSuffix(g.Name, ".newServerLimits") {
			lim = g
		}
	}
	if lim == nil {
		c.MissingAnchor("thruserv newServerLimits")
		return
	}
	info := lim.Info()
	seen := map[string]string{}
	n, bad := 0, 0
	ast.Inspect(lim.Body, func(m ast.Node) bool {
		cl, ok := m.(*ast.CompositeLit)
		if !ok {
			return true
		}
		if t := info.TypeOf(cl); t == nil || !strings.HasSuffix(t.String(), "serverLimits") {
			return true
		}
		for _, el := range cl.Elts {
			kv, ok := el.(*ast.KeyValueExpr)
			if !ok {
				continue
			}
			sel, ok := ast.Unparen(kv.Value).(*ast.SelectorExpr)
			if !ok {
				continue
			}
			if _, isField := info.Uses[sel.Sel].(*types.Var); !isField {
				continue
			}
			n++
			src := types.ExprString(sel)
			key := types.ExprString(kv.Key)
			if prev, dup := seen[src]; dup {
				bad++
				c.Bad("limits-paired/"+key, kv.Pos(), "newServerLimits fills both "+prev+" and "+key+" from "+src+": one option drives two limiters and another option drives none - the configured limit of one of them does not hold")
			} else {
				seen[src] = key
			}
		}
		return true
	})
	if n == 0 {
		c.Unknown("limits-paired/literal", lim.Pos(), "found no serverLimits literal filled from configuration fields in newServerLimits")
	} else if bad == 0 {
		c.OK("limits-paired/literal", lim.Pos(), fmt.Sprintf("%d fields of serverLimits are filled from %d different configuration fields", n, len(seen)))
	}
}

func runNoSilentDropByAddressee(c *Ctx) {
	p := c.P
	var h *FuncInfo
	for _, g := range p.FuncsIn("cmd/thruserv") {
		if strings.HasSuffix(g.Name, ".handleWebSocket") {
			h = g
		}
	}
	if h == nil {
		c.MissingAnchor("thruserv handleWebSocket")
		return
	}
	info := h.Info()
	n := 0
	ast.Inspect(h.Body, func(m ast.Node) bool {
		is, ok := m.(*ast.IfStmt)
		if !ok {
			return true
		}
		readsTo := false
		ast.Inspect(is.Cond, func(k ast.Node) bool {
			if sel, ok := k.(*ast.SelectorExpr); ok && sel.Sel.Name == "To" {
				if t := info.TypeOf(sel.X); t != nil && strings.HasSuffix(strings.TrimPrefix(t.String(), "*"), "protocol.Envelope") {
					readsTo = true
				}
			}
			return true
		})
		if !readsTo {
			return true
		}
		bare := true
		cont := false
		for _, st := range is.Body.List {
			if bs, ok := st.(*ast.BranchStmt); ok && bs.Tok == token.CONTINUE {
				cont = true
			} else {
				bare = false
			}
		}
		if bare && cont {
			n++
			c.Bad(fmt.Sprintf("silent-drop/addressee#%d", n), is.Pos(), "handleWebSocket drops a message under `"+types.ExprString(is.Cond)+"` without delivering it and without telling its author (a bare continue on a test of the addressee): "+
				"the property promises delivery to the named peer or a peer_not_found reply - a message to the author's own id (its newest connection after a reconnect) vanishes")
		}
		return true
	})
	if n == 0 {
		c.OK("silent-drop/none", h.Pos(), "no branch on the envelope's To in handleWebSocket is a bare continue")
	}
}

func runCloseAfterDrain(c *Ctx) {
	p := c.P
	f := p.Func("wsclient.(*Conn).Close")
	if f == nil {
		c.MissingAnchor("wsclient.(*Conn).Close")
		return
	}
	wait := token.NoPos
	InspectNoLits(f.Body, func(m ast.Node) bool {
		if un, ok := m.(*ast.UnaryExpr); ok && un.Op == token.ARROW {
			if sel, ok := ast.Unparen(un.X).(*ast.SelectorExpr); ok && sel.Sel.Name == "done" && wait == token.NoPos {
				wait = un.Pos()
			}
		}
		return true
	})
	if wait == token.NoPos {
		c.Bad("close-drain/wait", f.Pos(), "wsclient.(*Conn).Close no longer waits for the writer (no receive from c.done): the socket is closed under the queued messages")
		return
	}
	n, bad := 0, 0
	InspectNoLits(f.Body, func(m ast.Node) bool {
		call, ok := m.(*ast.CallExpr)
		if !ok {
			return true
		}
		sel, ok := ast.Unparen(call.Fun).(*ast.SelectorExpr)
		if !ok {
			return true
		}
		in, ok := ast.Unparen(sel.X).(*ast.SelectorExpr)
		if !ok || in.Sel.Name != "conn" {
			return true
		}
		switch sel.Sel.Name {
		case "WriteControl", "WriteMessage", "WriteJSON", "Close", "NextWriter", "WritePreparedMessage":
			n++
			if call.Pos() < wait {
				bad++
				c.Bad(fmt.Sprintf("close-drain/%s#%d", sel.Sel.Name, n), call.Pos(), "wsclient.(*Conn).Close calls "+types.ExprString(call.Fun)+" before the writer has drained the queue (in front of <-c.done): a close frame overtakes the queued envelopes, "+
					"the writer's next WriteJSON fails and everything still queued is lost although the server keeps reading")
			}
		}
		return true
	})
	if n == 0 {
		c.Unknown("close-drain/close", f.Pos(), "found no write or close on the conn field in wsclient.(*Conn).Close")
	} else if bad == 0 {
		c.OK("close-drain/order", f.Pos(), fmt.Sprintf("%d socket operation(s) of Close come behind the wait for the writer", n))
	}
}

func runDotDotBothSeparators(c *Ctx) {
	p := c.P
	f := p.Func("transfer.validateRelPath")
	if f == nil {
		c.MissingAnchor("transfer.validateRelPath")
		return
	}
	info := f.Info()
	n := 0
	InspectNoLits(f.Body, func(m ast.Node) bool {
		rs, ok := m.(*ast.RangeStmt)
		if !ok || rs.Value == nil {
			return true
		}
		seg := ObjOf(info, rs.Value)
		cmp := false
		ast.Inspect(rs.Body, func(k ast.Node) bool {
			if be, ok := k.(*ast.BinaryExpr); ok && (be.Op == token.EQL || be.Op == token.NEQ) {
				x, y := ast.Unparen(be.X), ast.Unparen(be.Y)
				if l, ok := y.(*ast.BasicLit); ok && l.Value == `".."` && ObjOf(info, x) == seg {
					cmp = true
				}
				if l, ok := x.(*ast.BasicLit); ok && l.Value == `".."` && ObjOf(info, y) == seg {
					cmp = true
				}
			}
			return true
		})
		if !cmp {
			return true
		}
		n++
		src := ast.Expr(rs.X)
		if _, isId := ast.Unparen(src).(*ast.Ident); isId {
			if d := localDef(f, src); d != nil {
				src = d
			}
		}
		slash, back := false, false
		ast.Inspect(src, func(k ast.Node) bool {
			if l, ok := k.(*ast.BasicLit); ok {
				switch l.Value {
				case `'/'`, `"/"`:
					slash = true
				case `'\\'`, `"\\"`, "`\\`":
					back = true
				}
			}
			return true
		})
		c.Check(slash && back, fmt.Sprintf("dotdot-separators/range#%d", n), rs.Pos(), "the segments compared with \"..\" are delimited by '/' and by '\\'",
			"validateRelPath compares with \"..\" the segments of "+types.ExprString(rs.X)+", which does not split at both '/' and '\\': a path mixing the two (`w\\x/../../y`) has no `..` segment for the validator and climbs out of the output directory on the receiving system")
		return true
	})
	if n == 0 {
		c.Unknown("dotdot-separators/range", f.Pos(), "found no loop over path segments that compares them with \"..\" in validateRelPath")
	}
}

func runCountGuardExact(c *Ctx) {
	p := c.P
	f := p.Func("transfer.chunkCountFits")
	if f == nil {
		c.MissingAnchor("transfer.chunkCountFits")
		return
	}
	info := f.Info()
	n := 0
	InspectNoLits(f.Body, func(m ast.Node) bool {
		rs, ok := m.(*ast.ReturnStmt)
		if !ok || len(rs.Results) != 1 {
			return true
		}
		if tv, ok := info.Types[rs.Results[0]]; ok && tv.Value != nil {
			return true // constant true / false
		}
		n++
		exact := false
		ast.Inspect(rs.Results[0], func(k ast.Node) bool {
			be, ok := k.(*ast.BinaryExpr)
			if !ok {
				return true
			}
			for _, side := range []struct {
				e     ast.Expr
				right bool
			}{{be.Y, true}, {be.X, false}} {
				tv, ok := info.Types[side.e]
				if !ok || tv.Value == nil {
					continue
				}
				v := tv.Value.ExactString()
				op := be.Op
				if !side.right { // const on the left: mirror
					switch op {
					case token.GEQ:
						op = token.LEQ
					case token.GTR:
						op = token.LSS
					default:
						continue
					}
				}
				if (v == "4294967295" && op == token.LEQ) || (v == "4294967296" && op == token.LSS) {
					exact = true
				}
			}
			return true
		})
		c.Check(exact, fmt.Sprintf("count-guard/return#%d", n), rs.Pos(), "chunkCountFits compares with 2^32-1 exactly",
			"chunkCountFits answers with `"+types.ExprString(rs.Results[0])+"`, which is not a comparison `<= 4294967295` (or `< 4294967296`): a bound built from a shift or another constant admits a count of exactly 2^32, "+
				"which every uint32 count behind the guard (sender's schedule, receiver's FileBegin, CreateSidecar, LoadSidecar) wraps to 0 for a non-empty file")
		return true
	})
	if n == 0 {
		c.Unknown("count-guard/return", f.Pos(), "chunkCountFits has no non-constant return")
	}
}

// ---- round 15 ----

func init() {
	Register(&Rule{
		Name:  "R-AUTH-ROLE-WHOLE-BYTE",
		Props: []string{"C08"},
		Min:   1,
		Doc: "every bit of an authentication message is either compared or under the MAC: the role readAuthMessage returns is the byte of the message as it is (an index expression of the buffer, no mask, shift or arithmetic) - " +
			"the callers compare that value with the expected role and recompute the MAC over it; with the upper bits masked off in the reader, four bits of each message are covered by nothing and an altered message verifies",
		Run: runAuthRoleWholeByte,
	})
	Register(&Rule{
		Name:  "R-INTACT-BY-EQUAL-SIZE",
		Props: []string{"C01", "C06"},
		Min:   2,
		Doc: "resume metadata are kept only for a data file of exactly the announced length: in internal/transfer every comparison between the size of a stat'ed file and a FileBegin's FileSize is an equality (== / !=) - " +
			"a file that is longer was replaced or appended to after the interrupted run; kept `intact` under >=, its stale metadata make the sender skip chunks that hold foreign bytes, Truncate fixes the length and both sides report success",
		Run: runIntactByEqualSize,
	})
	Register(&Rule{
		Name:  "R-TURN-SECRET-DECODED",
		Props: []string{"C16"},
		Min:   1,
		Doc: "the relay secret reaches the TURN client as the server minted it: in parseTurnServer the secret is the first result of (*url.Userinfo).Password() (decoded) and the escaped forms (*url.Userinfo).String / (*url.URL).String are not read - " +
			"a REST credential is base64: about one in three contains '/', which the server's url.UserPassword sends as %2F; cut out of the escaped form, the client derives another secret, the allocation is refused and the client falls back to no relay",
		Run: runTurnSecretDecoded,
	})
}

func runAuthRoleWholeByte(c *Ctx) {
	p := c.P
	f := p.Func("app.readAuthMessage")
	if f == nil {
		c.MissingAnchor("app.readAuthMessage")
		return
	}
	info := f.Info()
	n := 0
	InspectNoLits(f.Body, func(m ast.Node) bool {
		rs, ok := m.(*ast.ReturnStmt)
		if !ok || len(rs.Results) < 1 {
			return true
		}
		e := ast.Unparen(rs.Results[0])
		if tv, ok := info.Types[e]; ok && tv.Value != nil {
			return true // the error returns: a constant 0
		}
		n++
		key := fmt.Sprintf("auth-role/return#%d", n)
		src := e
		if _, isId := e.(*ast.Ident); isId {
			if d := localDef(f, e); d != nil {
				src = ast.Unparen(d)
			} else {
				c.Unknown(key, rs.Pos(), "the role returned by readAuthMessage has no single definition")
				return true
			}
		}
		if ix, ok := src.(*ast.IndexExpr); ok {
			c.OK(key, rs.Pos(), "the role returned is "+types.ExprString(ix)+", the byte of the message as it is")
		} else {
			c.Bad(key, rs.Pos(), "readAuthMessage returns the role as `"+types.ExprString(src)+"`, not as the byte of the message: the bits the expression drops are neither compared with the expected role nor covered by the MAC the callers recompute over the returned value - "+
				"an authentication message altered in those bits verifies")
		}
		return true
	})
	if n == 0 {
		c.Unknown("auth-role/return", f.Pos(), "readAuthMessage has no non-constant role return")
	}
}

func runIntactByEqualSize(c *Ctx) {
	p := c.P
	n := 0
	for _, f := range p.FuncsIn("internal/transfer") {
		if f.Body == nil || strings.HasSuffix(p.Fset.Position(f.Pos()).Filename, "_test.go") {
			continue
		}
		info := f.Info()
		k := 0
		InspectNoLits(f.Body, func(m ast.Node) bool {
			be, ok := m.(*ast.BinaryExpr)
			if !ok {
				return true
			}
			switch be.Op {
			case token.EQL, token.NEQ, token.LSS, token.GTR, token.LEQ, token.GEQ:
			default:
				return true
			}
			hasStatSize := func(e ast.Expr) bool {
				found := false
				ast.Inspect(e, func(x ast.Node) bool {
					if call, ok := x.(*ast.CallExpr); ok {
						if sel, ok := ast.Unparen(call.Fun).(*ast.SelectorExpr); ok && sel.Sel.Name == "Size" && len(call.Args) == 0 {
							if t := info.TypeOf(sel.X); t != nil && strings.HasSuffix(types.Unalias(t).String(), "fs.FileInfo") {
								found = true
							}
						}
					}
					return true
				})
				return found
			}
			hasAnnounced := func(e ast.Expr) bool {
				found := false
				ast.Inspect(e, func(x ast.Node) bool {
					if sel, ok := x.(*ast.SelectorExpr); ok && sel.Sel.Name == "FileSize" {
						if t := info.TypeOf(sel.X); t != nil && strings.HasSuffix(strings.TrimPrefix(t.String(), "*"), "transfer.FileBegin") {
							found = true
						}
					}
					return true
				})
				return found
			}
			if !((hasStatSize(be.X) && hasAnnounced(be.Y)) || (hasStatSize(be.Y) && hasAnnounced(be.X))) {
				return true
			}
			k++
			n++
			key := fmt.Sprintf("intact-size/%s#%d", f.Name, k)
			if be.Op == token.EQL || be.Op == token.NEQ {
				c.OK(key, be.Pos(), "the size of the file on disk is compared with the announced size for equality")
			} else {
				c.Bad(key, be.Pos(), f.Name+" compares the size of the file on disk with the announced size by `"+types.ExprString(be)+"`: a file of another length than the one the metadata describe counts as intact - "+
					"its stale metadata are reported, the sender skips the recorded chunks, Truncate fixes the length, and both sides report success over foreign bytes")
			}
			return true
		})
	}
	if n == 0 {
		c.Bad("intact-size/none", token.NoPos, "found no comparison of a stat'ed size with FileBegin.FileSize in internal/transfer")
	}
}

func runTurnSecretDecoded(c *Ctx) {
	p := c.P
	f := p.Func("ice.parseTurnServer")
	if f == nil {
		c.MissingAnchor("ice.parseTurnServer")
		return
	}
	info := f.Info()
	isUserinfo := func(e ast.Expr) bool {
		t := info.TypeOf(e)
		return t != nil && strings.HasSuffix(strings.TrimPrefix(t.String(), "*"), "net/url.Userinfo")
	}
	isURL := func(e ast.Expr) bool {
		t := info.TypeOf(e)
		return t != nil && strings.HasSuffix(strings.TrimPrefix(t.String(), "*"), "net/url.URL")
	}
	nPwd, bad := 0, 0
	ast.Inspect(f.Body, func(m ast.Node) bool {
		switch v := m.(type) {
		case *ast.AssignStmt:
			if len(v.Rhs) != 1 {
				return true
			}
			call, ok := ast.Unparen(v.Rhs[0]).(*ast.CallExpr)
			if !ok {
				return true
			}
			sel, ok := ast.Unparen(call.Fun).(*ast.SelectorExpr)
			if !ok || sel.Sel.Name != "Password" || !isUserinfo(sel.X) {
				return true
			}
			nPwd++
			if id, ok := v.Lhs[0].(*ast.Ident); ok && id.Name == "_" {
				bad++
				c.Bad(fmt.Sprintf("turn-secret/password#%d", nPwd), v.Pos(), "parseTurnServer discards the decoded secret of "+types.ExprString(call)+": whatever it uses instead is not what the server minted")
			}
		case *ast.CallExpr:
			sel, ok := ast.Unparen(v.Fun).(*ast.SelectorExpr)
			if !ok {
				return true
			}
			if (sel.Sel.Name == "String" && (isUserinfo(sel.X) || isURL(sel.X))) || (sel.Sel.Name == "EscapedPath" && isURL(sel.X)) {
				bad++
				c.Bad("turn-secret/escaped-form", v.Pos(), "parseTurnServer reads "+types.ExprString(v)+", the escaped form of the URL: a credential cut out of it keeps its %2F and %3D where the server minted '/' and '=' - the relay refuses the allocation and the client goes on without a relay")
			}
		}
		return true
	})
	if nPwd == 0 {
		c.Bad("turn-secret/password", f.Pos(), "parseTurnServer never asks (*url.Userinfo).Password() for the decoded secret")
	} else if bad == 0 {
		c.OK("turn-secret/decoded", f.Pos(), "the secret is the decoded result of Userinfo.Password(); no escaped form of the URL is read")
	}
}

// ---- round 16 ----

func init() {
	Register(&Rule{
		Name:  "R-CONTROL-ERROR-VERBATIM",
		Props: []string{"C02"},
		Min:   1,
		Doc: "the end of the control stream is an error until the End record says otherwise: in the closures of RecvManifestMultiStream the error of readControlMessage is never assigned (`err = nil`) before it is handed on - " +
			"both readers of the control-error channel return what they receive; a clean EOF between two records turned into nil makes the receiver report success with files missing when the sender ends its stream early",
		Run: runControlErrorVerbatim,
	})
	Register(&Rule{
		Name:  "R-REMOVE-REACHES-CLEANUP",
		Props: []string{"C11"},
		Min:   1,
		Doc: "a leave always reaches the clean-up of the empty session: the function returned by Hub.removeFunc has no return inside a clause of a select (the bounded wait for the writer falls through on its timeout) - " +
			"returning from the timeout clause skips the deletion of the session's map entries whenever the last peer leaves with its writer stuck in a send: routing state of an empty session stays for ever",
		Run: runRemoveReachesCleanup,
	})
	Register(&Rule{
		Name:  "R-LEAVER-STATUS-UNCONDITIONAL",
		Props: []string{"C12"},
		Min:   1,
		Doc: "a receiver that leaves is not waiting any more, slot or no slot: in handlePeerLeft the assignment Status = FAILED is not nested under a test of the active map or of a slot - " +
			"a queued receiver that leaves is taken off the queue; with its status left at QUEUED it is exempt from the clean-up, shows as waiting without having accepted when it returns, and status and queue disagree",
		Run: runLeaverStatusUnconditional,
	})
	Register(&Rule{
		Name:  "R-ONE-CLASSIFIER",
		Props: []string{"C03"},
		Min:   2,
		Doc: "a file has one size class: in internal/scheduler the class thresholds of the configuration are compared with a run-time size in classForRemaining only - " +
			"a second, hand-written classification (`remaining < SmallThreshold` next to `<=`) disagrees at the boundary: a file of exactly the threshold is small for one selector and not small for the other, Next never hands it out, its FileBegin is never sent and both peers wait",
		Run: runOneClassifier,
	})
}

func runControlErrorVerbatim(c *Ctx) {
	p := c.P
	root := p.Func("transfer.RecvManifestMultiStream")
	if root == nil {
		c.MissingAnchor("transfer.RecvManifestMultiStream")
		return
	}
	n := 0
	var visit func(f *FuncInfo)
	visit = func(f *FuncInfo) {
		for _, k := range f.Kids {
			visit(k)
		}
		info := f.Info()
		var errObjs []types.Object
		InspectNoLits(f.Body, func(m ast.Node) bool {
			as, ok := m.(*ast.AssignStmt)
			if !ok || len(as.Rhs) != 1 {
				return true
			}
			call, ok := ast.Unparen(as.Rhs[0]).(*ast.CallExpr)
			if !ok {
				return true
			}
			if callee := p.CalleeInfo(info, call); callee != nil && callee.Name == "transfer.readControlMessage" && len(as.Lhs) > 0 {
				if o := ObjOf(info, as.Lhs[len(as.Lhs)-1]); o != nil {
					errObjs = append(errObjs, o)
				}
			}
			return true
		})
		for _, eo := range errObjs {
			n++
			bad := false
			InspectNoLits(f.Body, func(m ast.Node) bool {
				as, ok := m.(*ast.AssignStmt)
				if !ok || as.Tok != token.ASSIGN {
					return true
				}
				for i, l := range as.Lhs {
					if ObjOf(info, l) != eo || i >= len(as.Rhs) {
						continue
					}
					if id, ok := ast.Unparen(as.Rhs[i]).(*ast.Ident); ok && id.Name == "nil" {
						bad = true
						c.Bad(fmt.Sprintf("control-error/%s#%d", f.Name, n), as.Pos(), f.Name+" sets the error of readControlMessage to nil before handing it on: the readers of the control-error channel return what they receive, "+
							"so a sender that ends its control stream at a record boundary before every file is complete makes the receiver report success with files missing")
					}
				}
				return true
			})
			if !bad {
				c.OK(fmt.Sprintf("control-error/%s#%d", f.Name, n), f.Pos(), "the error of readControlMessage is handed on as it is")
			}
		}
	}
	visit(root)
	if n == 0 {
		c.Bad("control-error/none", root.Pos(), "found no call of readControlMessage in the closures of RecvManifestMultiStream")
	}
}

func runRemoveReachesCleanup(c *Ctx) {
	p := c.P
	f := p.Func("peers.(*Hub).removeFunc")
	if f == nil {
		c.MissingAnchor("peers.(*Hub).removeFunc")
		return
	}
	n := 0
	for _, lit := range f.Kids {
		n++
		bad := false
		InspectNoLits(lit.Body, func(m ast.Node) bool {
			rs, ok := m.(*ast.ReturnStmt)
			if !ok {
				return true
			}
			for _, anc := range pathTo(lit.Body, rs) {
				if _, ok := anc.(*ast.CommClause); ok {
					bad = true
					c.Bad(fmt.Sprintf("remove-cleanup/lit#%d", n), rs.Pos(), "the remove function returns from a clause of its select: when the wait for the writer ends that way the deletion of the empty session behind it never runs - "+
						"the last peer of a session leaving with its writer stuck in a send leaves the session's entries in both maps for ever")
				}
			}
			return true
		})
		if !bad {
			c.OK(fmt.Sprintf("remove-cleanup/lit#%d", n), lit.Pos(), "no return inside a select clause of the remove function: every wait falls through to the clean-up")
		}
	}
	if n == 0 {
		c.Unknown("remove-cleanup/lit", f.Pos(), "Hub.removeFunc returns no function literal")
	}
}

func runLeaverStatusUnconditional(c *Ctx) {
	p := c.P
	f := p.Func("app.(*SnapshotSender).handlePeerLeft")
	if f == nil {
		c.MissingAnchor("app.(*SnapshotSender).handlePeerLeft")
		return
	}
	info := f.Info()
	n := 0
	InspectNoLits(f.Body, func(m ast.Node) bool {
		as, ok := m.(*ast.AssignStmt)
		if !ok || len(as.Lhs) != 1 || len(as.Rhs) != 1 {
			return true
		}
		sel, ok := ast.Unparen(as.Lhs[0]).(*ast.SelectorExpr)
		if !ok || sel.Sel.Name != "Status" {
			return true
		}
		if id, ok := ast.Unparen(as.Rhs[0]).(*ast.Ident); !ok || id.Name != "ReceiverStatusFailed" {
			return true
		}
		n++
		key := fmt.Sprintf("leaver-status/assign#%d", n)
		nested := ""
		for _, anc := range pathTo(f.Body, as) {
			is, ok := anc.(*ast.IfStmt)
			if !ok {
				continue
			}
			check := func(nd ast.Node) {
				if nd == nil {
					return
				}
				ast.Inspect(nd, func(k ast.Node) bool {
					if s, ok := k.(*ast.SelectorExpr); ok && s.Sel.Name == "active" {
						nested = types.ExprString(is.Cond)
					}
					if id, ok := k.(*ast.Ident); ok {
						if o := info.Uses[id]; o != nil && strings.Contains(o.Type().String(), "transferSlot") {
							nested = types.ExprString(is.Cond)
						}
					}
					return true
				})
			}
			check(is.Init)
			check(is.Cond)
		}
		if nested == "" {
			c.OK(key, as.Pos(), "handlePeerLeft marks the leaver FAILED whether or not it holds a slot")
		} else {
			c.Bad(key, as.Pos(), "handlePeerLeft marks a leaver FAILED only under `"+nested+"`, a test of the active map: a receiver that leaves while it waits in the queue is taken off the queue with its status left at QUEUED - "+
				"exempt from the clean-up, shown as waiting without having accepted when it returns")
		}
		return true
	})
	if n == 0 {
		c.Bad("leaver-status/none", f.Pos(), "handlePeerLeft no longer assigns Status = ReceiverStatusFailed")
	}
}

func runOneClassifier(c *Ctx) {
	p := c.P
	n := 0
	for _, f := range p.FuncsIn("internal/scheduler") {
		if f.Body == nil || strings.HasSuffix(p.Fset.Position(f.Pos()).Filename, "_test.go") {
			continue
		}
		info := f.Info()
		k := 0
		InspectNoLits(f.Body, func(m ast.Node) bool {
			be, ok := m.(*ast.BinaryExpr)
			if !ok {
				return true
			}
			switch be.Op {
			case token.LSS, token.LEQ, token.GTR, token.GEQ, token.EQL, token.NEQ:
			default:
				return true
			}
			isThr := func(e ast.Expr) bool {
				s, ok := ast.Unparen(e).(*ast.SelectorExpr)
				return ok && strings.HasSuffix(s.Sel.Name, "Threshold")
			}
			var other ast.Expr
			if isThr(be.X) {
				other = be.Y
			} else if isThr(be.Y) {
				other = be.X
			} else {
				return true
			}
			if tv, ok := info.Types[other]; ok && tv.Value != nil {
				return true // a default for an unset option
			}
			k++
			n++
			key := fmt.Sprintf("one-classifier/%s#%d", f.Name, k)
			if strings.HasSuffix(f.Name, ".classForRemaining") {
				c.OK(key, be.Pos(), "a class threshold is compared with a size in classForRemaining")
			} else {
				c.Bad(key, be.Pos(), f.Name+" classifies by `"+types.ExprString(be)+"` outside classForRemaining: a second classification that can disagree with the first at the boundary - "+
					"a file of exactly the threshold belongs to one class for the weighted selector and to another for the class selector, is never handed out, and both peers wait for it")
			}
			return true
		})
	}
	if n == 0 {
		c.Bad("one-classifier/none", token.NoPos, "found no comparison of a class threshold with a size in internal/scheduler")
	}
}
