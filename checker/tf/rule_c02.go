package tf

import (
	"fmt"
	"go/ast"
	"go/token"
	"go/types"
	"strings"

	"golang.org/x/tools/go/cfg"
)

func init() {
	Register(&Rule{
		Name:  "R-SUCCESS-GATE",
		Props: []string{"C02", "C01", "C03"},
		Min:   10,
		Doc: "(a) receiver: every variable compared with the file total in a condition that guards `return m, nil` of RecvManifestMultiStream is incremented only on paths where the per-file outcome parameter is true; " +
			"(b) sender: `return nil` of SendManifestMultiStream passes transferErr == nil and acknowledged >= totalFiles, and the acknowledged counter is incremented only past fileDone.OK; " +
			"(c) every use of isGracefulRemoteClose(err) is a conjunct of `&& <all files complete>`; (d) every finalizeFile(state, false, ...) is followed on all paths by delivery of the error to the receive loop, " +
			"and a FileDone{ok=false} on the sender reaches setErr on all paths",
		Run: runSuccessGate,
	})
	Register(&Rule{
		Name:  "R-ESCAPE",
		Props: []string{"C02", "C03"},
		Min:   20,
		Doc: "every select without a default arm in internal/transfer has an arm on a context's Done(), a timer, or a done channel (chan struct{}) (so every wait has an exit tied to cancellation or time); " +
			"blocking stream/registry waits in Send/RecvManifestMultiStream receive a context derived from the function's own ctx, never context.Background()",
		Run: runEscape,
	})
	Register(&Rule{
		Name:  "R-NO-STUCK-WAIT",
		Props: []string{"C03", "C04"},
		Min:   6,
		Doc: "known deadlock shapes of the multiplexed receiver: (VISIBLE) RecvManifestMultiStream performs no blocking AcceptStream on its own goroutine other than the control stream's (QUIC shows a stream to the acceptor only after the opener wrote on it, " +
			"and the sender writes on a data stream only when it has a chunk for it); (ORPHAN) every fileReady.wait is reached only after the set of completed files was consulted for that key and the completed case was diverted; " +
			"(ZERO) nextChunkToSend returns ok=false only with scheduleDone established (a file without chunks still reaches FileEnd); the receiver finalises exactly on the true result of markEndReceived / markChunkComplete",
		Run: runNoStuckWait,
	})
	Register(&Rule{
		Name:  "R-SANITIZER",
		Props: []string{"C07", "C03", "C18"},
		Min:   6,
		Doc: "validateRelPath rejects absolute paths (filepath.IsAbs / !IsLocal leading to the error), parent references by a per-segment test (segment == \"..\" over a split on separators, or !IsLocal) - a substring test for \"..\" is refused because it rejects legal names - " +
			"the empty path, and paths longer than maxRelPathLength; the stream-side reader bounds the path length by the same constant; validateFilename rejects separators, \".\" and \"..\" and the empty name",
		Run: runSanitizer,
	})
}

func runSuccessGate(c *Ctx) {
	p := c.P
	recv := p.Func("transfer.RecvManifestMultiStream")
	send := p.Func("transfer.SendManifestMultiStream")
	if recv == nil || send == nil {
		c.MissingAnchor("transfer.RecvManifestMultiStream / SendManifestMultiStream")
		return
	}
	var all func(f *FuncInfo) []*FuncInfo
	all = func(f *FuncInfo) []*FuncInfo {
		out := []*FuncInfo{f}
		for _, k := range f.Kids {
			out = append(out, all(k)...)
		}
		return out
	}
	// ---- (a) receiver
	{
		info := recv.Info()
		cfg := recv.CFG()
		// success returns: `return m, nil`
		counters := map[types.Object]bool{}
		needsFiles := map[*ast.ReturnStmt]string{}
		nret := 0
		for _, b := range cfg.Blocks {
			ret, ok := IsReturnExit(b)
			if !ok || len(ret.Results) != 2 || types.ExprString(ret.Results[1]) != "nil" {
				continue
			}
			nret++
			// conditions that hold at this return: walk dominating condition blocks
			for _, cb := range cfg.Blocks {
				cond, t, f2, okc := CondEdges(cb)
				if !okc {
					continue
				}
				for _, edge := range []struct {
					succ bool
					val  bool
				}{{cfg.BlockDominates(t, b) && !cfg.BlockDominates(f2, b), true}, {cfg.BlockDominates(f2, b) && !cfg.BlockDominates(t, b), false}} {
					if !edge.succ {
						continue
					}
					for _, a := range Implied(ExpandPred(p, recv, cond, 3), edge.val) {
						if be, ok := a.E.(*ast.BinaryExpr); ok {
							switch be.Op {
							case token.GEQ, token.LSS, token.EQL, token.NEQ, token.GTR, token.LEQ:
								// `total > 0` as a condition of success: an empty or directory-only tree could never complete
								if a.Val && (be.Op == token.GTR || be.Op == token.NEQ) {
									if z, isC := constInt(info, be.Y); isC && z == 0 {
										isLen := false
										for _, d := range resolveExprs(recv, be.X, 1) {
											if call, ok := ast.Unparen(d).(*ast.CallExpr); ok {
												if id, ok := ast.Unparen(call.Fun).(*ast.Ident); ok && id.Name == "len" {
													isLen = true
												}
											}
										}
										if isLen {
											needsFiles[ret] = types.ExprString(be)
										}
									}
								}
								if o, ok := ObjOf(info, be.X).(*types.Var); ok && !o.IsField() && isIntType(o.Type()) {
									// the other side must be the file total: a variable defined as len(<collection>)
									isTotal := false
									for _, d := range resolveExprs(recv, be.Y, 1) {
										if call, ok := ast.Unparen(d).(*ast.CallExpr); ok {
											if id, ok := ast.Unparen(call.Fun).(*ast.Ident); ok && id.Name == "len" {
												isTotal = true
											}
										}
									}
									if isTotal {
										counters[o] = true
									}
								}
							}
						}
					}
				}
			}
		}
		if nret == 0 || len(counters) == 0 {
			c.Unknown("receiver/success-condition", recv.Pos(), "cannot find a counter compared with the file total on the way to `return m, nil`")
		}
		// every success return is reachable only with counter >= total established
		complete := &PassSpec{Vias: []Via{{Cond: func(g *FuncInfo, e ast.Expr) (string, bool, bool) {
			if _, isCall := ast.Unparen(e).(*ast.CallExpr); isCall {
				// a predicate helper: true implies every conjunct of its (inlined) body
				for _, a := range Implied(ExpandPred(p, g, e, 3), true) {
					if b2, ok := a.E.(*ast.BinaryExpr); ok && a.Val && (b2.Op == token.GEQ || b2.Op == token.EQL) {
						if o, _ := ObjOf(g.Info(), b2.X).(*types.Var); o != nil && counters[o] {
							return "all-complete", true, true
						}
					}
				}
				return "", false, false
			}
			be, ok := ast.Unparen(e).(*ast.BinaryExpr)
			if !ok {
				return "", false, false
			}
			o, _ := ObjOf(g.Info(), be.X).(*types.Var)
			if o == nil || !counters[o] {
				return "", false, false
			}
			isTotal := false
			for _, d := range resolveExprs(g, be.Y, 1) {
				if call, ok := ast.Unparen(d).(*ast.CallExpr); ok {
					if id, ok := ast.Unparen(call.Fun).(*ast.Ident); ok && id.Name == "len" {
						isTotal = true
					}
				}
			}
			if !isTotal {
				return "", false, false
			}
			switch be.Op {
			case token.GEQ, token.EQL:
				return "all-complete", true, true
			case token.LSS, token.NEQ:
				return "all-complete", false, true
			}
			return "", false, false
		}}}}
		kret := 0
		for _, b := range cfg.Blocks {
			ret, ok := IsReturnExit(b)
			if !ok || len(ret.Results) != 2 || types.ExprString(ret.Results[1]) != "nil" {
				continue
			}
			kret++
			c.Check(needsFiles[ret] == "", fmt.Sprintf("receiver/return-nil#%d/empty-tree-ok", kret), ret.Pos(), "success does not require a non-empty file list",
				"this success return additionally requires "+needsFiles[ret]+": for an empty manifest or a directory-only tree the receiver can never report success although the sender does")
			c.Check(complete.Passed(recv, NodeRef{b, len(b.Nodes) - 1}, "all-complete"), fmt.Sprintf("receiver/return-nil#%d/all-complete", kret), ret.Pos(),
				"success is returned only with the completed-file counter at the file total", "RecvManifestMultiStream returns success on a path where the completed-file counter was not compared with the file total: an End record, a graceful close or a drained channel alone reports success for an incomplete tree")
		}
		n := 0
		for _, f := range all(recv) {
			fi := f.Info()
			okParam := map[types.Object]bool{}
			for _, fld := range f.Type.Params.List {
				for _, nm := range fld.Names {
					if o := fi.Defs[nm]; o != nil && isBool(o.Type()) {
						okParam[o] = true
					}
				}
			}
			spec := &PassSpec{Vias: []Via{{Cond: func(g *FuncInfo, e ast.Expr) (string, bool, bool) {
				if o := ObjOf(g.Info(), e); o != nil && okParam[o] {
					return "outcome-ok", true, true
				}
				return "", false, false
			}}}}
			f.CFG().EachNode(func(r NodeRef) {
				for _, o := range AssignedObjs(fi, r.Node()) {
					if !counters[o] {
						continue
					}
					// initialisation `x := 0` is not an increment
					if as, ok := r.Node().(*ast.AssignStmt); ok && as.Tok == token.DEFINE {
						continue
					}
					if _, ok := r.Node().(*ast.DeclStmt); ok {
						continue
					}
					n++
					c.Check(spec.Passed(f, r, "outcome-ok"), fmt.Sprintf("receiver/counted-only-ok/%s#%d", f.Name, n), r.Node().Pos(),
						o.Name()+" is advanced only when the file's outcome is ok", "the success condition of RecvManifestMultiStream compares "+o.Name()+" with the file total, and "+o.Name()+" is advanced here regardless of the per-file outcome: a file that failed (bad checksum, write error) still counts and the receiver can report success for a wrong tree")
				}
			})
		}
	}
	// ---- (b) sender
	{
		info := send.Info()
		cfg := send.CFG()
		var ackObj types.Object // completedCount
		for _, f := range all(send) {
			fi := f.Info()
			f.CFG().EachNode(func(r NodeRef) {
				if s, ok := r.Node().(*ast.IncDecStmt); ok && s.Tok == token.INC {
					if o := ObjOf(fi, s.X); o != nil && strings.Contains(strings.ToLower(o.Name()), "completed") {
						ackObj = o
					}
				}
			})
		}
		derivedFromAck := func(e ast.Expr) bool {
			for _, x := range resolveExprs(send, e, 2) {
				if o := ObjOf(info, x); o != nil && o == ackObj {
					return true
				}
			}
			return false
		}
		spec := &PassSpec{Vias: []Via{
			{Cond: func(g *FuncInfo, e ast.Expr) (string, bool, bool) {
				if o, nilOnTrue, ok := NilTest(g.Info(), e); ok && isErrorType(o.Type()) && strings.Contains(strings.ToLower(o.Name()), "err") {
					return "no-transfer-error:" + o.Name(), nilOnTrue, true
				}
				return "", false, false
			}},
			{Cond: func(g *FuncInfo, e ast.Expr) (string, bool, bool) {
				be, ok := ast.Unparen(e).(*ast.BinaryExpr)
				if !ok {
					return "", false, false
				}
				if derivedFromAck(be.X) {
					switch be.Op {
					case token.LSS:
						return "all-acknowledged", false, true
					case token.GEQ:
						return "all-acknowledged", true, true
					}
				}
				return "", false, false
			}},
		}}
		k := 0
		for _, b := range cfg.Blocks {
			ret, ok := IsReturnExit(b)
			if !ok || len(ret.Results) != 1 || types.ExprString(ret.Results[0]) != "nil" {
				continue
			}
			k++
			ref := NodeRef{b, len(b.Nodes) - 1}
			hasErr := false
			for _, id := range spec.PassedList(send, ref) {
				if strings.HasPrefix(id, "no-transfer-error:transferErr") {
					hasErr = true
				}
			}
			c.Check(hasErr, fmt.Sprintf("sender/return-nil#%d/no-error", k), ret.Pos(), "success only with transferErr == nil", "SendManifestMultiStream returns nil without testing the recorded transfer error")
			c.Check(spec.Passed(send, ref, "all-acknowledged"), fmt.Sprintf("sender/return-nil#%d/all-acknowledged", k), ret.Pos(), "success only when the acknowledged-file count reached the file total",
				"SendManifestMultiStream returns nil without testing that every file was acknowledged: its workers also stop on context cancellation, which records no error, so a cancelled or starved sender reports success for a receiver that confirmed nothing")
		}
		if k == 0 {
			c.Unknown("sender/return-nil", send.Pos(), "no `return nil` found")
		}
		// acknowledged counter only past fileDone.OK
		n := 0
		for _, f := range all(send) {
			fi := f.Info()
			okSpec := &PassSpec{Vias: []Via{{Cond: func(g *FuncInfo, e ast.Expr) (string, bool, bool) {
				if sel, ok := ast.Unparen(e).(*ast.SelectorExpr); ok && sel.Sel.Name == "OK" && strings.HasSuffix(g.Info().TypeOf(sel.X).String(), "FileDone") {
					return "file-ok", true, true
				}
				return "", false, false
			}}}}
			f.CFG().EachNode(func(r NodeRef) {
				if s, ok := r.Node().(*ast.IncDecStmt); ok && s.Tok == token.INC && ObjOf(fi, s.X) == ackObj && ackObj != nil {
					n++
					c.Check(okSpec.Passed(f, r, "file-ok"), fmt.Sprintf("sender/ack-counted-only-ok/%s#%d", f.Name, n), s.Pos(), "a file counts as acknowledged only past FileDone.OK", "the sender counts a file as acknowledged without FileDone.OK being true")
				}
			})
			// !fileDone.OK reaches setErr
			f.CFG().EachNode(func(r NodeRef) {
				cond, t, _, okc := CondEdges(r.B)
				if !okc || r.I != len(r.B.Nodes)-1 {
					return
				}
				u, ok := ast.Unparen(cond).(*ast.UnaryExpr)
				if !ok || u.Op != token.NOT {
					return
				}
				sel, ok := ast.Unparen(u.X).(*ast.SelectorExpr)
				if !ok || sel.Sel.Name != "OK" || !strings.HasSuffix(fi.TypeOf(sel.X).String(), "FileDone") {
					return
				}
				hit := allPathsHit(f.CFG(), NodeRef{t, -1}, func(nd ast.Node) bool {
					h := false
					InspectNoLits(nd, func(m ast.Node) bool {
						if call, ok := m.(*ast.CallExpr); ok {
							if g := p.CalleeInfo(fi, call); g != nil && strings.HasSuffix(g.Name, "$setErr") {
								h = true
							}
						}
						return true
					})
					return h
				}, func(ast.Node) bool { return false })
				c.Check(hit, "sender/failed-file-sets-error/"+f.Name, cond.Pos(), "a FileDone with ok=false always reaches setErr", "a receiver-reported file failure does not always set the transfer error: the sender can still report success")
			})
		}
	}
	// ---- (c) graceful close only together with completion
	grace := p.Func("transfer.isGracefulRemoteClose")
	if grace == nil {
		c.MissingAnchor("transfer.isGracefulRemoteClose")
	} else {
		n := 0
		for _, f := range p.FuncsIn("internal/transfer") {
			fi := f.Info()
			f.CFG().EachNode(func(r NodeRef) {
				e, isExpr := r.Node().(ast.Expr)
				if !isExpr {
					return
				}
				var call *ast.CallExpr
				ast.Inspect(e, func(m ast.Node) bool {
					if c2, ok := m.(*ast.CallExpr); ok && p.CalleeInfo(fi, c2) == grace {
						call = c2
					}
					return true
				})
				if call == nil {
					return
				}
				n++
				key := fmt.Sprintf("graceful/%s#%d", f.Name, n)
				okShape := false
				if be, ok := ast.Unparen(e).(*ast.BinaryExpr); ok && be.Op == token.LAND {
					// other conjunct: a comparison >= / a call to allFilesCompleted
					// predicate helpers are inlined: the other conjunct must contain a `counter >= total` comparison
					for _, a := range Implied(ExpandPred(p, f, e, 3), true) {
						if a.E == ast.Expr(call) {
							continue
						}
						if b2, ok := a.E.(*ast.BinaryExpr); ok && (b2.Op == token.GEQ || b2.Op == token.EQL) && a.Val {
							okShape = true
						}
					}
				}
				c.Check(okShape, key, call.Pos(), "a graceful remote close is treated as success only in conjunction with 'all files complete'",
					"isGracefulRemoteClose(err) decides success on its own (not `&& all files complete`): a peer that closes the connection early makes the receiver report success for an incomplete tree")
			})
		}
	}
	// ---- (d) failed finalisation is reported to the receive loop
	{
		n := 0
		for _, f := range all(recv) {
			fi := f.Info()
			cfg := f.CFG()
			cfg.Calls(func(r NodeRef, call *ast.CallExpr) {
				g := p.CalleeInfo(fi, call)
				if g == nil || !strings.HasSuffix(g.Name, "$finalizeFile") || len(call.Args) < 2 || types.ExprString(call.Args[1]) != "false" {
					return
				}
				n++
				hit := allPathsHit(cfg, r, func(nd ast.Node) bool {
					if ss, ok := nd.(*ast.SendStmt); ok && strings.Contains(strings.ToLower(types.ExprString(ss.Chan)), "err") && types.ExprString(ss.Value) != "nil" {
						return true
					}
					h := false
					InspectNoLits(nd, func(m ast.Node) bool {
						if c2, ok := m.(*ast.CallExpr); ok {
							if g2 := p.CalleeInfo(fi, c2); g2 != nil && strings.HasSuffix(g2.Name, "$setRecvErr") {
								h = true
							}
						}
						return true
					})
					return h
				}, func(ast.Node) bool { return false })
				c.Check(hit, fmt.Sprintf("receiver/failure-reported/%s#%d", f.Name, n), call.Pos(), "after finalizeFile(state, false, ...) the error is always handed to the receive loop",
					"a file is finalised as failed without handing the error to the receive loop on every path: the loop keeps waiting or ends on an unrelated event")
			})
		}
		if n == 0 {
			c.Unknown("receiver/failure-reported", recv.Pos(), "no finalizeFile(state, false, ...) call found")
		}
	}
}

func isIntType(t types.Type) bool {
	b, ok := t.Underlying().(*types.Basic)
	return ok && b.Info()&types.IsInteger != 0
}

func runEscape(c *Ctx) {
	p := c.P
	for _, f := range p.FuncsIn("internal/transfer") {
		if strings.HasPrefix(f.Root().Name, "transfer.(*mock") || strings.HasPrefix(f.Root().Name, "transfer.NewMock") || strings.HasPrefix(f.Root().Name, "transfer.newMock") {
			continue
		}
		info := f.Info()
		n := 0
		InspectNoLits(f.Body, func(nd ast.Node) bool {
			if _, ok := nd.(*ast.FuncLit); ok {
				return false
			}
			sl, ok := nd.(*ast.SelectStmt)
			if !ok {
				return true
			}
			hasDefault, hasExit := false, false
			for _, cl := range sl.Body.List {
				cc := cl.(*ast.CommClause)
				if cc.Comm == nil {
					hasDefault = true
					continue
				}
				var rx ast.Expr
				switch s := cc.Comm.(type) {
				case *ast.ExprStmt:
					if u, ok := ast.Unparen(s.X).(*ast.UnaryExpr); ok && u.Op == token.ARROW {
						rx = u.X
					}
				case *ast.AssignStmt:
					if len(s.Rhs) == 1 {
						if u, ok := ast.Unparen(s.Rhs[0]).(*ast.UnaryExpr); ok && u.Op == token.ARROW {
							rx = u.X
						}
					}
				}
				if rx == nil {
					continue
				}
				if call, ok := ast.Unparen(rx).(*ast.CallExpr); ok {
					if calleeIs(info, call, "context", "Context.Done") || calleeIs(info, call, "time", "After") {
						hasExit = true
					}
				}
				if ct, ok := info.TypeOf(rx).Underlying().(*types.Chan); ok {
					if st, ok := ct.Elem().Underlying().(*types.Struct); ok && st.NumFields() == 0 {
						hasExit = true // a done/close channel (chan struct{})
					}
				}
				if sel, ok := ast.Unparen(rx).(*ast.SelectorExpr); ok && sel.Sel.Name == "C" {
					if t := info.TypeOf(sel.X); t != nil && (strings.HasSuffix(t.String(), "time.Timer") || strings.HasSuffix(t.String(), "time.Ticker")) {
						hasExit = true
					}
				}
			}
			if hasDefault {
				return true
			}
			n++
			c.Check(hasExit, fmt.Sprintf("select/%s#%d", f.Name, n), sl.Pos(), "blocking select has a context/timer arm", "a select without default has no arm on a context's Done() or a timer: after a fault this wait never ends")
			return true
		})
	}
	// contexts handed to blocking waits derive from the function's ctx
	for _, root := range []string{"transfer.SendManifestMultiStream", "transfer.RecvManifestMultiStream"} {
		rf := p.Func(root)
		if rf == nil {
			c.MissingAnchor(root)
			continue
		}
		var ctxParam types.Object
		for _, fld := range rf.Type.Params.List {
			for _, nm := range fld.Names {
				if strings.HasSuffix(rf.Info().TypeOf(fld.Type).String(), "context.Context") {
					ctxParam = rf.Info().Defs[nm]
				}
			}
		}
		var visit func(f *FuncInfo)
		n := 0
		visit = func(f *FuncInfo) {
			info := f.Info()
			f.CFG().Calls(func(r NodeRef, call *ast.CallExpr) {
				sel, ok := ast.Unparen(call.Fun).(*ast.SelectorExpr)
				if !ok || len(call.Args) == 0 {
					return
				}
				switch sel.Sel.Name {
				case "AcceptStream", "OpenStream", "wait", "waitReady":
				default:
					return
				}
				if t := info.TypeOf(call.Args[0]); t == nil || !strings.HasSuffix(t.String(), "context.Context") {
					return
				}
				n++
				key := fmt.Sprintf("ctx/%s#%d/%s", f.Name, n, sel.Sel.Name)
				c.Check(derivesFromCtx(f, call.Args[0], ctxParam, 6), key, call.Pos(), "blocking wait receives a context derived from the caller's ctx",
					"a blocking "+sel.Sel.Name+" is given a context that does not derive from the function's ctx ("+types.ExprString(call.Args[0])+"): cancelling the transfer does not end this wait")
			})
			for _, k := range f.Kids {
				visit(k)
			}
		}
		visit(rf)
	}
}

// derivesFromCtx: e is the ctx parameter, a parameter of a closure (named ctx-typed: judged at its call sites is out of scope: accepted
// only if the closure's own parameter is fed from a derived ctx), or a variable defined by context.WithCancel/WithTimeout/WithDeadline(parent) with parent derived.
func derivesFromCtx(f *FuncInfo, e ast.Expr, ctxParam types.Object, depth int) bool {
	if depth == 0 {
		return false
	}
	info := f.Info()
	if call, ok := ast.Unparen(e).(*ast.CallExpr); ok {
		if calleeIs(info, call, "context", "Background") || calleeIs(info, call, "context", "TODO") {
			return false
		}
	}
	o := ObjOf(info, e)
	if o == nil {
		return false
	}
	if o == ctxParam {
		return true
	}
	// defined in f or an enclosing function
	for g := f; g != nil; g = g.Parent {
		gi := g.Info()
		found, ok := false, true
		InspectNoLits(g.Body, func(nd ast.Node) bool {
			as, isAs := nd.(*ast.AssignStmt)
			if !isAs || len(as.Rhs) != 1 {
				return true
			}
			for _, l := range as.Lhs {
				if ObjOf(gi, l) != o {
					continue
				}
				found = true
				call, isCall := ast.Unparen(as.Rhs[0]).(*ast.CallExpr)
				if isCall && (calleeIs(gi, call, "context", "WithCancel") || calleeIs(gi, call, "context", "WithTimeout") || calleeIs(gi, call, "context", "WithDeadline")) {
					if !derivesFromCtx(g, call.Args[0], ctxParam, depth-1) {
						ok = false
					}
				} else if !derivesFromCtx(g, as.Rhs[0], ctxParam, depth-1) {
					ok = false
				}
			}
			return true
		})
		if found {
			return ok
		}
		// parameter of this closure: all call sites must pass a derived ctx
		for _, fld := range g.Type.Params.List {
			for i, nm := range fld.Names {
				_ = i
				if gi.Defs[nm] == o && g.Lit != nil {
					sites := g.Prog.activationSites(g)
					if len(sites) == 0 {
						return false
					}
					all := true
					for _, st := range sites {
						okSite := false
						InspectNoLits(st.ref.Node(), func(m ast.Node) bool {
							if call, isC := m.(*ast.CallExpr); isC && g.Prog.CalleeInfo(st.f.Info(), call) == g {
								// position of the parameter
								idx := 0
								k := 0
								for _, f2 := range g.Type.Params.List {
									for _, n2 := range f2.Names {
										if gi.Defs[n2] == o {
											idx = k
										}
										k++
									}
								}
								if idx < len(call.Args) && derivesFromCtx(st.f, call.Args[idx], ctxParam, depth-1) {
									okSite = true
								}
							}
							return true
						})
						if !okSite {
							all = false
						}
					}
					return all
				}
			}
		}
	}
	return false
}

func runNoStuckWait(c *Ctx) {
	p := c.P
	recv := p.Func("transfer.RecvManifestMultiStream")
	if recv == nil {
		c.MissingAnchor("transfer.RecvManifestMultiStream")
		return
	}
	// ---- VISIBLE
	{
		info := recv.Info()
		n := 0
		var first token.Pos = token.NoPos
		InspectNoLits(recv.Body, func(nd ast.Node) bool {
			if _, ok := nd.(*ast.FuncLit); ok {
				return false
			}
			if call, ok := nd.(*ast.CallExpr); ok {
				if sel, ok := ast.Unparen(call.Fun).(*ast.SelectorExpr); ok && sel.Sel.Name == "AcceptStream" && strings.HasSuffix(info.TypeOf(sel.X).String(), "transfer.Conn") {
					n++
					if first == token.NoPos {
						first = call.Pos()
					}
					if n > 1 {
						c.Bad(fmt.Sprintf("visible/accept#%d", n), call.Pos(), "RecvManifestMultiStream blocks in AcceptStream for a data stream on its own goroutine before handling control events: a stream the sender has not written on yet is invisible, so with fewer chunks than streams this never returns (both sides hang)")
					}
				}
			}
			return true
		})
		// the single accept must not be inside a loop
		inLoop := false
		ast.Inspect(recv.Body, func(nd ast.Node) bool {
			switch l := nd.(type) {
			case *ast.FuncLit:
				return false
			case *ast.ForStmt:
				if first != token.NoPos && l.Body.Pos() <= first && first < l.Body.End() {
					inLoop = true
				}
			case *ast.RangeStmt:
				if first != token.NoPos && l.Body.Pos() <= first && first < l.Body.End() {
					inLoop = true
				}
			}
			return true
		})
		c.Check(n >= 1 && !inLoop, "visible/control-accept", recv.Pos(), "the only AcceptStream on the receive goroutine is the control stream's (data streams are accepted where they are read)",
			"the receive goroutine accepts streams in a loop before handling control events: streams the sender has not written on are invisible and the loop never ends")
	}
	// ---- ORPHAN
	{
		var visit func(f *FuncInfo)
		n := 0
		visit = func(f *FuncInfo) {
			info := f.Info()
			cfg := f.CFG()
			_ = cfg
			// variables assigned from a comma-ok lookup of doneKeys
			doneVars := map[types.Object]bool{}
			ast.Inspect(f.Body, func(nd ast.Node) bool {
				if as, ok := nd.(*ast.AssignStmt); ok && len(as.Lhs) == 2 && len(as.Rhs) == 1 {
					if ix, ok := ast.Unparen(as.Rhs[0]).(*ast.IndexExpr); ok && types.ExprString(ix.X) == "doneKeys" {
						if o := ObjOf(info, as.Lhs[1]); o != nil {
							doneVars[o] = true
						}
					}
				}
				return true
			})
			mentionsDone := func(e ast.Expr) bool {
				hit := false
				ast.Inspect(e, func(m ast.Node) bool {
					if id, ok := m.(*ast.Ident); ok {
						if o := info.Uses[id]; o != nil && doneVars[o] {
							hit = true
						}
					}
					return true
				})
				return hit
			}
			cfg.Calls(func(r NodeRef, call *ast.CallExpr) {
				sel, ok := ast.Unparen(call.Fun).(*ast.SelectorExpr)
				if !ok || sel.Sel.Name != "wait" || types.ExprString(sel.X) != "fileReady" {
					return
				}
				n++
				key := fmt.Sprintf("orphan/%s#%d", f.Name, n)
				// some dominating condition mentions a doneKeys lookup result, and its "finished" (true) branch cannot reach the wait
				okDiverted := false
				// atoms that guard the wait itself (e.g. state == nil, !ok)
				guardAtoms := map[string]bool{}
				for _, gb := range cfg.Blocks {
					gc, gt, gf, okc := CondEdges(gb)
					if !okc {
						continue
					}
					if cfg.BlockDominates(gt, r.B) && !cfg.BlockDominates(gf, r.B) {
						for _, a := range Implied(gc, true) {
							guardAtoms[fmt.Sprintf("%s=%v", types.ExprString(a.E), a.Val)] = true
						}
					}
					if cfg.BlockDominates(gf, r.B) && !cfg.BlockDominates(gt, r.B) {
						for _, a := range Implied(gc, false) {
							guardAtoms[fmt.Sprintf("%s=%v", types.ExprString(a.E), a.Val)] = true
						}
					}
				}
				for _, b := range cfg.Blocks {
					cond, t, _, okc := CondEdges(b)
					if !okc || !mentionsDone(cond) {
						continue
					}
					cr := NodeRef{b, len(b.Nodes) - 1}
					if !cfg.Dominates(cr, r) {
						continue
					}
					// the diverting condition must be exactly "<the wait's own guard> && finished": any further conjunct lets completed files through to the wait
					exact := true
					for _, a := range Implied(cond, true) {
						if o := ObjOf(info, a.E); o != nil && doneVars[o] && a.Val {
							continue
						}
						if !guardAtoms[fmt.Sprintf("%s=%v", types.ExprString(a.E), a.Val)] {
							exact = false
						}
					}
					if len(Implied(cond, true)) == 0 || !exact {
						continue
					}
					// true successor must not reach the wait without re-passing the condition
					reach := reachesAvoiding(cfg, t, r.B, b)
					if !reach {
						okDiverted = true
					}
				}
				c.Check(okDiverted, key, call.Pos(), "the completed-files set is consulted for this key and the completed case is diverted before blocking",
					"fileReady.wait is reached without first consulting the set of completed files: fileReady is only signalled when a file begins, so a late duplicate chunk / late request for a file that is already complete blocks this loop forever")
			})
			for _, k := range f.Kids {
				visit(k)
			}
		}
		visit(recv)
		if n == 0 {
			c.OKTrivial("orphan/none", recv.Pos(), "no fileReady.wait call remains")
		}
		// late records: where a record's file is looked up in stateByKey and not found, an error is returned only after the set
		// of completed files said "not completed either" - a late ResumeRequest / FileEnd for a file that its data chunks already
		// completed is normal and must not fail the transfer
		nl := 0
		var visit2 func(f *FuncInfo)
		visit2 = func(f *FuncInfo) {
			info := f.Info()
			cfg := f.CFG()
			var missVars, doneVars2 = map[types.Object]bool{}, map[types.Object]bool{}
			InspectNoLits(f.Body, func(m ast.Node) bool {
				if as, ok := m.(*ast.AssignStmt); ok && len(as.Rhs) == 1 && len(as.Lhs) == 2 {
					if ix, ok := ast.Unparen(as.Rhs[0]).(*ast.IndexExpr); ok {
						switch types.ExprString(ix.X) {
						case "stateByKey":
							// only look-ups that want the state (a duplicate test `_, exists :=` is not a late record)
							if id, ok := ast.Unparen(as.Lhs[0]).(*ast.Ident); ok && id.Name != "_" {
								missVars[ObjOf(info, as.Lhs[1])] = true
							}
						case "doneKeys":
							doneVars2[ObjOf(info, as.Lhs[1])] = true
						}
					}
				}
				return true
			})
			if len(missVars) > 0 && f.Lit != nil && f.Var != nil {
				spec := &PassSpec{Vias: []Via{{Cond: func(g *FuncInfo, e ast.Expr) (string, bool, bool) {
					if o := ObjOf(g.Info(), e); o != nil {
						if missVars[o] {
							return "missed", false, true
						}
						if doneVars2[o] {
							return "not-completed", false, true
						}
					}
					// `!ok && finished`: false tells nothing by itself; handled through its parts by Implied on the true edge only
					return "", false, false
				}}}}
				// `if !ok && finished { return nil }` : on the false edge, given missed, not-completed holds. Model: a compound
				// whose parts are exactly {!miss, done} and whose true branch returns
				spec.Vias = append(spec.Vias, Via{Cond: func(g *FuncInfo, e ast.Expr) (string, bool, bool) {
					be, ok := ast.Unparen(e).(*ast.BinaryExpr)
					if !ok || be.Op != token.LAND {
						return "", false, false
					}
					hasMiss, hasDone, other := false, false, false
					for _, a := range Implied(be, true) {
						o := ObjOf(g.Info(), a.E)
						switch {
						case o != nil && missVars[o] && !a.Val:
							hasMiss = true
						case o != nil && doneVars2[o] && a.Val:
							hasDone = true
						default:
							other = true
						}
					}
					if hasMiss && hasDone && !other {
						return "completed-diverted", false, true
					}
					return "", false, false
				}})
				for _, b := range cfg.Blocks {
					ret, ok := IsReturnExit(b)
					if !ok || len(ret.Results) != 1 {
						continue
					}
					if types.ExprString(ret.Results[0]) == "nil" {
						continue
					}
					if t := info.TypeOf(ret.Results[0]); t == nil || !isErrorType(t) {
						continue
					}
					ref := NodeRef{b, len(b.Nodes) - 1}
					if !spec.Passed(f, ref, "missed") {
						continue // not on the look-up-miss path
					}
					nl++
					okLate := spec.Passed(f, ref, "not-completed") || spec.Passed(f, ref, "completed-diverted")
					c.Check(okLate, fmt.Sprintf("late-record/%s#%d", f.Name, nl), ret.Pos(), "an unknown file is an error only after the completed-files set was consulted",
						"a record whose file is not (any more) in stateByKey is refused without consulting the set of completed files, or with a further condition on that test: a late ResumeRequest or FileEnd for a file that its data chunks already completed fails a healthy transfer")
				}
			}
			for _, k := range f.Kids {
				visit2(k)
			}
		}
		visit2(recv)
		if nl == 0 {
			c.Unknown("late-record/none", recv.Pos(), "found no error return on a stateByKey miss in the receiver's record handlers")
		}
	}
	// ---- ZERO
	if nx := p.Func("transfer.(*sendFileState).nextChunkToSend"); nx != nil {
		info := nx.Info()
		spec := &PassSpec{Vias: []Via{
			{Stmt: func(g *FuncInfo, n ast.Node) (string, bool) {
				if as, ok := n.(*ast.AssignStmt); ok && len(as.Lhs) == 1 && len(as.Rhs) == 1 {
					if sel, ok := ast.Unparen(as.Lhs[0]).(*ast.SelectorExpr); ok && sel.Sel.Name == "scheduleDone" && types.ExprString(as.Rhs[0]) == "true" {
						return "schedule-done", true
					}
				}
				return "", false
			}},
			{Cond: func(g *FuncInfo, e ast.Expr) (string, bool, bool) {
				if sel, ok := ast.Unparen(e).(*ast.SelectorExpr); ok && sel.Sel.Name == "scheduleDone" {
					return "schedule-done", true, true
				}
				// "nothing right now": the verdict on the receiver's last complete chunk is still out. Temporary, provided
				// whoever sets verifyPending also clears it and wakes the workers on every path (checked below).
				if sel, ok := ast.Unparen(e).(*ast.SelectorExpr); ok && sel.Sel.Name == "verifyPending" && verdictAlwaysDelivered(p) {
					return "schedule-done", true, true
				}
				// a disjunction of the two: either reason holds on its true edge
				if be, ok := ast.Unparen(e).(*ast.BinaryExpr); ok && be.Op == token.LOR {
					all := true
					var walk func(x ast.Expr)
					walk = func(x ast.Expr) {
						if b2, ok := ast.Unparen(x).(*ast.BinaryExpr); ok && b2.Op == token.LOR {
							walk(b2.X)
							walk(b2.Y)
							return
						}
						sel, ok := ast.Unparen(x).(*ast.SelectorExpr)
						if !ok || !(sel.Sel.Name == "scheduleDone" || (sel.Sel.Name == "verifyPending" && verdictAlwaysDelivered(p))) {
							all = false
						}
					}
					walk(be)
					if all {
						return "schedule-done", true, true
					}
				}
				return "", false, false
			}},
		}}
		k := 0
		for _, b := range nx.CFG().Blocks {
			ret, ok := IsReturnExit(b)
			if !ok || len(ret.Results) != 3 || types.ExprString(ret.Results[2]) != "false" {
				continue
			}
			k++
			c.Check(spec.Passed(nx, NodeRef{b, len(b.Nodes) - 1}, "schedule-done"), fmt.Sprintf("zero/no-more-chunks#%d", k), ret.Pos(), "ok=false only with scheduleDone set",
				"nextChunkToSend can report 'no chunk' without scheduleDone being set: a file without chunks (zero length, or everything skipped) never satisfies the end-once guard and its FileEnd is never sent")
		}
		_ = info
	} else {
		c.MissingAnchor("transfer.(*sendFileState).nextChunkToSend")
	}
	// receiver finalises on the true result of markEndReceived / markChunkComplete
	{
		var visit func(f *FuncInfo)
		n := 0
		visit = func(f *FuncInfo) {
			info := f.Info()
			cfg := f.CFG()
			cfg.Calls(func(r NodeRef, call *ast.CallExpr) {
				g := p.CalleeInfo(info, call)
				if g == nil || (g.Name != "transfer.(*recvFileStateMux).markEndReceived" && g.Name != "transfer.(*recvFileStateMux).markChunkComplete") {
					return
				}
				n++
				key := fmt.Sprintf("finalise/%s#%d/%s", f.Name, n, strings.TrimPrefix(g.Name, "transfer.(*recvFileStateMux)."))
				// the boolean result: cond directly, or first LHS variable tested later
				var doneObj types.Object
				if as, ok := r.Node().(*ast.AssignStmt); ok && len(as.Lhs) >= 1 {
					doneObj = ObjOf(info, as.Lhs[0])
				}
				hit := false
				for _, b := range cfg.Blocks {
					cond, t, _, okc := CondEdges(b)
					if !okc {
						continue
					}
					isRes := ast.Unparen(cond) == ast.Expr(call) || (doneObj != nil && ObjOf(info, cond) == doneObj)
					if !isRes {
						continue
					}
					if allPathsHit(cfg, NodeRef{t, -1}, func(nd ast.Node) bool {
						h := false
						InspectNoLits(nd, func(m ast.Node) bool {
							if c2, ok := m.(*ast.CallExpr); ok {
								if g2 := p.CalleeInfo(info, c2); g2 != nil && strings.HasSuffix(g2.Name, "$finalizeFile") && len(c2.Args) >= 2 && types.ExprString(c2.Args[1]) == "true" {
									h = true
								}
							}
							return true
						})
						return h
					}, func(ast.Node) bool { return false }) {
						hit = true
					}
				}
				c.Check(hit, key, call.Pos(), "the file is finalised (ok) exactly when this step reports it complete", "the 'file complete' result of this step does not lead to finalizeFile(state, true, ...): the file is never acknowledged and the sender never finishes")
				// ... and the result is looked at on every path: none leaves the step (next frame, return) with `done` untested
				if doneObj != nil {
					self := r.Node()
					consumed := allPathsHit(cfg, r, func(nd ast.Node) bool {
						e, isExpr := nd.(ast.Expr)
						if !isExpr {
							return false
						}
						h := false
						ast.Inspect(e, func(m ast.Node) bool {
							if id, ok := m.(*ast.Ident); ok && info.ObjectOf(id) == doneObj {
								h = true
							}
							return true
						})
						return h
					}, func(nd ast.Node) bool {
						if nd == self {
							return true
						}
						_, isRet := nd.(*ast.ReturnStmt)
						return isRet
					})
					c.Check(consumed, key+"/consumed", call.Pos(), "the 'file complete' result is tested on every path behind the step",
						f.Name+" can go on to the next frame (or return) without looking at the 'file complete' result of "+strings.TrimPrefix(g.Name, "transfer.(*recvFileStateMux).")+
							": when the frame that completes a file is one that adds no new chunk (the re-sent chunk of a resumed file arriving behind FileEnd), nobody finalises the file, no FileDone goes out and both sides wait for ever")
				}
			})
			for _, k := range f.Kids {
				visit(k)
			}
		}
		visit(recv)
	}
}

// reachesAvoiding: can block `to` be reached from block `from` without passing through block `avoid`?
func reachesAvoiding(c *CFG, from, to, avoid *cfg.Block) bool {
	seen := map[*cfg.Block]bool{}
	stack := []*cfg.Block{from}
	for len(stack) > 0 {
		x := stack[len(stack)-1]
		stack = stack[:len(stack)-1]
		if seen[x] || !x.Live || x == avoid {
			continue
		}
		seen[x] = true
		if x == to {
			return true
		}
		stack = append(stack, x.Succs...)
	}
	return false
}

func runSanitizer(c *Ctx) {
	p := c.P
	v := p.Func("transfer.validateRelPath")
	if v == nil {
		c.MissingAnchor("transfer.validateRelPath")
		return
	}
	info := v.Info()
	var param types.Object
	if len(v.Type.Params.List) > 0 && len(v.Type.Params.List[0].Names) > 0 {
		param = info.Defs[v.Type.Params.List[0].Names[0]]
	}
	errRet := func(is *ast.IfStmt) bool {
		for _, st := range is.Body.List {
			if ret, ok := st.(*ast.ReturnStmt); ok && len(ret.Results) == 1 && types.ExprString(ret.Results[0]) != "nil" {
				return true
			}
		}
		return false
	}
	abs, seg, substr, empty, long := false, false, false, false, false
	var substrPos token.Pos
	ast.Inspect(v.Body, func(n ast.Node) bool {
		switch s := n.(type) {
		case *ast.IfStmt:
			condStr := types.ExprString(s.Cond)
			if errRet(s) {
				ast.Inspect(s.Cond, func(m ast.Node) bool {
					if call, ok := m.(*ast.CallExpr); ok {
						if calleeIs(info, call, "path/filepath", "IsAbs") && ObjOf(info, call.Args[0]) == param {
							abs = true
						}
						if calleeIs(info, call, "path/filepath", "IsLocal") && strings.Contains(condStr, "!") {
							abs, seg = true, true
						}
						if calleeIs(info, call, "strings", "Contains") && len(call.Args) == 2 {
							if sv, ok := constString(info, call.Args[1]); ok && sv == ".." {
								substr = true
								substrPos = call.Pos()
							}
						}
					}
					if be, ok := m.(*ast.BinaryExpr); ok {
						if be.Op == token.EQL {
							if sv, ok := constString(info, be.Y); ok && sv == "" && ObjOf(info, be.X) == param {
								empty = true
							}
							if sv, ok := constString(info, be.Y); ok && sv == ".." && ObjOf(info, be.X) != param {
								// per-segment: X ranges over a split of the path
								seg = true
							}
						}
						if be.Op == token.GTR && strings.HasPrefix(types.ExprString(be.X), "len(") {
							if cn, ok := ObjOf(info, be.Y).(*types.Const); ok && cn.Name() == "maxRelPathLength" {
								long = true
							}
						}
					}
					return true
				})
			}
		}
		return true
	})
	// the per-segment variable must come from a split of the parameter on separators
	if seg {
		okSplit := false
		ast.Inspect(v.Body, func(n ast.Node) bool {
			if rs, ok := n.(*ast.RangeStmt); ok {
				if call, ok := ast.Unparen(rs.X).(*ast.CallExpr); ok {
					if (calleeIs(info, call, "strings", "Split") || calleeIs(info, call, "strings", "FieldsFunc")) && len(call.Args) >= 1 {
						hit := false
						ast.Inspect(call.Args[0], func(m ast.Node) bool {
							if id, ok := m.(*ast.Ident); ok && info.Uses[id] == param {
								hit = true
							}
							return true
						})
						if hit {
							okSplit = true
						}
					}
				}
			}
			if call, ok := n.(*ast.CallExpr); ok && calleeIs(info, call, "path/filepath", "IsLocal") {
				okSplit = true
			}
			return true
		})
		seg = okSplit
	}
	c.Check(abs, "relpath/absolute", v.Pos(), "absolute paths are rejected", "validateRelPath no longer rejects absolute paths: a peer-chosen path can leave the output directory")
	c.Check(seg, "relpath/parent-segments", v.Pos(), "'..' segments are rejected by a per-segment test", "validateRelPath has no per-segment test for '..' (over a split of the path on separators, or !filepath.IsLocal): parent references are not reliably rejected")
	if substr {
		c.Bad("relpath/no-substring-test", substrPos, "validateRelPath rejects every path containing the substring \"..\": legal names such as notes..txt make the whole transfer fail")
	} else {
		c.OK("relpath/no-substring-test", v.Pos(), "no substring test for \"..\"")
	}
	c.Check(empty, "relpath/empty", v.Pos(), "the empty path is rejected", "validateRelPath accepts the empty path (it names the output directory itself)")
	c.Check(long, "relpath/length", v.Pos(), "paths longer than maxRelPathLength are rejected", "validateRelPath no longer bounds the path length by maxRelPathLength")
	// stream-side readers use the same constant
	// the readers are located by what they feed: the function whose result readFileBegin stores into FileBegin.RelPath, and the
	// legacy record reader of the same name pattern
	var pathReaders []*FuncInfo
	if rfb := p.Func("transfer.readFileBegin"); rfb != nil {
		ri := rfb.Info()
		ast.Inspect(rfb.Body, func(n ast.Node) bool {
			as, ok := n.(*ast.AssignStmt)
			if !ok || len(as.Lhs) != 1 || len(as.Rhs) != 1 {
				return true
			}
			sel, ok := ast.Unparen(as.Lhs[0]).(*ast.SelectorExpr)
			if !ok || sel.Sel.Name != "RelPath" {
				return true
			}
			for _, d := range resolveExprs(rfb, as.Rhs[0], 2) {
				if call, ok := ast.Unparen(d).(*ast.CallExpr); ok {
					if g := p.CalleeInfo(ri, call); g != nil {
						pathReaders = append(pathReaders, g)
					}
				}
			}
			return true
		})
	}
	if g := p.Func("transfer.readRelPath"); g != nil {
		pathReaders = append(pathReaders, g)
	}
	if len(pathReaders) < 2 {
		c.MissingAnchor("the stream readers of relative paths (callee feeding FileBegin.RelPath in readFileBegin; transfer.readRelPath)")
	}
	for _, f := range pathReaders {
		name := f.Name
		ok := false
		ast.Inspect(f.Body, func(n ast.Node) bool {
			if be, isB := n.(*ast.BinaryExpr); isB && be.Op == token.GTR {
				if cn, isC := ObjOf(f.Info(), be.Y).(*types.Const); isC && cn.Name() == "maxRelPathLength" {
					ok = true
				}
			}
			return true
		})
		c.Check(ok, "relpath/reader-bound/"+name, f.Pos(), "the reader bounds the path length by maxRelPathLength before allocating", "the stream reader no longer bounds the path length by maxRelPathLength: encoder and decoder disagree on the limit")
	}
	// validateFilename
	if vf := p.Func("transfer.validateFilename"); vf != nil {
		fi := vf.Info()
		sep1, sep2, dot, dotdot, emp := false, false, false, false, false
		ast.Inspect(vf.Body, func(n ast.Node) bool {
			if call, ok := n.(*ast.CallExpr); ok && (calleeIs(fi, call, "strings", "Contains") || calleeIs(fi, call, "strings", "ContainsAny") || calleeIs(fi, call, "strings", "ContainsRune")) && len(call.Args) == 2 {
				if sv, ok := constString(fi, call.Args[1]); ok {
					if strings.Contains(sv, "/") {
						sep1 = true
					}
					if strings.Contains(sv, "\\") {
						sep2 = true
					}
				}
			}
			if be, ok := n.(*ast.BinaryExpr); ok && be.Op == token.EQL {
				if sv, ok := constString(fi, be.Y); ok {
					switch sv {
					case ".":
						dot = true
					case "..":
						dotdot = true
					case "":
						emp = true
					}
				}
			}
			return true
		})
		c.Check(sep1 && sep2 && dot && dotdot && emp, "filename/plain-name", vf.Pos(), "validateFilename accepts only plain names (no separators, not '.', '..' or empty)",
			fmt.Sprintf("validateFilename no longer refuses all of: '/', '\\', '.', '..', empty (have /=%v \\=%v .=%v ..=%v empty=%v): manifest roots and item ids can then carry path separators or parent references", sep1, sep2, dot, dotdot, emp))
	} else {
		c.MissingAnchor("transfer.validateFilename")
	}
}

// verdictAlwaysDelivered: every literal started with `go` right where verifyPending is set to true clears it again and calls
// signalWake on all of its paths, so a worker that was told "nothing right now" is woken when the verdict is in.
func verdictAlwaysDelivered(p *Program) bool {
	found, ok := false, true
	for _, f := range p.FuncsIn("internal/transfer") {
		info := f.Info()
		setsPending := false
		InspectNoLits(f.Body, func(n ast.Node) bool {
			if as, isAs := n.(*ast.AssignStmt); isAs && len(as.Lhs) == 1 && len(as.Rhs) == 1 {
				if sel, isSel := ast.Unparen(as.Lhs[0]).(*ast.SelectorExpr); isSel && sel.Sel.Name == "verifyPending" && types.ExprString(as.Rhs[0]) == "true" {
					setsPending = true
				}
			}
			return true
		})
		if !setsPending {
			continue
		}
		// the goroutine literals of f
		for _, k := range f.Kids {
			isGo := false
			ast.Inspect(f.Body, func(n ast.Node) bool {
				if gs, isG := n.(*ast.GoStmt); isG && ast.Unparen(gs.Call.Fun) == ast.Expr(k.Lit) {
					isGo = true
				}
				return true
			})
			if !isGo {
				continue
			}
			found = true
			kcfg := k.CFG()
			clears := func(n ast.Node) bool {
				hit := false
				InspectNoLits(n, func(m ast.Node) bool {
					if as, isAs := m.(*ast.AssignStmt); isAs && len(as.Lhs) == 1 && len(as.Rhs) == 1 {
						if sel, isSel := ast.Unparen(as.Lhs[0]).(*ast.SelectorExpr); isSel && sel.Sel.Name == "verifyPending" && types.ExprString(as.Rhs[0]) == "false" {
							hit = true
						}
					}
					return true
				})
				return hit
			}
			wakes := func(n ast.Node) bool {
				hit := false
				InspectNoLits(n, func(m ast.Node) bool {
					if call, isC := m.(*ast.CallExpr); isC {
						if id, isID := ast.Unparen(call.Fun).(*ast.Ident); isID && id.Name == "signalWake" {
							if v, isV := ObjOf(k.Info(), id).(*types.Var); isV && p.ClosureOfVar(v) != nil {
								hit = true
							}
						}
					}
					return true
				})
				return hit
			}
			never := func(ast.Node) bool { return false }
			if !allPathsHit(kcfg, NodeRef{kcfg.Entry(), -1}, clears, never) || !allPathsHit(kcfg, NodeRef{kcfg.Entry(), -1}, wakes, never) {
				ok = false
			}
		}
		_ = info
	}
	return found && ok
}
