package tf

// Rules added after seeding round 7 (DESIGN 8.14).

import (
	"fmt"
	"go/ast"
	"go/token"
	"go/types"
	"sort"
	"strings"
)

func init() {
	Register(&Rule{
		Name:  "R-ACK-FROM-PEER",
		Props: []string{"C02"},
		Min:   1,
		Doc: "the acknowledgement that lets the sender count a file comes from the receiver: in SendManifestMultiStream every FileDone value whose OK field is consulted is, on all its definitions, the result of fileDoneRegistry.wait - " +
			"a value made up locally for a class of files (empty ones) lets the sender report success for a receiver that never confirmed them",
		Run: runAckFromPeer,
	})
	Register(&Rule{
		Name:  "R-REJECTED-REMOVED",
		Props: []string{"C05", "C06"},
		Min:   2,
		Doc: "resume metadata that is rejected for its identity is deleted: in LoadOrCreateSidecar / LoadOrCreateSidecarWithFallback every branch that refuses a loaded sidecar because chunk size, file size or file id differ removes that file before it returns - " +
			"CreateSidecar replaces the primary location only, so a rejected sidecar left at the fallback location is trusted again when the version it describes comes back, over a file that has held another version since",
		Run: runRejectedRemoved,
	})
	Register(&Rule{
		Name:  "R-CONTROL-WRITE-SERIAL",
		Props: []string{"C18"},
		Min:   3,
		Doc: "records on the sender's control stream do not interleave: every record writer (writeFileBegin, writeFileEnd, writeResumeRequest, ...) that SendManifestMultiStream calls from one of its closures - they run concurrently - is called while one and the same mutex is held; " +
			"a record is several small writes, and two of them under different locks mix their bytes on the stream",
		Run: runControlWriteSerial,
	})
}

func runAckFromPeer(c *Ctx) {
	p := c.P
	send := p.Func("transfer.SendManifestMultiStream")
	if send == nil {
		c.MissingAnchor("transfer.SendManifestMultiStream")
		return
	}
	n := 0
	for _, f := range allKids(send) {
		info := f.Info()
		seen := map[types.Object]bool{}
		InspectNoLits(f.Body, func(m ast.Node) bool {
			sel, ok := m.(*ast.SelectorExpr)
			if !ok || sel.Sel.Name != "OK" {
				return true
			}
			t := info.TypeOf(sel.X)
			if t == nil || !strings.HasSuffix(types.Unalias(t).String(), "transfer.FileDone") {
				return true
			}
			o, _ := ObjOf(info, sel.X).(*types.Var)
			if o == nil || seen[o] {
				return true
			}
			seen[o] = true
			n++
			key := fmt.Sprintf("ack-from-peer/%s#%d", f.Name, n)
			own := owningFunc(f, o)
			var defs []ast.Expr
			if own != nil {
				defs = allDefs(own, o)
			}
			if len(defs) == 0 {
				c.Unknown(key, sel.Pos(), "the acknowledgement value has no definition in sight (a parameter?)")
				return true
			}
			bad := ""
			var judge func(h *FuncInfo, ds []ast.Expr, depth int)
			judge = func(h *FuncInfo, ds []ast.Expr, depth int) {
				for _, d := range ds {
					if call, ok := ast.Unparen(d).(*ast.CallExpr); ok {
						if g := p.CalleeInfo(h.Info(), call); g != nil && g.Name == "transfer.(*fileDoneRegistry).wait" {
							continue
						}
					}
					// a plain copy of another local: judged by that local's definitions
					if v, ok := ObjOf(h.Info(), d).(*types.Var); ok && !v.IsField() && depth > 0 {
						if _, isId := ast.Unparen(d).(*ast.Ident); isId {
							if oh := owningFunc(h, v); oh != nil {
								if dd := allDefs(oh, v); len(dd) > 0 {
									judge(oh, dd, depth-1)
									continue
								}
							}
						}
					}
					bad = types.ExprString(d)
				}
			}
			judge(own, defs, 3)
			c.Check(bad == "", key, sel.Pos(), "the acknowledgement is what fileDoneRegistry.wait returned",
				"the FileDone value whose OK field lets the sender count the file is also defined as `"+bad+"`, not received from the peer: for those files the sender never learns whether the receiver handled them - "+
					"with only such files left unacknowledged (a tree of empty placeholder files) and the receiver failing (an obstructed output path), the sender reports success")
			return true
		})
	}
	if n == 0 {
		c.Bad("ack-from-peer/none", send.Pos(), "the sender consults no FileDone.OK")
	}
}

func runRejectedRemoved(c *Ctx) {
	p := c.P
	n := 0
	for _, name := range []string{"transfer.LoadOrCreateSidecar", "transfer.LoadOrCreateSidecarWithFallback"} {
		root := p.Func(name)
		if root == nil {
			c.MissingAnchor(name)
			continue
		}
		for _, f := range allKids(root) {
			info := f.Info()
			InspectNoLits(f.Body, func(m ast.Node) bool {
				is, ok := m.(*ast.IfStmt)
				if !ok {
					return true
				}
				// a condition that compares a loaded sidecar's identity fields for inequality
				mismatch := false
				// a predicate method of the sidecar (`!sc.describes(id, size, chunk)`) is looked into
				ast.Inspect(ExpandPred(p, f, is.Cond, 2), func(x ast.Node) bool {
					if be, ok := x.(*ast.BinaryExpr); ok && (be.Op == token.NEQ || be.Op == token.EQL) {
						if sel, ok := ast.Unparen(be.X).(*ast.SelectorExpr); ok {
							switch sel.Sel.Name {
							case "ChunkSize", "FileSize", "FileID":
								if t := info.TypeOf(sel.X); t != nil && strings.HasSuffix(strings.TrimPrefix(t.String(), "*"), "transfer.Sidecar") {
									mismatch = true
								}
							}
						}
					}
					return true
				})
				// a predicate with more than one statement: a bool method of Sidecar whose body compares the identity fields
				ast.Inspect(is.Cond, func(x ast.Node) bool {
					call, ok := x.(*ast.CallExpr)
					if !ok {
						return true
					}
					g := p.CalleeInfo(info, call)
					if g == nil || g.Body == nil || g.Obj == nil {
						return true
					}
					sig, _ := g.Obj.Type().(*types.Signature)
					if sig == nil || sig.Recv() == nil || !strings.HasSuffix(strings.TrimPrefix(sig.Recv().Type().String(), "*"), "transfer.Sidecar") || sig.Results().Len() != 1 || !isBool(sig.Results().At(0).Type()) {
						return true
					}
					ast.Inspect(g.Body, func(y ast.Node) bool {
						if be, ok := y.(*ast.BinaryExpr); ok && (be.Op == token.NEQ || be.Op == token.EQL) {
							if sel, ok := ast.Unparen(be.X).(*ast.SelectorExpr); ok {
								switch sel.Sel.Name {
								case "ChunkSize", "FileSize", "FileID":
									mismatch = true
								}
							}
						}
						return true
					})
					return true
				})
				if !mismatch {
					return true
				}
				n++
				key := fmt.Sprintf("rejected-removed/%s#%d", f.Name, n)
				removes := false
				ast.Inspect(is.Body, func(x ast.Node) bool {
					if call, ok := x.(*ast.CallExpr); ok && calleeIs(info, call, "os", "Remove") {
						removes = true
					}
					return true
				})
				c.Check(removes, key, is.Pos(), "a sidecar refused for its identity is removed",
					"a loaded sidecar whose chunk size, file size or file id differs is refused but left on disk: at the primary location CreateSidecar replaces it, at the fallback location nothing does - "+
						"when the version it describes comes back (the output file has held another version since) it matches again and its marks are trusted over bytes of the other version")
				return true
			})
		}
	}
	if n < 2 {
		c.Bad("rejected-removed/none", token.NoPos, fmt.Sprintf("found %d identity rejections in the sidecar loaders, expected one per loader", n))
	}
}

func runControlWriteSerial(c *Ctx) {
	p := c.P
	send := p.Func("transfer.SendManifestMultiStream")
	if send == nil {
		c.MissingAnchor("transfer.SendManifestMultiStream")
		return
	}
	ls := NewLockSpec()
	type site struct {
		f    *FuncInfo
		call *ast.CallExpr
		what string
		held []string
	}
	var sites []site
	for _, f := range allKids(send) {
		if f == send {
			continue // the function's own body runs before the workers start and after they ended
		}
		info := f.Info()
		f.CFG().Calls(func(r NodeRef, call *ast.CallExpr) {
			g := p.CalleeInfo(info, call)
			if g == nil || !strings.HasPrefix(g.Name, "transfer.write") || g.Decl == nil || len(call.Args) == 0 {
				return
			}
			// a record writer: first parameter is the stream, and the callee is one of the control-record encoders
			if t := info.TypeOf(call.Args[0]); t == nil || !strings.HasSuffix(types.Unalias(t).String(), "transfer.Stream") {
				return
			}
			switch g.Name {
			case "transfer.writeFileBegin", "transfer.writeFileEnd", "transfer.writeResumeRequest", "transfer.writeControlEnd", "transfer.writeDataStreams", "transfer.writeFileDone", "transfer.writeFileResumeInfo", "transfer.writeCreditBatch":
			default:
				return
			}
			var held []string
			for _, h := range HeldAny(ls, f, r) {
				if strings.HasPrefix(h, "W:") {
					held = append(held, strings.TrimPrefix(h, "W:"))
				}
			}
			sort.Strings(held)
			sites = append(sites, site{f, call, g.Name, held})
		})
	}
	if len(sites) == 0 {
		c.Bad("control-write-serial/none", send.Pos(), "no closure of SendManifestMultiStream writes a control record")
		return
	}
	// the mutex held at every site
	common := map[string]int{}
	for _, s := range sites {
		for _, h := range s.held {
			common[h]++
		}
	}
	var shared []string
	for h, k := range common {
		if k == len(sites) {
			shared = append(shared, h)
		}
	}
	sort.Strings(shared)
	// the majority mutex, for the report
	best, bestN := "", 0
	for h, k := range common {
		if k > bestN || (k == bestN && h < best) {
			best, bestN = h, k
		}
	}
	for i, s := range sites {
		key := fmt.Sprintf("control-write-serial/%s#%d/%s", s.f.Name, i+1, strings.TrimPrefix(s.what, "transfer."))
		ok := len(shared) > 0
		if !ok {
			// name the site that deviates: it does not hold the majority mutex
			holds := false
			for _, h := range s.held {
				if h == best {
					holds = true
				}
			}
			if holds {
				c.OK(key, s.call.Pos(), "written under "+best)
				continue
			}
		}
		c.Check(ok, key, s.call.Pos(), "written under "+strings.Join(shared, ", ")+", like every other record of the control stream",
			strings.TrimPrefix(s.what, "transfer.")+" is written while holding "+fmt.Sprint(s.held)+", not `"+best+"`, the mutex the other control records are written under: the closures of the sender run concurrently and each record is several small writes, "+
				"so the bytes of two records mix on the control stream and the peer decodes garbage lengths - both sides lose the framing and time out")
	}
}

func init() {
	Register(&Rule{
		Name:  "R-TICKER-STOP",
		Props: []string{"C12", "C03"},
		Min:   1,
		Doc: "the function that stops the progress ticker ends the ticker's goroutine itself (F66): in startProgressTicker the goroutine's select has a case on a channel that the returned stop function closes (or sends on) before it waits for the goroutine - " +
			"a stop function that only waits for the context to end blocks its callers, which run it (deferred) before they cancel that context: the transfer function never returns after a success, its slot stays taken until the receiver leaves, and the receiver is then recorded as failed",
		Run: runTickerStop,
	})
	Register(&Rule{
		Name:  "R-FINISHED-WHILE-LEAVING",
		Props: []string{"C12", "C03"},
		Min:   2,
		Doc: "a transfer that completed is recorded as done also when its receiver was seen leaving a moment before it returned (F66; the receiver exits when it is finished): handlePeerLeft marks the slot it releases (`slot.left = true`, before the slot is deleted), " +
			"and runTransfer writes the final status when it owns the slot or when that mark is set and no slot is held for the peer",
		Run: runFinishedWhileLeaving,
	})
}

func runTickerStop(c *Ctx) {
	p := c.P
	f := p.Func("app.startProgressTicker")
	if f == nil {
		c.MissingAnchor("app.startProgressTicker")
		return
	}
	info := f.Info()
	// the goroutine literal and the returned literal
	var goLit, retLit *FuncInfo
	InspectNoLits(f.Body, func(m ast.Node) bool {
		switch s := m.(type) {
		case *ast.GoStmt:
			if lit, ok := ast.Unparen(s.Call.Fun).(*ast.FuncLit); ok {
				goLit = p.LitInfo(lit)
			}
		case *ast.ReturnStmt:
			for _, r := range s.Results {
				if lit, ok := ast.Unparen(r).(*ast.FuncLit); ok {
					if li := p.LitInfo(lit); li != nil && li.Body != nil && len(li.Body.List) > 0 {
						retLit = li
					}
				}
			}
		}
		return true
	})
	if goLit == nil || retLit == nil {
		c.Unknown("ticker-stop/anchors", f.Pos(), "cannot find the ticker goroutine / the returned stop function")
		return
	}
	// channels the goroutine selects on (receives from), other than ctx.Done() and the ticker
	recvs := map[types.Object]bool{}
	ast.Inspect(goLit.Body, func(m ast.Node) bool {
		if cc, ok := m.(*ast.CommClause); ok && cc.Comm != nil {
			if es, ok := cc.Comm.(*ast.ExprStmt); ok {
				if u, ok := ast.Unparen(es.X).(*ast.UnaryExpr); ok && u.Op == token.ARROW {
					if o := ObjOf(info, u.X); o != nil {
						recvs[o] = true
					}
				}
			}
		}
		return true
	})
	signals := false
	ast.Inspect(retLit.Body, func(m ast.Node) bool {
		switch x := m.(type) {
		case *ast.CallExpr:
			if id, ok := ast.Unparen(x.Fun).(*ast.Ident); ok && id.Name == "close" && len(x.Args) == 1 && recvs[ObjOf(info, x.Args[0])] {
				signals = true
			}
			// a cancel function of a context the goroutine listens to
		case *ast.SendStmt:
			if recvs[ObjOf(info, x.Chan)] {
				signals = true
			}
		}
		return true
	})
	c.Check(signals, "ticker-stop/signals", retLit.Pos(), "the stop function signals the goroutine on a channel of its own",
		"the stop function returned by startProgressTicker only waits for the ticker's goroutine, which ends with the context alone: the callers run it (deferred) before they cancel that context, so after a successful transfer the sender's transfer function blocks here - "+
			"the slot stays taken and the connections open until the receiver, which exits when it is finished, is seen leaving, and handlePeerLeft then records a transfer that succeeded on both ends as failed")
}

func runFinishedWhileLeaving(c *Ctx) {
	p := c.P
	hl := p.Func("app.(*SnapshotSender).handlePeerLeft")
	rt := p.Func("app.(*SnapshotSender).runTransfer")
	if hl == nil || rt == nil {
		c.MissingAnchor("app.(*SnapshotSender).handlePeerLeft / runTransfer")
		return
	}
	// (i) handlePeerLeft: <slot>.left = true dominates delete(s.active, ..)
	{
		info := hl.Info()
		cfg := hl.CFG()
		var mark, del NodeRef
		cfg.EachNode(func(r NodeRef) {
			switch s := r.Node().(type) {
			case *ast.AssignStmt:
				if len(s.Lhs) == 1 && len(s.Rhs) == 1 {
					if sel, ok := ast.Unparen(s.Lhs[0]).(*ast.SelectorExpr); ok && sel.Sel.Name == "left" && types.ExprString(s.Rhs[0]) == "true" {
						if t := info.TypeOf(sel.X); t != nil && strings.Contains(t.String(), "transferSlot") {
							mark = r
						}
					}
				}
			case *ast.ExprStmt:
				if call, ok := s.X.(*ast.CallExpr); ok {
					if id, ok := ast.Unparen(call.Fun).(*ast.Ident); ok && id.Name == "delete" && len(call.Args) == 2 && strings.HasSuffix(types.ExprString(call.Args[0]), ".active") {
						del = r
					}
				}
			}
		})
		c.Check(mark.Valid() && del.Valid() && cfg.Dominates(mark, del), "finished-while-leaving/marked", hl.Pos(), "the slot a leaving receiver held is marked before it is released",
			"handlePeerLeft releases the slot of a leaving receiver without marking it (`slot.left = true` in front of the delete): runTransfer cannot tell a transfer that finished in the moment its receiver exited from a stale one, "+
				"and a transfer that succeeded on both ends stays recorded as failed whenever the leave is seen first")
	}
	// (ii) runTransfer: the Done status is written under a condition that admits the marked-and-vacant case
	{
		info := rt.Info()
		n := 0
		InspectNoLits(rt.Body, func(m ast.Node) bool {
			as, ok := m.(*ast.AssignStmt)
			if !ok || len(as.Lhs) != 1 || len(as.Rhs) != 1 {
				return true
			}
			sel, ok := ast.Unparen(as.Lhs[0]).(*ast.SelectorExpr)
			if !ok || sel.Sel.Name != "Status" || !strings.HasSuffix(types.ExprString(as.Rhs[0]), "StatusDone") {
				return true
			}
			n++
			admits := false
			for _, is := range enclosingIfs(rt.Body, as) {
				ast.Inspect(is.Cond, func(x ast.Node) bool {
					e, ok := x.(ast.Expr)
					if !ok {
						return true
					}
					// an operand of a disjunction that is (a variable defined as) a conjunction with `<slot>.left`
					if be, ok := ast.Unparen(e).(*ast.BinaryExpr); ok && be.Op == token.LOR {
						for _, side := range []ast.Expr{be.X, be.Y} {
							exprs := append([]ast.Expr{side}, resolveExprsAll(rt, side)...)
							for _, d := range exprs {
								for _, a := range Implied(d, true) {
									if s2, ok := ast.Unparen(a.E).(*ast.SelectorExpr); ok && s2.Sel.Name == "left" && a.Val {
										admits = true
									}
								}
							}
						}
					}
					return true
				})
			}
			_ = info
			c.Check(admits, fmt.Sprintf("finished-while-leaving/done#%d", n), as.Pos(), "done is recorded by the owner of the slot or for a slot released by the receiver's leave",
				"runTransfer records `done` only while it still owns the slot: the receiver exits the moment its transfer is finished, its leave can be handled a moment before the transfer function returns, "+
					"and then the transfer that succeeded on both ends stays `failed` in the host's books")
			return true
		})
		if n == 0 {
			c.Bad("finished-while-leaving/done", rt.Pos(), "runTransfer never records ReceiverStatusDone")
		}
	}
}
