package tf

// Rules added after seeding round 7 (DESIGN 8.14).

import (
	"fmt"
	"go/ast"
	"go/token"
	"go/types"
	"sort"
	"strings"
)

func init() {
	Register(&Rule{
		Name:  "R-ACK-FROM-PEER",
		Props: []string{"C02"},
		Min:   1,
		Doc: "the acknowledgement that lets the sender count a file comes from the receiver: in SendManifestMultiStream every FileDone value whose OK field is consulted is, on all its definitions, the result of fileDoneRegistry.wait - " +
			"a value made up locally for a class of files (empty ones) lets the sender report success for a receiver that never confirmed them",
		Run: runAckFromPeer,
	})
	Register(&Rule{
		Name:  "R-REJECTED-REMOVED",
		Props: []string{"C05", "C06"},
		Min:   2,
		Doc: "resume metadata that is rejected for its identity is deleted: in LoadOrCreateSidecar / LoadOrCreateSidecarWithFallback every branch that refuses a loaded sidecar because chunk size, file size or file id differ removes that file before it returns - " +
			"CreateSidecar replaces the primary location only, so a rejected sidecar left at the fallback location is trusted again when the version it describes comes back, over a file that has held another version since",
		Run: runRejectedRemoved,
	})
	Register(&Rule{
		Name:  "R-CONTROL-WRITE-SERIAL",
		Props: []string{"C18"},
		Min:   3,
		Doc: "records on the sender's control stream do not interleave: every record writer (writeFileBegin, writeFileEnd, writeResumeRequest, ...) that SendManifestMultiStream calls from one of its closures - they run concurrently - is called while one and the same mutex is held; " +
			"a record is several small writes, and two of them under different locks mix their bytes on the stream",
		Run: runControlWriteSerial,
	})
}

func runAckFromPeer(c *Ctx) {
	p := c.P
	send := p.Func("transfer.SendManifestMultiStream")
	if send == nil {
		c.MissingAnchor("transfer.SendManifestMultiStream")
		return
	}
	n := 0
	for _, f := range allKids(send) {
		info := f.Info()
		seen := map[types.Object]bool{}
		InspectNoLits(f.Body, func(m ast.Node) bool {
			sel, ok := m.(*ast.SelectorExpr)
			if !ok || sel.Sel.Name != "OK" {
				return true
			}
			t := info.TypeOf(sel.X)
			if t == nil || !strings.HasSuffix(types.Unalias(t).String(), "transfer.FileDone") {
				return true
			}
			o, _ := ObjOf(info, sel.X).(*types.Var)
			if o == nil || seen[o] {
				return true
			}
			seen[o] = true
			n++
			key := fmt.Sprintf("ack-from-peer/%s#%d", f.Name, n)
			own := owningFunc(f, o)
			var defs []ast.Expr
			if own != nil {
				defs = allDefs(own, o)
			}
			if len(defs) == 0 {
				c.Unknown(key, sel.Pos(), "the acknowledgement value has no definition in sight (a parameter?)")
				return true
			}
			bad := ""
			var judge func(h *FuncInfo, ds []ast.Expr, depth int)
			judge = func(h *FuncInfo, ds []ast.Expr, depth int) {
				for _, d := range ds {
					if call, ok := ast.Unparen(d).(*ast.CallExpr); ok {
						if g := p.CalleeInfo(h.Info(), call); g != nil && g.Name == "transfer.(*fileDoneRegistry).wait" {
							continue
						}
					}
					// a plain copy of another local: judged by that local's definitions
					if v, ok := ObjOf(h.Info(), d).(*types.Var); ok && !v.IsField() && depth > 0 {
						if _, isId := ast.Unparen(d).(*ast.Ident); isId {
							if oh := owningFunc(h, v); oh != nil {
								if dd := allDefs(oh, v); len(dd) > 0 {
									judge(oh, dd, depth-1)
									continue
								}
							}
						}
					}
					bad = types.ExprString(d)
				}
			}
			judge(own, defs, 3)
			c.Check(bad == "", key, sel.Pos(), "the acknowledgement is what fileDoneRegistry.wait returned",
				"the FileDone value whose OK field lets the sender count the file is also defined as `"+bad+"`, not received from the peer: for those files the sender never learns whether the receiver handled them - "+
					"with only such files left unacknowledged (a tree of empty placeholder files) and the receiver failing (an obstructed output path), the sender reports success")
			return true
		})
	}
	if n == 0 {
		c.Bad("ack-from-peer/none", send.Pos(), "the sender consults no FileDone.OK")
	}
}

func runRejectedRemoved(c *Ctx) {
	p := c.P
	n := 0
	for _, name := range []string{"transfer.LoadOrCreateSidecar", "transfer.LoadOrCreateSidecarWithFallback"} {
		root := p.Func(name)
		if root == nil {
			c.MissingAnchor(name)
			continue
		}
		for _, f := range allKids(root) {
			info := f.Info()
			InspectNoLits(f.Body, func(m ast.Node) bool {
				is, ok := m.(*ast.IfStmt)
				if !ok {
					return true
				}
				// a condition that compares a loaded sidecar's identity fields for inequality
				mismatch := false
				// a predicate method of the sidecar (`!sc.describes(id, size, chunk)`) is looked into
				ast.Inspect(ExpandPred(p, f, is.Cond, 2), func(x ast.Node) bool {
					if be, ok := x.(*ast.BinaryExpr); ok && (be.Op == token.NEQ || be.Op == token.EQL) {
						if sel, ok := ast.Unparen(be.X).(*ast.SelectorExpr); ok {
							switch sel.Sel.Name {
							case "ChunkSize", "FileSize", "FileID":
								if t := info.TypeOf(sel.X); t != nil && strings.HasSuffix(strings.TrimPrefix(t.String(), "*"), "transfer.Sidecar") {
									mismatch = true
								}
							}
						}
					}
					return true
				})
				// a predicate with more than one statement: a bool method of Sidecar whose body compares the identity fields
				ast.Inspect(is.Cond, func(x ast.Node) bool {
					call, ok := x.(*ast.CallExpr)
					if !ok {
						return true
					}
					g := p.CalleeInfo(info, call)
					if g == nil || g.Body == nil || g.Obj == nil {
						return true
					}
					sig, _ := g.Obj.Type().(*types.Signature)
					if sig == nil || sig.Recv() == nil || !strings.HasSuffix(strings.TrimPrefix(sig.Recv().Type().String(), "*"), "transfer.Sidecar") || sig.Results().Len() != 1 || !isBool(sig.Results().At(0).Type()) {
						return true
					}
					ast.Inspect(g.Body, func(y ast.Node) bool {
						if be, ok := y.(*ast.BinaryExpr); ok && (be.Op == token.NEQ || be.Op == token.EQL) {
							if sel, ok := ast.Unparen(be.X).(*ast.SelectorExpr); ok {
								switch sel.Sel.Name {
								case "ChunkSize", "FileSize", "FileID":
									mismatch = true
								}
							}
						}
						return true
					})
					return true
				})
				if !mismatch {
					return true
				}
				n++
				key := fmt.Sprintf("rejected-removed/%s#%d", f.Name, n)
				removes := false
				ast.Inspect(is.Body, func(x ast.Node) bool {
					if call, ok := x.(*ast.CallExpr); ok && calleeIs(info, call, "os", "Remove") {
						removes = true
					}
					return true
				})
				c.Check(removes, key, is.Pos(), "a sidecar refused for its identity is removed",
					"a loaded sidecar whose chunk size, file size or file id differs is refused but left on disk: at the primary location CreateSidecar replaces it, at the fallback location nothing does - "+
						"when the version it describes comes back (the output file has held another version since) it matches again and its marks are trusted over bytes of the other version")
				return true
			})
		}
	}
	if n < 2 {
		c.Bad("rejected-removed/none", token.NoPos, fmt.Sprintf("found %d identity rejections in the sidecar loaders, expected one per loader", n))
	}
}

func runControlWriteSerial(c *Ctx) {
	p := c.P
	send := p.Func("transfer.SendManifestMultiStream")
	if send == nil {
		c.MissingAnchor("transfer.SendManifestMultiStream")
		return
	}
	ls := NewLockSpec()
	type site struct {
		f    *FuncInfo
		call *ast.CallExpr
		what string
		held []string
	}
	var sites []site
	for _, f := range allKids(send) {
		if f == send {
			continue // the function's own body runs before the workers start and after they ended
		}
		info := f.Info()
		f.CFG().Calls(func(r NodeRef, call *ast.CallExpr) {
			g := p.CalleeInfo(info, call)
			if g == nil || !strings.HasPrefix(g.Name, "transfer.write") || g.Decl == nil || len(call.Args) == 0 {
				return
			}
			// a record writer: first parameter is the stream, and the callee is one of the control-record encoders
			if t := info.TypeOf(call.Args[0]); t == nil || !strings.HasSuffix(types.Unalias(t).String(), "transfer.Stream") {
				return
			}
			switch g.Name {
			case "transfer.writeFileBegin", "transfer.writeFileEnd", "transfer.writeResumeRequest", "transfer.writeControlEnd", "transfer.writeDataStreams", "transfer.writeFileDone", "transfer.writeFileResumeInfo", "transfer.writeCreditBatch":
			default:
				return
			}
			var held []string
			for _, h := range HeldAny(ls, f, r) {
				if strings.HasPrefix(h, "W:") {
					held = append(held, strings.TrimPrefix(h, "W:"))
				}
			}
			sort.Strings(held)
			sites = append(sites, site{f, call, g.Name, held})
		})
	}
	if len(sites) == 0 {
		c.Bad("control-write-serial/none", send.Pos(), "no closure of SendManifestMultiStream writes a control record")
		return
	}
	// the mutex held at every site
	common := map[string]int{}
	for _, s := range sites {
		for _, h := range s.held {
			common[h]++
		}
	}
	var shared []string
	for h, k := range common {
		if k == len(sites) {
			shared = append(shared, h)
		}
	}
	sort.Strings(shared)
	// the majority mutex, for the report
	best, bestN := "", 0
	for h, k := range common {
		if k > bestN || (k == bestN && h < best) {
			best, bestN = h, k
		}
	}
	for i, s := range sites {
		key := fmt.Sprintf("control-write-serial/%s#%d/%s", s.f.Name, i+1, strings.TrimPrefix(s.what, "transfer."))
		ok := len(shared) > 0
		if !ok {
			// name the site that deviates: it does not hold the majority mutex
			holds := false
			for _, h := range s.held {
				if h == best {
					holds = true
				}
			}
			if holds {
				c.OK(key, s.call.Pos(), "written under "+best)
				continue
			}
		}
		c.Check(ok, key, s.call.Pos(), "written under "+strings.Join(shared, ", ")+", like every other record of the control stream",
			strings.TrimPrefix(s.what, "transfer.")+" is written while holding "+fmt.Sprint(s.held)+", not `"+best+"`, the mutex the other control records are written under: the closures of the sender run concurrently and each record is several small writes, "+
				"so the bytes of two records mix on the control stream and the peer decodes garbage lengths - both sides lose the framing and time out")
	}
}
