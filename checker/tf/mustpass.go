package tf

import (
	"fmt"
	"go/ast"
	"go/token"
	"go/types"
	"sort"
	"strings"

	"golang.org/x/tools/go/cfg"
)

// Atom is an atomic boolean sub-condition together with the truth value that an edge implies.
type Atom struct {
	E   ast.Expr
	Val bool
}

// Implied returns the atomic sub-conditions whose truth value is implied when cond evaluates to val.
// (a && b)=true ⇒ a,b true; (a || b)=false ⇒ a,b false; !a flips; anything else is atomic.
func Implied(cond ast.Expr, val bool) []Atom {
	switch e := ast.Unparen(cond).(type) {
	case *ast.UnaryExpr:
		if e.Op == token.NOT {
			return Implied(e.X, !val)
		}
	case *ast.BinaryExpr:
		if e.Op == token.LAND && val {
			return append(Implied(e.X, true), Implied(e.Y, true)...)
		}
		if e.Op == token.LOR && !val {
			return append(Implied(e.X, false), Implied(e.Y, false)...)
		}
		if e.Op == token.LAND || e.Op == token.LOR {
			return nil // disjunctive knowledge: nothing implied about the parts
		}
	}
	return []Atom{{ast.Unparen(cond), val}}
}

// Via is something that must have happened (successfully) before a target.
type Via struct {
	// Call matches a call site and returns the fact id it establishes. When the call
	// has an error (or trailing bool) result, the fact is established only on the edge
	// where that result is tested nil (true); when Immediate, executing the call suffices.
	Call      func(f *FuncInfo, call *ast.CallExpr) (id string, ok bool)
	Immediate bool
	// Cond matches an atomic condition; the fact holds on edges where the atom has value passVal.
	Cond func(f *FuncInfo, e ast.Expr) (id string, passVal bool, ok bool)
	// Stmt matches a statement node that establishes the fact by being executed (e.g. a store).
	Stmt func(f *FuncInfo, n ast.Node) (id string, ok bool)
	// StmtIn is like Stmt but sees the facts holding before the statement and is applied after the statement's kills
	// (copies `a = b` carry b's fact over to a; `a = <const>` re-establishes a's fact).
	StmtIn func(f *FuncInfo, n ast.Node, has func(id string) bool) (ids []string)
}

// PassSpec configures one must-pass analysis.
type PassSpec struct {
	Name string
	Vias []Via
	// Kill returns fact ids (without "pass:" prefix) that node n invalidates, applied after gens.
	Kill func(f *FuncInfo, n ast.Node) []string
	// KillAll: node invalidates all facts (e.g. reading the next record header).
	KillAll func(f *FuncInfo, n ast.Node) bool
	// KillMatch: node n invalidates the fact with this id (checked for every current fact).
	KillMatch func(f *FuncInfo, n ast.Node, id string) bool
	// SkipDefer: calls inside defer statements neither establish nor kill facts (deferred unlocks).
	SkipDefer bool
	// NoInheritAsync: closures started with go/defer do not inherit the facts of their creation site (locks).
	NoInheritAsync bool
	// Interproc: entry facts of declared functions are the intersection over their static call sites.
	Interproc bool

	memo     map[*FuncInfo]*FlowResult
	active   map[*FuncInfo]bool
	objIDs   map[types.Object]int
	sitesMem map[*FuncInfo][]site
}

type site struct {
	f   *FuncInfo
	ref NodeRef
}

func (s *PassSpec) objID(o types.Object) int {
	if s.objIDs == nil {
		s.objIDs = map[types.Object]int{}
	}
	if id, ok := s.objIDs[o]; ok {
		return id
	}
	id := len(s.objIDs) + 1
	s.objIDs[o] = id
	return id
}

// Facts returns the dataflow result for f (facts are "pass:<id>").
func (s *PassSpec) Facts(f *FuncInfo) *FlowResult {
	if s.memo == nil {
		s.memo = map[*FuncInfo]*FlowResult{}
		s.active = map[*FuncInfo]bool{}
	}
	if r, ok := s.memo[f]; ok {
		return r
	}
	if s.active[f] {
		return nil // recursion: caller treats as no facts
	}
	s.active[f] = true
	defer func() { s.active[f] = false }()
	entry := s.entryFacts(f)
	r := f.CFG().MustFlow(entry, Transfer{
		BlockEntry: func(b *cfg.Block, in FactSet) FactSet {
			// the communication of a select clause takes effect when that clause is chosen
			if b.Kind == cfg.KindSelectCaseBody {
				if cc, ok := b.Stmt.(*ast.CommClause); ok && cc.Comm != nil {
					return s.gens(f, cc.Comm, in)
				}
			}
			return in
		},
		Node: func(ref NodeRef, in FactSet) FactSet { return s.node(f, ref, in) },
		Edge: func(from *cfg.Block, k int, in FactSet) FactSet { return s.edge(f, from, k, in) },
	})
	s.memo[f] = r
	return r
}

// Passed reports whether fact id holds before node ref of f.
func (s *PassSpec) Passed(f *FuncInfo, ref NodeRef, id string) bool {
	r := s.Facts(f)
	if r == nil {
		return false
	}
	fs := r.Before(ref)
	return fs != nil && fs["pass:"+id]
}

// PassedList lists the facts before ref (for reports).
func (s *PassSpec) PassedList(f *FuncInfo, ref NodeRef) []string {
	r := s.Facts(f)
	if r == nil {
		return nil
	}
	var out []string
	for k := range r.Before(ref) {
		if strings.HasPrefix(k, "pass:") {
			out = append(out, strings.TrimPrefix(k, "pass:"))
		}
	}
	sort.Strings(out)
	return out
}

func onlyPass(fs FactSet) FactSet {
	o := FactSet{}
	for k := range fs {
		if strings.HasPrefix(k, "pass:") {
			o[k] = true
		}
	}
	return o
}

// activationSites finds where a closure is created-and-run, called, or handed out.
func (p *Program) activationSites(f *FuncInfo) []site {
	var sites []site
	if f.Lit == nil {
		return nil
	}
	if f.Var == nil {
		// inline literal: the node of the parent that contains it
		if f.Parent != nil {
			ref := f.Parent.CFG().Find(f.Lit.Pos())
			if ref.Valid() {
				// a literal handed to a repository method of the same receiver that only ever calls it: it runs where the callee calls it
				if inner := p.callbackSites(f.Parent, ref, func(a ast.Expr) bool { return ast.Unparen(a) == ast.Expr(f.Lit) }); inner != nil {
					return inner
				}
				sites = append(sites, site{f.Parent, ref})
			}
		}
		return sites
	}
	// named closure: every use of the variable other than its defining assignment,
	// in the root function and all its nested closures.
	root := f.Root()
	var visit func(g *FuncInfo)
	visit = func(g *FuncInfo) {
		c := g.CFG()
		c.EachNode(func(r NodeRef) {
			InspectNoLits(r.Node(), func(n ast.Node) bool {
				if _, ok := n.(*ast.FuncLit); ok {
					return false
				}
				if id, ok := n.(*ast.Ident); ok {
					if g.Info().Uses[id] == types.Object(f.Var) {
						if inner := p.callbackSites(g, r, func(a ast.Expr) bool { return ast.Unparen(a) == ast.Expr(id) }); inner != nil {
							sites = append(sites, inner...)
						} else {
							sites = append(sites, site{g, r})
						}
					}
				}
				return true
			})
		})
		for _, k := range g.Kids {
			visit(k)
		}
	}
	visit(root)
	return sites
}

func (s *PassSpec) entryFacts(f *FuncInfo) FactSet {
	var sites []site
	if f.Lit != nil {
		sites = f.Prog.activationSites(f)
	} else if s.Interproc && f.Obj != nil {
		sites = f.Prog.CallSites(f.Obj)
	}
	if len(sites) == 0 {
		return FactSet{}
	}
	var acc FactSet
	for _, st := range sites {
		r := s.Facts(st.f)
		var fs FactSet
		if s.NoInheritAsync && isAsyncSite(st.ref.Node()) {
			fs = FactSet{}
		} else if r == nil {
			fs = FactSet{}
		} else {
			fs = onlyPass(r.Before(st.ref))
			if fs == nil {
				fs = FactSet{}
			}
		}
		if acc == nil {
			acc = fs
		} else {
			acc = intersectFacts(acc, fs)
		}
	}
	return acc
}

// CallSites returns all static call sites of a declared function across the repo
// (including references as a function value, conservatively treated as sites).
func (p *Program) CallSites(obj *types.Func) []site {
	if p.callSites == nil {
		p.callSites = map[*types.Func][]site{}
		for _, g := range p.Funcs() {
			c := g.CFG()
			info := g.Info()
			c.EachNode(func(r NodeRef) {
				InspectNoLits(r.Node(), func(n ast.Node) bool {
					if _, ok := n.(*ast.FuncLit); ok {
						return false
					}
					var id *ast.Ident
					switch e := n.(type) {
					case *ast.Ident:
						id = e
					case *ast.SelectorExpr:
						id = e.Sel
					}
					if id != nil {
						if fn, ok := info.Uses[id].(*types.Func); ok {
							fn = fn.Origin()
							p.callSites[fn] = append(p.callSites[fn], site{g, r})
						}
					}
					return true
				})
			})
		}
	}
	return p.callSites[obj.Origin()]
}

func (s *PassSpec) resultObj(f *FuncInfo, n ast.Node, call *ast.CallExpr) (types.Object, bool) {
	// Find the object receiving the error / bool result of call in statement n.
	info := f.Info()
	tv, ok := info.Types[call]
	if !ok {
		return nil, false
	}
	idx := -1
	switch t := tv.Type.(type) {
	case *types.Tuple:
		for i := t.Len() - 1; i >= 0; i-- {
			if isErrorType(t.At(i).Type()) || isBool(t.At(i).Type()) {
				idx = i
				break
			}
		}
	default:
		if isErrorType(tv.Type) || isBool(tv.Type) {
			idx = 0
		}
	}
	if idx < 0 {
		return nil, false
	}
	switch st := n.(type) {
	case *ast.AssignStmt:
		if len(st.Rhs) == 1 && ast.Unparen(st.Rhs[0]) == ast.Expr(call) && idx < len(st.Lhs) {
			if o := ObjOf(info, st.Lhs[idx]); o != nil {
				return o, true
			}
		}
		if len(st.Rhs) == len(st.Lhs) {
			for i, r := range st.Rhs {
				if ast.Unparen(r) == ast.Expr(call) {
					if o := ObjOf(info, st.Lhs[i]); o != nil {
						return o, true
					}
				}
			}
		}
	case *ast.DeclStmt:
		if gd, ok := st.Decl.(*ast.GenDecl); ok {
			for _, sp := range gd.Specs {
				if vs, ok := sp.(*ast.ValueSpec); ok && len(vs.Values) == 1 && ast.Unparen(vs.Values[0]) == ast.Expr(call) && idx < len(vs.Names) {
					if o := info.Defs[vs.Names[idx]]; o != nil {
						return o, true
					}
				}
			}
		}
	}
	return nil, false
}

func isErrorType(t types.Type) bool {
	return types.Identical(t, types.Universe.Lookup("error").Type())
}
func isBool(t types.Type) bool {
	b, ok := t.Underlying().(*types.Basic)
	return ok && b.Kind() == types.Bool
}

func isAsyncSite(n ast.Node) bool {
	switch n.(type) {
	case *ast.GoStmt, *ast.DeferStmt:
		return true
	}
	return false
}

func (s *PassSpec) node(f *FuncInfo, ref NodeRef, in FactSet) FactSet {
	n := ref.Node()
	info := f.Info()
	if _, isDefer := n.(*ast.DeferStmt); isDefer && s.SkipDefer {
		return in
	}
	var after []string
	for _, v := range s.Vias {
		if v.StmtIn != nil {
			after = append(after, v.StmtIn(f, n, func(id string) bool { return in["pass:"+id] })...)
		}
	}
	if len(after) > 0 {
		defer func() {
			for _, id := range after {
				in["pass:"+id] = true
			}
		}()
	}
	// reassignment kills pending facts on the assigned objects
	assigned := AssignedObjs(info, n)
	for _, o := range assigned {
		pre := fmt.Sprintf("pend:%d:", s.objID(o))
		for k := range in {
			if strings.HasPrefix(k, pre) {
				delete(in, k)
			}
		}
	}
	if f.CFG().selectComms()[n] {
		// emitted by go/cfg ahead of the branch: only kills apply here (conservative), gens happen on clause entry
		return s.kills(f, n, in)
	}
	// An expression node that is a condition is handled on edges; but calls inside it are scanned here.
	isCondNode := false
	if _, _, _, ok := CondEdges(ref.B); ok && ref.I == len(ref.B.Nodes)-1 {
		isCondNode = true
	}
	InspectNoLits(n, func(m ast.Node) bool {
		if _, ok := m.(*ast.FuncLit); ok {
			return false
		}
		call, ok := m.(*ast.CallExpr)
		if !ok {
			return true
		}
		for _, v := range s.Vias {
			if v.Call == nil {
				continue
			}
			id, ok := v.Call(f, call)
			if !ok {
				continue
			}
			if v.Immediate {
				in["pass:"+id] = true
				continue
			}
			if o, ok := s.resultObj(f, n, call); ok {
				in[fmt.Sprintf("pend:%d:%s", s.objID(o), id)] = true
			} else if !isCondNode {
				// result dropped or used in an unrecognised way: establishes nothing
				_ = id
			}
		}
		return true
	})
	for _, v := range s.Vias {
		if v.Stmt != nil {
			if id, ok := v.Stmt(f, n); ok {
				in["pass:"+id] = true
			}
		}
	}
	return s.kills(f, n, in)
}

// gens applies only the fact-establishing part of a statement (used for select clause communications).
func (s *PassSpec) gens(f *FuncInfo, n ast.Node, in FactSet) FactSet {
	InspectNoLits(n, func(m ast.Node) bool {
		if _, ok := m.(*ast.FuncLit); ok {
			return false
		}
		if call, ok := m.(*ast.CallExpr); ok {
			for _, v := range s.Vias {
				if v.Call != nil && v.Immediate {
					if id, ok := v.Call(f, call); ok {
						in["pass:"+id] = true
					}
				}
			}
		}
		return true
	})
	for _, v := range s.Vias {
		if v.Stmt != nil {
			if id, ok := v.Stmt(f, n); ok {
				in["pass:"+id] = true
			}
		}
	}
	return in
}

func (s *PassSpec) kills(f *FuncInfo, n ast.Node, in FactSet) FactSet {
	if s.KillAll != nil && s.KillAll(f, n) {
		for k := range in {
			delete(in, k)
		}
	}
	if s.Kill != nil {
		for _, id := range s.Kill(f, n) {
			delete(in, "pass:"+id)
		}
	}
	if s.KillMatch != nil {
		for k := range in {
			if strings.HasPrefix(k, "pass:") && s.KillMatch(f, n, strings.TrimPrefix(k, "pass:")) {
				delete(in, k)
			}
		}
	}
	return in
}

func (s *PassSpec) edge(f *FuncInfo, from *cfg.Block, k int, in FactSet) FactSet {
	cond, _, _, ok := CondEdges(from)
	if !ok {
		return in
	}
	info := f.Info()
	val := k == 0
	// Compound conditions are also offered whole (for guarded forms such as `n > 0 && i >= n`).
	whole, wval := ast.Unparen(cond), val
	for {
		u, isU := whole.(*ast.UnaryExpr)
		if !isU || u.Op != token.NOT {
			break
		}
		whole, wval = ast.Unparen(u.X), !wval
	}
	if be, isB := whole.(*ast.BinaryExpr); isB && (be.Op == token.LAND || be.Op == token.LOR) {
		for _, v := range s.Vias {
			if v.Cond == nil {
				continue
			}
			if id, passVal, ok := v.Cond(f, whole); ok && wval == passVal {
				in["pass:"+id] = true
			}
		}
	}
	for _, a := range Implied(cond, val) {
		// error / pointer nil tests
		if obj, nilOnTrue, ok := NilTest(info, a.E); ok {
			if a.Val == nilOnTrue { // obj is nil on this edge
				pre := fmt.Sprintf("pend:%d:", s.objID(obj))
				for key := range in {
					if strings.HasPrefix(key, pre) {
						in["pass:"+strings.TrimPrefix(key, pre)] = true
						delete(in, key)
					}
				}
			}
		}
		// bool variable tests
		if o := ObjOf(info, a.E); o != nil && a.Val {
			if _, isVar := o.(*types.Var); isVar && isBool(o.Type()) {
				pre := fmt.Sprintf("pend:%d:", s.objID(o))
				for key := range in {
					if strings.HasPrefix(key, pre) {
						in["pass:"+strings.TrimPrefix(key, pre)] = true
						delete(in, key)
					}
				}
			}
		}
		// direct call in condition: `f(x) == nil`, `f(x) != nil`, `!ok(x)`, `ok(x)`
		if call, passVal, ok := callTest(info, a.E); ok {
			for _, v := range s.Vias {
				if v.Call == nil || v.Immediate {
					continue
				}
				if id, ok := v.Call(f, call); ok && a.Val == passVal {
					in["pass:"+id] = true
				}
			}
		}
		for _, v := range s.Vias {
			if v.Cond == nil {
				continue
			}
			if id, passVal, ok := v.Cond(f, a.E); ok && a.Val == passVal {
				in["pass:"+id] = true
			}
		}
	}
	return in
}

// callTest recognises `call == nil` (pass when true), `call != nil` (pass when false),
// and a bare boolean call (pass when true).
func callTest(info *types.Info, e ast.Expr) (*ast.CallExpr, bool, bool) {
	e = ast.Unparen(e)
	if c, ok := e.(*ast.CallExpr); ok {
		if tv, ok := info.Types[c]; ok && isBool(tv.Type) {
			return c, true, true
		}
		return nil, false, false
	}
	be, ok := e.(*ast.BinaryExpr)
	if !ok || (be.Op != token.EQL && be.Op != token.NEQ) {
		return nil, false, false
	}
	isNil := func(x ast.Expr) bool {
		id, ok := ast.Unparen(x).(*ast.Ident)
		if !ok {
			return false
		}
		_, n := info.Uses[id].(*types.Nil)
		return n
	}
	var c *ast.CallExpr
	if isNil(be.Y) {
		c, _ = ast.Unparen(be.X).(*ast.CallExpr)
	} else if isNil(be.X) {
		c, _ = ast.Unparen(be.Y).(*ast.CallExpr)
	}
	if c == nil {
		return nil, false, false
	}
	return c, be.Op == token.EQL, true
}

// ViaCall is a convenience: a via matched by callee identity.
func ViaCall(id string, match func(fn *types.Func) bool) Via {
	return Via{Call: func(f *FuncInfo, call *ast.CallExpr) (string, bool) {
		if fn := Callee(f.Info(), call); fn != nil && match(fn) {
			return id, true
		}
		return "", false
	}}
}

// callbackSites: the node at ref (in function g) passes a function value (recognised by isArg) as a direct argument
// to a repository method of g's own receiver type with the same receiver name, and that method uses the parameter
// only by calling it. The function value then runs at those calls: they are returned as its activation sites.
// nil when the pattern does not apply (the caller falls back to the creation / use site).
func (p *Program) callbackSites(g *FuncInfo, ref NodeRef, isArg func(ast.Expr) bool) []site {
	var out []site
	matched := false
	InspectNoLits(ref.Node(), func(n ast.Node) bool {
		call, ok := n.(*ast.CallExpr)
		if !ok || matched {
			return true
		}
		idx := -1
		for i, a := range call.Args {
			if isArg(a) {
				idx = i
			}
		}
		if idx < 0 {
			return true
		}
		callee := p.CalleeInfo(g.Info(), call)
		if callee == nil || callee.Decl == nil || callee.Obj == nil || callee.Decl.Recv == nil {
			return true
		}
		root := g.Root()
		if root.Decl == nil || root.Decl.Recv == nil || len(root.Decl.Recv.List) != 1 || len(callee.Decl.Recv.List) != 1 ||
			len(root.Decl.Recv.List[0].Names) != 1 || len(callee.Decl.Recv.List[0].Names) != 1 ||
			root.Decl.Recv.List[0].Names[0].Name != callee.Decl.Recv.List[0].Names[0].Name ||
			!types.Identical(root.Info().TypeOf(root.Decl.Recv.List[0].Type), callee.Info().TypeOf(callee.Decl.Recv.List[0].Type)) {
			return true
		}
		// the call must be made on the receiver itself (h.method(...)): the textual lock names then denote the same mutex
		sel, ok := ast.Unparen(call.Fun).(*ast.SelectorExpr)
		if !ok {
			return true
		}
		if rid, ok := ast.Unparen(sel.X).(*ast.Ident); !ok || rid.Name != root.Decl.Recv.List[0].Names[0].Name {
			return true
		}
		// parameter object
		var param types.Object
		k := 0
		for _, fld := range callee.Type.Params.List {
			for _, nm := range fld.Names {
				if k == idx {
					param = callee.Info().Defs[nm]
				}
				k++
			}
		}
		if param == nil {
			return true
		}
		// every use of the parameter in the callee (its own body and nested literals) is the Fun of a call, not in go/defer
		callOnly := true
		var sitesIn []site
		var visit func(h *FuncInfo)
		visit = func(h *FuncInfo) {
			hi := h.Info()
			funOf := map[*ast.Ident]bool{}
			async := map[*ast.CallExpr]bool{}
			ast.Inspect(h.Body, func(m ast.Node) bool {
				switch x := m.(type) {
				case *ast.GoStmt:
					async[x.Call] = true
				case *ast.DeferStmt:
					async[x.Call] = true
				case *ast.CallExpr:
					if id, ok := ast.Unparen(x.Fun).(*ast.Ident); ok && hi.Uses[id] == param {
						if async[x] {
							callOnly = false
						}
						funOf[id] = true
					}
				}
				return true
			})
			h.CFG().EachNode(func(r NodeRef) {
				InspectNoLits(r.Node(), func(m ast.Node) bool {
					if id, ok := m.(*ast.Ident); ok && hi.Uses[id] == param {
						if funOf[id] {
							sitesIn = append(sitesIn, site{h, r})
						} else {
							callOnly = false
						}
					}
					return true
				})
			})
			for _, kid := range h.Kids {
				visit(kid)
			}
		}
		visit(callee)
		if callOnly && len(sitesIn) > 0 {
			matched = true
			out = sitesIn
		}
		return true
	})
	if !matched {
		return nil
	}
	return out
}

// condGuards returns the atoms whose value is known when the sub-expression target of the condition cond is evaluated:
// go/cfg keeps a short-circuit condition as one node, so the order inside it is read off the expression itself
// (in `a || b` b runs only when a was false, in `a && b` only when a was true).
func condGuards(cond ast.Expr, target ast.Node) []Atom {
	contains := func(e ast.Expr) bool { return e.Pos() <= target.Pos() && target.End() <= e.End() }
	var out []Atom
	e := cond
	for {
		switch x := e.(type) {
		case *ast.ParenExpr:
			e = x.X
			continue
		case *ast.UnaryExpr:
			if x.Op == token.NOT && contains(x.X) {
				e = x.X
				continue
			}
		case *ast.BinaryExpr:
			if x.Op == token.LOR || x.Op == token.LAND {
				if contains(x.X) {
					e = x.X
					continue
				}
				if contains(x.Y) {
					out = append(out, Implied(x.X, x.Op == token.LAND)...)
					e = x.Y
					continue
				}
			}
		}
		return out
	}
}

// PassedIn is Passed for a sub-expression target of the node at ref: it also counts what the operands in front of target,
// inside the same short-circuit condition, establish.
func (s *PassSpec) PassedIn(f *FuncInfo, ref NodeRef, target ast.Node, id string) bool {
	if s.Passed(f, ref, id) {
		return true
	}
	cond, ok := ref.Node().(ast.Expr)
	if !ok || target == nil {
		return false
	}
	info := f.Info()
	for _, a := range condGuards(cond, target) {
		for _, v := range s.Vias {
			if v.Cond != nil {
				if vid, passVal, ok := v.Cond(f, a.E); ok && vid == id && a.Val == passVal {
					return true
				}
			}
		}
		if call, passVal, ok := callTest(info, a.E); ok {
			for _, v := range s.Vias {
				if v.Call == nil || v.Immediate {
					continue
				}
				if vid, ok := v.Call(f, call); ok && vid == id && a.Val == passVal {
					return true
				}
			}
		}
	}
	return false
}
