package tf

import (
	"fmt"
	"go/ast"
	"go/token"
	"go/types"
	"strings"
)

func init() {
	Register(&Rule{
		Name:  "R-TICKER-LOOP-LIVES",
		Props: []string{"C04", "C05"},
		Min:   1,
		Doc: "a periodic goroutine of the receiver ends with the receive and not before: in the function literals of RecvManifestMultiStream that loop over a time.Ticker, every return lies in the select clause of a context's Done() - " +
			"a metadata flusher that ends when one tick finds nothing to flush leaves every later file without periodic flushes: a kill in the middle of a large file loses all its marks, and the resumed run fetches everything again",
		Run: runTickerLoopLives,
	})
	Register(&Rule{
		Name:  "R-WG-ADD-STARTS",
		Props: []string{"C09"},
		Min:   1,
		Doc: "what is counted into a WaitGroup is started: in internal/ice every path from a `wg.Add(1)` inside a loop reaches a go statement before the next iteration or a return - a candidate that is counted and then skipped never calls Done, " +
			"the `all dials have returned` signal never comes, the failed direct phase never gives way to the relay phase, and the dialling side ends without a connection although a reachable candidate was in the list",
		Run: runWgAddStarts,
	})
	Register(&Rule{
		Name:  "R-ADDRESSEE-VERBATIM",
		Props: []string{"C10"},
		Min:   1,
		Doc: "the server routes by the addressee the author wrote: handleWebSocket never assigns the To field of a client's envelope (From and SessionID are the server's to set, To is not) - a trimmed or otherwise rewritten addressee reaches another peer than the one named, " +
			"makes a peer whose id differs only in what the rewrite removes unreachable, and turns an addressee that rewrites to \"\" into a broadcast",
		Run: runAddresseeVerbatim,
	})
	Register(&Rule{
		Name:  "R-NO-INT-DIVISION-IN-RATE",
		Props: []string{"C14"},
		Min:   0,
		Doc: "a configured rate is not rounded down to `no limit`: in cmd/thruserv no conversion float64(<integer quotient>) - the per-minute limits are converted to per-second rates in floating point; divided as integers first, every rate below 60 per minute (the defaults included) becomes 0, " +
			"which every limiter treats as unlimited. Rule with expected count zero: the positive example is the hand mutant R13-rate-integer-division",
		Run: runNoIntDivisionInRate,
	})
	Register(&Rule{
		Name:  "R-JOIN-CODE-UNIQUE",
		Props: []string{"C14"},
		Min:   1,
		Doc: "a join code is tested for uniqueness against the table of join codes: in internal/session every map of the store that is indexed with a session's JoinCode (or a freshly drawn code) is the map keyed by join codes (byCode) - " +
			"the collision-retry loop testing a re-drawn code against the table keyed by session ids accepts a code that is taken: two live sessions share a code, and deleting one kills the other's",
		Run: runJoinCodeUnique,
	})
	Register(&Rule{
		Name:  "R-TURNS-IMPLIES-TCP",
		Props: []string{"C16"},
		Min:   1,
		Doc: "the client reaches a turns: relay over TCP whatever the URL's options say: in parseTurnServer the TCP flag of the returned configuration is set on every path on which the scheme is turns (an assignment under `scheme == \"turns\"`, or a defining expression that mentions the scheme) - " +
			"with the flag taken from ?transport alone, a bare turns: URL (the example of thruserv --help) makes the client speak plain UDP to the relay's TLS port",
		Run: runTurnsImpliesTCP,
	})
}

func runTickerLoopLives(c *Ctx) {
	p := c.P
	recv := p.Func("transfer.RecvManifestMultiStream")
	if recv == nil {
		c.MissingAnchor("transfer.RecvManifestMultiStream")
		return
	}
	n := 0
	for _, f := range allKids(recv) {
		if f.Lit == nil {
			continue
		}
		info := f.Info()
		hasTicker := false
		InspectNoLits(f.Body, func(m ast.Node) bool {
			if call, ok := m.(*ast.CallExpr); ok && calleeIs(info, call, "time", "NewTicker") {
				hasTicker = true
			}
			return true
		})
		if !hasTicker {
			continue
		}
		n++
		var bad []token.Pos
		InspectNoLits(f.Body, func(m ast.Node) bool {
			rs, ok := m.(*ast.ReturnStmt)
			if !ok {
				return true
			}
			cc, in := enclosingCommOf(f.Body, rs)
			okDone := false
			if in && cc.Comm != nil {
				if dc, ok := ast.Unparen(commRecvExpr(cc)).(*ast.CallExpr); ok {
					if s2, ok := ast.Unparen(dc.Fun).(*ast.SelectorExpr); ok && s2.Sel.Name == "Done" {
						okDone = true
					}
				}
			}
			if !okDone {
				bad = append(bad, rs.Pos())
			}
			return true
		})
		if len(bad) == 0 {
			c.OK("ticker-lives/"+f.Name, f.Pos(), "the ticker loop returns only when its context ends")
		} else {
			c.Bad("ticker-lives/"+f.Name, bad[0], f.Name+" runs a ticker loop and returns outside the clause of its context's Done(): the periodic work (the flush of resume metadata every second) stops for the rest of the receive - "+
				"files that begin later are flushed only when they complete, and a receiver killed in the middle of one loses every mark it made")
		}
	}
	if n == 0 {
		c.Bad("ticker-lives/none", recv.Pos(), "found no ticker loop in the closures of RecvManifestMultiStream")
	}
}

func runWgAddStarts(c *Ctx) {
	p := c.P
	n := 0
	for _, f := range p.FuncsIn("internal/ice") {
		if f.Body == nil || strings.HasSuffix(p.Fset.Position(f.Pos()).Filename, "_test.go") {
			continue
		}
		info := f.Info()
		cfg := f.CFG()
		cfg.Calls(func(r NodeRef, call *ast.CallExpr) {
			sel, ok := ast.Unparen(call.Fun).(*ast.SelectorExpr)
			if !ok || sel.Sel.Name != "Add" || len(call.Args) != 1 {
				return
			}
			if t := info.TypeOf(sel.X); t == nil || !strings.HasSuffix(strings.TrimPrefix(t.String(), "*"), "sync.WaitGroup") {
				return
			}
			// only adds inside a loop
			inLoop := false
			ast.Inspect(f.Body, func(m ast.Node) bool {
				switch l := m.(type) {
				case *ast.ForStmt:
					if l.Body.Pos() <= call.Pos() && call.End() <= l.Body.End() {
						inLoop = true
					}
				case *ast.RangeStmt:
					if l.Body.Pos() <= call.Pos() && call.End() <= l.Body.End() {
						inLoop = true
					}
				}
				return true
			})
			if !inLoop {
				return
			}
			n++
			self := r.Node()
			started := allPathsHit(cfg, r, func(nd ast.Node) bool {
				_, isGo := nd.(*ast.GoStmt)
				return isGo
			}, func(nd ast.Node) bool {
				if nd == self {
					return true
				}
				_, isRet := nd.(*ast.ReturnStmt)
				return isRet
			})
			c.Check(started, fmt.Sprintf("wg-add-starts/%s#%d", f.Name, n), call.Pos(), "every counted dial is started",
				f.Name+" counts a goroutine into "+types.ExprString(sel.X)+" and can go on to the next candidate (or return) without starting it: nobody calls Done for it, the wait for all dials never ends, "+
					"and a phase in which nothing succeeds never reports failure - the relay candidates behind it are never tried")
		})
	}
	if n == 0 {
		// all dials counted in one Add in front of the loop: nothing is counted per iteration, so nothing can be counted and skipped
		anyAdd := false
		for _, f := range p.FuncsIn("internal/ice") {
			if f.Body == nil || strings.HasSuffix(p.Fset.Position(f.Pos()).Filename, "_test.go") {
				continue
			}
			info := f.Info()
			ast.Inspect(f.Body, func(m ast.Node) bool {
				if call, ok := m.(*ast.CallExpr); ok {
					if sel, ok := ast.Unparen(call.Fun).(*ast.SelectorExpr); ok && sel.Sel.Name == "Add" {
						if t := info.TypeOf(sel.X); t != nil && strings.HasSuffix(strings.TrimPrefix(t.String(), "*"), "sync.WaitGroup") {
							anyAdd = true
						}
					}
				}
				return true
			})
		}
		if anyAdd {
			c.OK("wg-add-starts/none", token.NoPos, "no WaitGroup.Add inside a loop in internal/ice (the dials are counted in front of it)")
		} else {
			c.Bad("wg-add-starts/none", token.NoPos, "found no WaitGroup.Add in internal/ice")
		}
	}
}

func runAddresseeVerbatim(c *Ctx) {
	p := c.P
	ws := p.Func("cmd/thruserv.handleWebSocket")
	if ws == nil {
		c.MissingAnchor("cmd/thruserv.handleWebSocket")
		return
	}
	info := ws.Info()
	var bad []token.Pos
	seenEnv := false
	ast.Inspect(ws.Body, func(m ast.Node) bool {
		as, ok := m.(*ast.AssignStmt)
		if !ok {
			return true
		}
		for _, l := range as.Lhs {
			sel, ok := ast.Unparen(l).(*ast.SelectorExpr)
			if !ok {
				continue
			}
			t := info.TypeOf(sel.X)
			if t == nil || !strings.HasSuffix(strings.TrimPrefix(t.String(), "*"), "protocol.Envelope") {
				continue
			}
			if o := rootObj(info, sel.X); o == nil || o.Name() != "env" {
				continue // envelopes the server makes itself (errorEnv, notices)
			}
			seenEnv = true
			if sel.Sel.Name == "To" {
				bad = append(bad, as.Pos())
			}
		}
		return true
	})
	if !seenEnv {
		c.Bad("addressee-verbatim/none", ws.Pos(), "found no assignment to a field of the client's envelope (From / SessionID) in handleWebSocket: the rule lost its anchor")
		return
	}
	if len(bad) == 0 {
		c.OK("addressee-verbatim/To", ws.Pos(), "the client's To field is never assigned")
	} else {
		c.Bad("addressee-verbatim/To", bad[0], "handleWebSocket assigns env.To of a client's message: the message is routed to (and shows) another addressee than the author named - `bob ` reaches bob, the peer `bob ` cannot be addressed, and an addressee that rewrites to \"\" becomes a broadcast")
	}
}

func runNoIntDivisionInRate(c *Ctx) {
	p := c.P
	n := 0
	for _, f := range p.Funcs() {
		if f.Body == nil || !strings.Contains(p.Fset.Position(f.Pos()).Filename, "/cmd/thruserv/") || strings.HasSuffix(p.Fset.Position(f.Pos()).Filename, "_test.go") {
			continue
		}
		info := f.Info()
		InspectNoLits(f.Body, func(m ast.Node) bool {
			call, ok := m.(*ast.CallExpr)
			if !ok || len(call.Args) != 1 {
				return true
			}
			tv, ok := info.Types[call.Fun]
			if !ok || !tv.IsType() {
				return true
			}
			if b, ok := tv.Type.Underlying().(*types.Basic); !ok || b.Info()&types.IsFloat == 0 {
				return true
			}
			q, ok := ast.Unparen(call.Args[0]).(*ast.BinaryExpr)
			if !ok || q.Op != token.QUO {
				return true
			}
			if b, ok := info.TypeOf(q).Underlying().(*types.Basic); !ok || b.Info()&types.IsInteger == 0 {
				return true
			}
			if info.Types[q].Value != nil {
				return true // a constant expression
			}
			n++
			c.Bad(fmt.Sprintf("int-division/%s#%d", f.Name, n), call.Pos(), f.Name+" converts the integer quotient "+types.ExprString(q)+" to a float: the division has already thrown the fraction away - a per-minute limit below the divisor becomes 0, "+
				"and a rate of 0 is `no limit` for every limiter of the server")
			return true
		})
	}
	if n == 0 {
		c.OK("int-division/none", token.NoPos, "no float conversion of an integer quotient in cmd/thruserv")
	}
}

func runJoinCodeUnique(c *Ctx) {
	p := c.P
	n := 0
	per := map[string]int{}
	for _, f := range p.FuncsIn("internal/session") {
		if f.Body == nil || strings.HasSuffix(p.Fset.Position(f.Pos()).Filename, "_test.go") {
			continue
		}
		info := f.Info()
		isCode := func(e ast.Expr) bool {
			for _, d := range resolveExprs(f, e, 2) {
				switch x := ast.Unparen(d).(type) {
				case *ast.SelectorExpr:
					if x.Sel.Name == "JoinCode" {
						return true
					}
				case *ast.CallExpr:
					if g := p.CalleeInfo(info, x); g != nil && strings.Contains(strings.ToLower(g.Name), "joincode") {
						return true
					}
				case *ast.Ident:
					if strings.Contains(strings.ToLower(x.Name), "joincode") || x.Name == "code" {
						return true
					}
				}
			}
			return false
		}
		ast.Inspect(f.Body, func(m ast.Node) bool {
			ix, ok := m.(*ast.IndexExpr)
			if !ok || !isCode(ix.Index) {
				return true
			}
			sel, ok := ast.Unparen(ix.X).(*ast.SelectorExpr)
			if !ok {
				return true
			}
			if _, isMap := types.Unalias(info.TypeOf(ix.X)).Underlying().(*types.Map); !isMap {
				return true
			}
			n++
			per[f.Name]++
			c.Check(strings.Contains(strings.ToLower(sel.Sel.Name), "code"), fmt.Sprintf("join-code-unique/%s#%d", f.Name, per[f.Name]), ix.Pos(), "a join code indexes the table of join codes",
				f.Name+" indexes "+types.ExprString(ix.X)+" with a join code: that table is not keyed by join codes, so the test finds nothing whatever the code - a re-drawn code that is already taken is accepted, two live sessions share it, "+
					"peers of the older one are admitted to the newer, and deleting the newer one kills the older one's code")
			return true
		})
	}
	if n == 0 {
		c.Bad("join-code-unique/none", token.NoPos, "found no map indexed with a join code in internal/session")
	}
}

func runTurnsImpliesTCP(c *Ctx) {
	p := c.P
	f := p.Func("ice.parseTurnServer")
	if f == nil {
		c.MissingAnchor("ice.parseTurnServer")
		return
	}
	info := f.Info()
	// the TCP flag: the value of the field whose name says TCP in the returned composite literal
	var tcpVar types.Object
	var tcpExpr ast.Expr
	ast.Inspect(f.Body, func(m ast.Node) bool {
		kv, ok := m.(*ast.KeyValueExpr)
		if !ok {
			return true
		}
		if k, ok := kv.Key.(*ast.Ident); ok && strings.Contains(strings.ToLower(k.Name), "tcp") {
			tcpExpr = kv.Value
			tcpVar = ObjOf(info, kv.Value)
		}
		return true
	})
	if tcpExpr == nil {
		c.Unknown("turns-tcp/flag", f.Pos(), "cannot find the TCP field of the configuration parseTurnServer returns")
		return
	}
	mentionsTurns := func(e ast.Expr) bool {
		hit := false
		ast.Inspect(e, func(k ast.Node) bool {
			if be, ok := k.(*ast.BinaryExpr); ok && (be.Op == token.EQL || be.Op == token.NEQ) {
				for _, side := range []ast.Expr{be.X, be.Y} {
					if s, ok := constString(info, side); ok && s == "turns" {
						hit = true
					}
				}
			}
			return true
		})
		return hit
	}
	good := mentionsTurns(tcpExpr)
	if tcpVar != nil {
		ast.Inspect(f.Body, func(m ast.Node) bool {
			as, ok := m.(*ast.AssignStmt)
			if !ok {
				return true
			}
			for i, l := range as.Lhs {
				if ObjOf(info, l) != tcpVar || i >= len(as.Rhs) {
					continue
				}
				if mentionsTurns(as.Rhs[i]) {
					good = true
				}
				if types.ExprString(as.Rhs[i]) == "true" {
					for _, is := range enclosingIfs(f.Body, as) {
						if is.Body.Pos() <= as.Pos() && as.End() <= is.Body.End() {
							for _, a := range Implied(is.Cond, true) {
								if a.Val && mentionsTurns(a.E) {
									if be, ok := ast.Unparen(a.E).(*ast.BinaryExpr); ok && be.Op == token.EQL {
										good = true
									}
								}
							}
						}
					}
				}
			}
			return true
		})
	}
	c.Check(good, "turns-tcp/flag", tcpExpr.Pos(), "the TCP flag is set whenever the scheme is turns",
		"parseTurnServer decides the TCP flag without looking at the scheme: for a turns: URL without ?transport=tcp the flag stays false, and the client, which looks at it first, speaks plain UDP to the relay's TLS port - user, secret and address all match, and no relay candidate ever comes up")
}

func init() {
	Register(&Rule{
		Name:  "R-PLAN-BEFORE-READY",
		Props: []string{"C17", "C04"},
		Min:   1,
		Doc: "a file is released to the workers only with its resume plan in place: in the select clause of SendManifestMultiStream's resume goroutine that takes the receiver's report, every setReady(nil) lies behind the call of applyResumeInfo on that report - " +
			"released first, the workers hand out chunks the report lists as present (without a plan) for as long as decoding the bitmap and the statistics callback take",
		Run: runPlanBeforeReady,
	})
}

func runPlanBeforeReady(c *Ctx) {
	p := c.P
	send := p.Func("transfer.SendManifestMultiStream")
	if send == nil {
		c.MissingAnchor("transfer.SendManifestMultiStream")
		return
	}
	n := 0
	for _, f := range allKids(send) {
		if f.Lit == nil {
			continue
		}
		info := f.Info()
		InspectNoLits(f.Body, func(m ast.Node) bool {
			cc, ok := m.(*ast.CommClause)
			if !ok {
				return true
			}
			// the clause that applies a report
			var apply *ast.CallExpr
			for _, st := range cc.Body {
				ast.Inspect(st, func(k ast.Node) bool {
					if call, ok := k.(*ast.CallExpr); ok && apply == nil {
						if g := p.CalleeInfo(info, call); g != nil && strings.HasSuffix(g.Name, "$applyResumeInfo") {
							apply = call
						}
					}
					return true
				})
			}
			if apply == nil {
				return true
			}
			n++
			var early token.Pos
			for _, st := range cc.Body {
				ast.Inspect(st, func(k ast.Node) bool {
					call, ok := k.(*ast.CallExpr)
					if !ok || len(call.Args) != 1 {
						return true
					}
					if sel, ok := ast.Unparen(call.Fun).(*ast.SelectorExpr); ok && sel.Sel.Name == "setReady" && types.ExprString(call.Args[0]) == "nil" && call.Pos() < apply.Pos() {
						early = call.Pos()
					}
					return true
				})
			}
			if early == token.NoPos {
				c.OK(fmt.Sprintf("plan-before-ready/%s#%d", f.Name, n), apply.Pos(), "the file is released behind applyResumeInfo")
			} else {
				c.Bad(fmt.Sprintf("plan-before-ready/%s#%d", f.Name, n), early, f.Name+" releases the file (setReady(nil)) in front of applyResumeInfo: until the plan is installed the workers hand out chunks from the start, the ones the report lists as present included")
			}
			return true
		})
	}
	if n == 0 {
		c.Bad("plan-before-ready/none", send.Pos(), "found no select clause that calls applyResumeInfo in the closures of SendManifestMultiStream")
	}
}

func init() {
	Register(&Rule{
		Name:  "R-MANIFEST-SIZE-FIXED",
		Props: []string{"C02", "C19"},
		Min:   0,
		Doc: "the size a file was listed with is the size it is sent with: the non-test code of internal/transfer never assigns the Size field of a manifest.FileItem - the schedule (chunkSizeForIndex), the chunk count and FileBegin all speak of the listed size; " +
			"with the size refreshed at open time, a source that shrank to a whole number of chunks gets chunks of length 0 that are skipped without a frame and without an error, and both sides wait for ever. Rule with expected count zero: the positive example is the hand mutant R13-item-size-refreshed-at-open",
		Run: runManifestSizeFixed,
	})
	Register(&Rule{
		Name:  "R-CONTROL-STREAM-PINNED",
		Props: []string{"C03"},
		Min:   1,
		Doc: "over several connections the control stream is the first stream of the first connection on both sides: multiConn.AcceptStream takes its first stream from conns[0] under a once-only election (CompareAndSwap on a field of the multiConn) before the accept loops of the other connections start - " +
			"taken from whichever connection delivers first, a receiver that enters late finds data streams pending on the other connections and reads one of them as the manifest header",
		Run: runControlStreamPinned,
	})
}

func runManifestSizeFixed(c *Ctx) {
	p := c.P
	n := 0
	for _, f := range p.FuncsIn("internal/transfer") {
		if f.Body == nil || strings.HasSuffix(p.Fset.Position(f.Pos()).Filename, "_test.go") {
			continue
		}
		info := f.Info()
		InspectNoLits(f.Body, func(m ast.Node) bool {
			var lhs []ast.Expr
			switch st := m.(type) {
			case *ast.AssignStmt:
				lhs = st.Lhs
			case *ast.IncDecStmt:
				lhs = []ast.Expr{st.X}
			}
			for _, l := range lhs {
				sel, ok := ast.Unparen(l).(*ast.SelectorExpr)
				if !ok || sel.Sel.Name != "Size" {
					continue
				}
				if t := info.TypeOf(sel.X); t == nil || !strings.HasSuffix(strings.TrimPrefix(t.String(), "*"), "manifest.FileItem") {
					continue
				}
				n++
				c.Bad(fmt.Sprintf("manifest-size/%s#%d", f.Name, n), l.Pos(), f.Name+" assigns "+types.ExprString(l)+": the listed size drives the chunk lengths of the schedule while the chunk count and FileBegin were computed from the size at scan time - "+
					"after a change of the source the two disagree, chunks of length 0 are skipped without a frame, FileEnd goes out, the receiver never completes the file and both sides wait")
			}
			return true
		})
	}
	if n == 0 {
		c.OK("manifest-size/none", token.NoPos, "no assignment to FileItem.Size in internal/transfer")
	}
}

func runControlStreamPinned(c *Ctx) {
	p := c.P
	f := p.Func("transfer.(*multiConn).AcceptStream")
	if f == nil {
		c.MissingAnchor("transfer.(*multiConn).AcceptStream")
		return
	}
	info := f.Info()
	pinned := false
	ast.Inspect(f.Body, func(m ast.Node) bool {
		is, ok := m.(*ast.IfStmt)
		if !ok {
			return true
		}
		// a once-only election in the condition
		elect := false
		ast.Inspect(is.Cond, func(k ast.Node) bool {
			if call, ok := k.(*ast.CallExpr); ok {
				name := ""
				switch fn := ast.Unparen(call.Fun).(type) {
				case *ast.SelectorExpr:
					name = fn.Sel.Name
				}
				if strings.HasPrefix(name, "CompareAndSwap") {
					elect = true
				}
			}
			return true
		})
		if !elect {
			return true
		}
		// the body accepts from conns[0] and returns that stream
		ast.Inspect(is.Body, func(k ast.Node) bool {
			call, ok := k.(*ast.CallExpr)
			if !ok {
				return true
			}
			sel, ok := ast.Unparen(call.Fun).(*ast.SelectorExpr)
			if !ok || sel.Sel.Name != "AcceptStream" {
				return true
			}
			if ix, ok := ast.Unparen(sel.X).(*ast.IndexExpr); ok {
				if v, ok := constInt(info, ix.Index); ok && v == 0 {
					pinned = true
				}
			}
			return true
		})
		return true
	})
	c.Check(pinned, "control-pinned/first-accept", f.Pos(), "the first accepted stream is the first connection's",
		"multiConn.AcceptStream does not take its first stream from conns[0] under a once-only election: the sender opens its control stream on the first connection, but a receiver that starts accepting late finds streams pending on several connections - "+
			"a data stream (or one opened and not yet written) is read as the manifest header: `invalid manifest magic`, or both sides hang")
}

func init() {
	Register(&Rule{
		Name:  "R-WRITER-WAIT-BOUNDED",
		Props: []string{"C11"},
		Min:   1,
		Doc: "the hub never waits for a connection's writer without a bound: in internal/peers every receive from a peerConnection's done channel is a clause of a select that also has a timer clause (time.After / a Timer's C) - " +
			"the server's send function writes to the socket without a deadline, so the writer of a peer whose socket is stalled when it leaves never ends: an unbounded wait in remove keeps the handler from its clean-up, the empty session stays in the hub and nobody is told that the peer left",
		Run: runWriterWaitBounded,
	})
	Register(&Rule{
		Name:  "R-RESOLVER-SKIPS-LIKE-SCANNER",
		Props: []string{"C13", "C01"},
		Min:   1,
		Doc: "the host's path resolver walks the selections as the scanner does: buildPathResolver skips a selection (a `continue` under a map look-up: `already seen`) only if manifest.ScanPaths skips it in the same way - " +
			"the ordinal prefixes of equal base names are counted over the selections each of them keeps; a resolver that drops a location typed twice knows `docs` where the manifest lists `1_docs` and `2_docs`, and the listed files resolve to nothing (or, with a third selection, to another source)",
		Run: runResolverSkipsLikeScanner,
	})
}

func runWriterWaitBounded(c *Ctx) {
	p := c.P
	n := 0
	per := map[string]int{}
	for _, f := range p.FuncsIn("internal/peers") {
		if f.Body == nil || strings.HasSuffix(p.Fset.Position(f.Pos()).Filename, "_test.go") {
			continue
		}
		info := f.Info()
		isDone := func(e ast.Expr) bool {
			u, ok := ast.Unparen(e).(*ast.UnaryExpr)
			if !ok || u.Op != token.ARROW {
				return false
			}
			sel, ok := ast.Unparen(u.X).(*ast.SelectorExpr)
			if !ok || sel.Sel.Name != "done" {
				return false
			}
			t := info.TypeOf(sel.X)
			return t != nil && strings.HasSuffix(strings.TrimPrefix(t.String(), "*"), "peerConnection")
		}
		ast.Inspect(f.Body, func(m ast.Node) bool {
			switch st := m.(type) {
			case *ast.ExprStmt:
				if isDone(st.X) {
					if _, inComm := enclosingCommHead(f.Body, st); !inComm {
						n++
						per[f.Name]++
						c.Bad(fmt.Sprintf("writer-wait/%s#%d", f.Name, per[f.Name]), st.Pos(), f.Name+" waits for a connection's writer with a bare receive: the writer sits in a socket write that has no deadline for as long as the peer's socket is stalled - "+
							"the remove function never returns, the handler never reaches its clean-up, the empty session stays routable and its peers are never told")
					}
				}
			case *ast.SelectStmt:
				hasDone, hasTimer := false, false
				for _, cl := range st.Body.List {
					cc := cl.(*ast.CommClause)
					if cc.Comm == nil {
						hasTimer = true // default: no wait at all
						continue
					}
					if es, ok := cc.Comm.(*ast.ExprStmt); ok && isDone(es.X) {
						hasDone = true
						continue
					}
					rcv := types.ExprString(commRecvExpr(cc))
					if strings.Contains(rcv, "time.After") || strings.HasSuffix(rcv, ".C") || strings.Contains(rcv, "Done()") {
						hasTimer = true
					}
				}
				if hasDone {
					n++
					per[f.Name]++
					c.Check(hasTimer, fmt.Sprintf("writer-wait/%s#%d", f.Name, per[f.Name]), st.Pos(), "the wait for the writer has a timer clause",
						f.Name+" waits for a connection's writer in a select without a timer clause: with a stalled socket the wait never ends")
				}
			}
			return true
		})
	}
	if n == 0 {
		c.Bad("writer-wait/none", token.NoPos, "found no wait for a peerConnection's done channel in internal/peers")
	}
}

// enclosingCommHead: st is the communication of a select clause (not a statement of its body).
func enclosingCommHead(root ast.Node, st ast.Stmt) (*ast.CommClause, bool) {
	var found *ast.CommClause
	ast.Inspect(root, func(m ast.Node) bool {
		if cc, ok := m.(*ast.CommClause); ok && cc.Comm == st {
			found = cc
		}
		return true
	})
	return found, found != nil
}

func runResolverSkipsLikeScanner(c *Ctx) {
	p := c.P
	res := p.Func("app.buildPathResolver")
	scan := p.Func("manifest.ScanPaths")
	if res == nil || scan == nil {
		c.MissingAnchor("app.buildPathResolver / manifest.ScanPaths")
		return
	}
	// `continue` under a map look-up, in loops of the function body (literals excluded)
	skips := func(f *FuncInfo) []token.Pos {
		info := f.Info()
		var out []token.Pos
		InspectNoLits(f.Body, func(m ast.Node) bool {
			is, ok := m.(*ast.IfStmt)
			if !ok {
				return true
			}
			lookup := false
			check := func(e ast.Expr) {
				ast.Inspect(e, func(k ast.Node) bool {
					if ix, ok := k.(*ast.IndexExpr); ok {
						if _, isMap := types.Unalias(info.TypeOf(ix.X)).Underlying().(*types.Map); isMap {
							lookup = true
						}
					}
					return true
				})
			}
			if as, ok := is.Init.(*ast.AssignStmt); ok {
				for _, r := range as.Rhs {
					check(r)
				}
			}
			check(is.Cond)
			if !lookup {
				return true
			}
			for _, st := range is.Body.List {
				if bs, ok := st.(*ast.BranchStmt); ok && bs.Tok == token.CONTINUE {
					out = append(out, bs.Pos())
				}
			}
			return true
		})
		return out
	}
	rs, ss := skips(res), skips(scan)
	if len(rs) == len(ss) {
		c.OK("resolver-skips/agree", res.Pos(), fmt.Sprintf("resolver and scanner skip selections under a map look-up equally often (%d)", len(rs)))
		return
	}
	pos := res.Pos()
	if len(rs) > 0 {
		pos = rs[0]
	} else if len(ss) > 0 {
		pos = ss[0]
	}
	c.Bad("resolver-skips/agree", pos, fmt.Sprintf("buildPathResolver skips a selection under a map look-up %d time(s), manifest.ScanPaths %d time(s): the two count the ordinal prefixes of equal base names over different lists of selections - "+
		"what the manifest lists as 1_docs / 2_docs the resolver knows as docs (or under another ordinal), and listed files resolve to nothing or to another source", len(rs), len(ss)))
}
