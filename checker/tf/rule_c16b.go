package tf

import (
	"fmt"
	"go/ast"
	"go/constant"
	"go/token"
	"go/types"
)

// R-KEEPALIVE and R-TURN-PORT (C16; F29): two places where the client only works
// against a documented server configuration if a derived value follows the flag.

func init() {
	Register(&Rule{
		Name:  "R-KEEPALIVE",
		Props: []string{"C16"},
		Min:   1,
		Doc: "the period of the server's keep-alive ping (time.NewTicker in the goroutine of handleWebSocket that writes websocket.PingMessage) is bounded by the configured idle timeout: " +
			"its argument is a variable that is lowered to <wsIdleTimeout / k> (k a constant >= 2) by the minimum idiom `if X < p { p = X }` (or assigned X unconditionally) - " +
			"with a fixed period a --ws-idle-timeout below it disconnects every peer that only waits (a host without receivers sends nothing), and the host's session is deleted with it",
		Run: runKeepalive,
	})
	Register(&Rule{
		Name:  "R-TURN-PORT",
		Props: []string{"C16"},
		Min:   2,
		Doc: "the server's injectTurnCredentials does not require a port in a --turn-server URL, so the client's parseTurnServer must give a port-less URL the RFC 7065 default: " +
			"an assignment of net.JoinHostPort(<host>, \"3478\") reached only under Port() == \"\" and a scheme that is not turns, and one of net.JoinHostPort(<host>, \"5349\") only under Port() == \"\" and scheme turns, " +
			"both to the variable that becomes turnServerConfig.addr and both on paths that precede every 'missing port' rejection; a port the server side fills in itself must obey the same scheme table (a server that writes 3478 into a port-less turns: URL sends the client to the wrong endpoint)",
		Run: runTurnPort,
	})
}

func mentionsObj(info *types.Info, n ast.Node, o types.Object) bool {
	hit := false
	ast.Inspect(n, func(m ast.Node) bool {
		switch x := m.(type) {
		case *ast.Ident:
			if info.Uses[x] == o {
				hit = true
			}
		}
		return !hit
	})
	return hit
}

func runKeepalive(c *Ctx) {
	p := c.P
	hw := p.Func("cmd/thruserv.handleWebSocket")
	idle, _ := p.LookupObj("cmd/thruserv", "serverLimits.wsIdleTimeout").(*types.Var)
	if hw == nil || idle == nil {
		c.MissingAnchor("cmd/thruserv.handleWebSocket / serverLimits.wsIdleTimeout")
		return
	}
	var all []*FuncInfo
	var walk func(f *FuncInfo)
	walk = func(f *FuncInfo) {
		all = append(all, f)
		for _, k := range f.Kids {
			walk(k)
		}
	}
	walk(hw)
	// idleFraction: e is <..wsIdleTimeout..> / k with constant k >= 2
	idleFraction := func(info *types.Info, e ast.Expr) bool {
		be, ok := ast.Unparen(e).(*ast.BinaryExpr)
		if !ok || be.Op != token.QUO || !mentionsObj(info, be.X, idle) {
			return false
		}
		tv, ok := info.Types[be.Y]
		if !ok || tv.Value == nil {
			return false
		}
		v, exact := constant.Int64Val(constant.ToInt(tv.Value))
		return exact && v >= 2
	}
	n := 0
	for _, f := range all {
		info := f.Info()
		// a ping writer?
		pings := false
		InspectNoLits(f.Body, func(m ast.Node) bool {
			if call, ok := m.(*ast.CallExpr); ok {
				if fn := Callee(info, call); fn != nil && fn.Name() == "WriteControl" && len(call.Args) >= 1 {
					a0 := ast.Unparen(call.Args[0])
					if sel, ok := a0.(*ast.SelectorExpr); ok {
						a0 = sel.Sel
					}
					if o := ObjOf(info, a0); o != nil && o.Name() == "PingMessage" {
						pings = true
					}
				}
			}
			return true
		})
		if !pings {
			continue
		}
		InspectNoLits(f.Body, func(m ast.Node) bool {
			call, ok := m.(*ast.CallExpr)
			if !ok || !calleeIs(info, call, "time", "NewTicker") || len(call.Args) != 1 {
				return true
			}
			n++
			key := fmt.Sprintf("ping-period/%s#%d", f.Name, n)
			arg := ast.Unparen(call.Args[0])
			if idleFraction(info, arg) {
				c.OK(key, call.Pos(), "the ping period is a fraction of the idle timeout")
				return true
			}
			pv := ObjOf(info, arg)
			if pv == nil {
				c.Bad(key, call.Pos(), "the keep-alive ping period is "+types.ExprString(arg)+", not derived from --ws-idle-timeout: with an idle timeout below it every peer that only waits is disconnected (the client sends no pings of its own), and a waiting host's session is deleted with its connection")
				return true
			}
			// the variable lives in the enclosing function(s): look for the lowering there
			lowered := false
			for g := f; g != nil; g = g.Parent {
				gi := g.Info()
				ast.Inspect(g.Body, func(nd ast.Node) bool {
					switch s := nd.(type) {
					case *ast.IfStmt:
						be, ok := ast.Unparen(s.Cond).(*ast.BinaryExpr)
						if !ok {
							return true
						}
						var small, big ast.Expr
						switch be.Op {
						case token.LSS, token.LEQ:
							small, big = be.X, be.Y
						case token.GTR, token.GEQ:
							small, big = be.Y, be.X
						default:
							return true
						}
						if ObjOf(gi, big) != pv || !idleFraction(gi, small) {
							return true
						}
						for _, st := range s.Body.List {
							if as, ok := st.(*ast.AssignStmt); ok && len(as.Lhs) == 1 && len(as.Rhs) == 1 && as.Tok == token.ASSIGN &&
								ObjOf(gi, as.Lhs[0]) == pv && types.ExprString(ast.Unparen(as.Rhs[0])) == types.ExprString(ast.Unparen(small)) {
								lowered = true
							}
						}
					case *ast.AssignStmt:
						// unconditional: p := idle / k at the top level of the body
						if len(s.Lhs) == 1 && len(s.Rhs) == 1 && ObjOf(gi, s.Lhs[0]) == pv && idleFraction(gi, s.Rhs[0]) {
							for _, top := range g.Body.List {
								if top == ast.Stmt(s) {
									lowered = true
								}
							}
						}
					}
					return true
				})
			}
			// ... and not raised again: any other assignment (a floor, so that the ticker gets a positive period) is a constant of at most a millisecond (round 8)
			for g := f; g != nil; g = g.Parent {
				gi := g.Info()
				nf := 0
				InspectNoLits(g.Body, func(nd ast.Node) bool {
					as, ok := nd.(*ast.AssignStmt)
					if !ok || as.Tok != token.ASSIGN || len(as.Lhs) != 1 || len(as.Rhs) != 1 || ObjOf(gi, as.Lhs[0]) != pv || idleFraction(gi, as.Rhs[0]) {
						return true
					}
					nf++
					tv, ok := gi.Types[as.Rhs[0]]
					var ns int64 = -1
					if ok && tv.Value != nil {
						if v, exact := constant.Int64Val(constant.ToInt(tv.Value)); exact {
							ns = v
						}
					}
					c.Check(ns >= 0 && ns <= 1000000, fmt.Sprintf("%s/floor#%d", key, nf), as.Pos(), "the floor of the ping period is at most a millisecond",
						"the keep-alive ping period is raised to "+types.ExprString(as.Rhs[0])+" after it was lowered to a fraction of --ws-idle-timeout: for every idle timeout up to twice that value the first ping is due when the read deadline has already fired - "+
							"a host that waits for receivers is dropped, the clean-up deletes its session and the join code it printed is dead")
					return true
				})
			}
			c.Check(lowered, key, call.Pos(), "the ping period is lowered to a fraction of the idle timeout (minimum idiom)",
				"the keep-alive ping period "+pv.Name()+" is never lowered to a fraction of --ws-idle-timeout: with an idle timeout below the fixed period every peer that only waits is disconnected (the client sends no pings of its own), and a waiting host's session is deleted with its connection")
			return true
		})
	}
	if n == 0 {
		c.Bad("ping-period/none", hw.Pos(), "found no ticker-driven ping writer in handleWebSocket: peers that only wait are cut off at the idle timeout")
	}
}

func runTurnPort(c *Ctx) {
	p := c.P
	srv := p.Func("cmd/thruserv.injectTurnCredentials")
	cli := p.Func("ice.parseTurnServer")
	if srv == nil || cli == nil {
		c.MissingAnchor("cmd/thruserv.injectTurnCredentials / ice.parseTurnServer")
		return
	}
	// the analysis below is applied to both siblings: whoever fills in a port for a port-less URL has to use the default of the
	// URL's own scheme. The client must do so (the server does not reject such URLs); the server may.
	srvRejectsPortless := false
	InspectNoLits(srv.Body, func(m ast.Node) bool {
		if call, ok := m.(*ast.CallExpr); ok {
			if fn := Callee(srv.Info(), call); fn != nil && fn.Name() == "SplitHostPort" {
				srvRejectsPortless = true
			}
		}
		return true
	})
	for _, side := range []struct {
		f        *FuncInfo
		name     string
		mustHave bool
	}{{cli, "client", !srvRejectsPortless}, {srv, "server", false}} {
		runTurnPortSide(c, side.f, side.name, side.mustHave)
	}
}

func runTurnPortSide(c *Ctx, cli *FuncInfo, side string, mustHave bool) {
	info := cli.Info()
	isPortEmpty := func(e ast.Expr) (neg bool, ok bool) {
		be, isB := ast.Unparen(e).(*ast.BinaryExpr)
		if !isB || (be.Op != token.EQL && be.Op != token.NEQ) {
			return false, false
		}
		x, y := ast.Unparen(be.X), ast.Unparen(be.Y)
		if _, isLit := x.(*ast.BasicLit); isLit {
			x, y = y, x
		}
		call, isC := x.(*ast.CallExpr)
		if !isC {
			return false, false
		}
		fn := Callee(info, call)
		if fn == nil || fn.Name() != "Port" || fn.Pkg() == nil || fn.Pkg().Path() != "net/url" {
			return false, false
		}
		if tv, has := info.Types[y]; !has || tv.Value == nil || constant.StringVal(tv.Value) != "" {
			return false, false
		}
		return be.Op == token.NEQ, true
	}
	isTurns := func(e ast.Expr) (neg bool, ok bool) {
		be, isB := ast.Unparen(e).(*ast.BinaryExpr)
		if !isB || (be.Op != token.EQL && be.Op != token.NEQ) {
			return false, false
		}
		x, y := ast.Unparen(be.X), ast.Unparen(be.Y)
		if _, isLit := x.(*ast.BasicLit); isLit {
			x, y = y, x
		}
		sel, isS := x.(*ast.SelectorExpr)
		if !isS || sel.Sel.Name != "Scheme" {
			return false, false
		}
		tv, has := info.Types[y]
		if !has || tv.Value == nil || tv.Value.Kind() != constant.String {
			return false, false
		}
		switch constant.StringVal(tv.Value) {
		case "turns":
			return be.Op == token.NEQ, true
		case "turn":
			return be.Op == token.EQL, true
		}
		return false, false
	}
	spec := &PassSpec{Name: "turn-port", Vias: []Via{
		{Cond: func(f *FuncInfo, e ast.Expr) (string, bool, bool) {
			if neg, ok := isPortEmpty(e); ok {
				return "no-port", !neg, true
			}
			return "", false, false
		}},
		{Cond: func(f *FuncInfo, e ast.Expr) (string, bool, bool) {
			if neg, ok := isTurns(e); ok {
				return "turns", !neg, true
			}
			return "", false, false
		}},
		{Cond: func(f *FuncInfo, e ast.Expr) (string, bool, bool) {
			if neg, ok := isTurns(e); ok {
				return "not-turns", neg, true
			}
			return "", false, false
		}},
	}}
	// the variable that becomes turnServerConfig.addr
	var addrVar types.Object
	ast.Inspect(cli.Body, func(m ast.Node) bool {
		if kv, ok := m.(*ast.KeyValueExpr); ok {
			if k, ok := kv.Key.(*ast.Ident); ok && k.Name == "addr" {
				if o := ObjOf(info, kv.Value); o != nil {
					addrVar = o
				}
			}
		}
		return true
	})
	if addrVar == nil && mustHave {
		c.Unknown("port-default/addr", cli.Pos(), "cannot find the variable stored into turnServerConfig.addr")
		return
	}
	pfx := "port-default/"
	if side != "client" {
		pfx = "port-default/" + side + "/"
	}
	want := map[string]string{"3478": "not-turns", "5349": "turns"}
	seen := map[string]bool{}
	var defaults []NodeRef
	cli.CFG().EachNode(func(r NodeRef) {
		as, ok := r.Node().(*ast.AssignStmt)
		if !ok || len(as.Lhs) != 1 || len(as.Rhs) != 1 {
			return
		}
		if side == "client" && ObjOf(info, as.Lhs[0]) != addrVar {
			return
		}
		call, ok := ast.Unparen(as.Rhs[0]).(*ast.CallExpr)
		if !ok || !calleeIs(info, call, "net", "JoinHostPort") || len(call.Args) != 2 {
			return
		}
		tv, has := info.Types[call.Args[1]]
		if !has || tv.Value == nil || tv.Value.Kind() != constant.String {
			return
		}
		port := constant.StringVal(tv.Value)
		fact, known := want[port]
		key := pfx + port
		if !known {
			c.Bad(key, as.Pos(), "a port-less TURN URL is given port "+port+", which is neither 3478 (turn) nor 5349 (turns): the client derives another endpoint than the operator's relay listens on")
			return
		}
		seen[port] = true
		defaults = append(defaults, r)
		c.Check(spec.Passed(cli, r, "no-port") && spec.Passed(cli, r, fact), key, as.Pos(), "default port "+port+" is applied only to a port-less URL of the matching scheme",
			"the "+side+" side assigns the default port "+port+" on a path where the URL has a port of its own or the scheme is the other one (a port-less `turns:` URL means 5349, RFC 7065): the client derives another endpoint than the operator configured")
	})
	if !mustHave {
		if len(defaults) == 0 {
			c.OK(pfx+"none", cli.Pos(), "the "+side+" side fills in no port of its own")
		}
		return
	}
	for port := range want {
		if !seen[port] {
			c.Bad("port-default/"+port, cli.Pos(), "parseTurnServer never gives a port-less URL the default port "+port+": the server mints credentials for `--turn-server turn:relay.example.org` (it does not require a port), the client rejects them with 'missing TURN port' and silently runs without a relay")
		}
	}
	// every rejection that tests for a missing port comes after the defaults
	n := 0
	for _, b := range cli.CFG().Blocks {
		cond, _, _, okc := CondEdges(b)
		if !okc {
			continue
		}
		tests := false
		ast.Inspect(cond, func(m ast.Node) bool {
			if call, ok := m.(*ast.CallExpr); ok && calleeIs(info, call, "strings", "Contains") && len(call.Args) == 2 && ObjOf(info, call.Args[0]) == addrVar {
				tests = true
			}
			return true
		})
		if !tests {
			continue
		}
		n++
		ref := NodeRef{b, len(b.Nodes) - 1}
		after := len(defaults) > 0
		for _, d := range defaults {
			if cli.CFG().Reaches(ref, d) {
				after = false
			}
		}
		c.Check(after, fmt.Sprintf("port-default/rejection#%d", n), cond.Pos(), "the missing-port rejection is evaluated after the default was applied",
			"parseTurnServer tests for a missing port before (or without) applying the default port: a port-less URL the server minted is rejected")
	}
}

func init() {
	Register(&Rule{
		Name:  "R-RATE-COUNTS-ALL",
		Props: []string{"C14"},
		Min:   1,
		Doc: "the per-connection message-rate limit counts every frame (F37): in the read loop of handleWebSocket every path from a successful ReadMessage to the next iteration passes the limiter (tokenBucket.Allow, or the test that the rate limit is 0) " +
			"before any `continue` - a frame kind that is skipped in front of the limiter (binary frames) can be sent at any rate without the peer being disconnected",
		Run: runRateCountsAll,
	})
}

func runRateCountsAll(c *Ctx) {
	p := c.P
	hw := p.Func("cmd/thruserv.handleWebSocket")
	rate, _ := p.LookupObj("cmd/thruserv", "serverLimits.msgRatePerSec").(*types.Var)
	if hw == nil || rate == nil {
		c.MissingAnchor("cmd/thruserv.handleWebSocket / serverLimits.msgRatePerSec")
		return
	}
	info := hw.Info()
	cfg := hw.CFG()
	n := 0
	cfg.Calls(func(r NodeRef, call *ast.CallExpr) {
		if !calleeIs(info, call, "github.com/gorilla/websocket", "Conn.ReadMessage") {
			return
		}
		as, ok := r.Node().(*ast.AssignStmt)
		if !ok || len(as.Lhs) != 3 {
			return
		}
		n++
		key := fmt.Sprintf("read-loop#%d", n)
		errObj := ObjOf(info, as.Lhs[2])
		// success edge of the read
		var start NodeRef
		for _, b := range cfg.Blocks {
			cond, t, fs, okc := CondEdges(b)
			if !okc {
				continue
			}
			if o, nilOnTrue, okn := NilTest(info, cond); okn && o == errObj && cfg.Dominates(r, NodeRef{b, len(b.Nodes) - 1}) {
				if nilOnTrue {
					start = NodeRef{t, -1}
				} else {
					start = NodeRef{fs, -1}
				}
				break
			}
		}
		if !start.Valid() {
			c.Unknown(key, call.Pos(), "cannot find the error test of ReadMessage")
			return
		}
		counted := allPathsHit(cfg, start, func(nd ast.Node) bool {
			hit := false
			ast.Inspect(nd, func(m ast.Node) bool {
				switch x := m.(type) {
				case *ast.CallExpr:
					if g := p.CalleeInfo(info, x); g != nil && g.Name == "cmd/thruserv.(*tokenBucket).Allow" {
						hit = true
					}
				case *ast.SelectorExpr:
					if info.Uses[x.Sel] == rate {
						hit = true // the test of the rate limit itself (0 = no limit)
					}
				}
				return !hit
			})
			return hit
		}, func(nd ast.Node) bool {
			// reaching the read again (a continue / the loop's back edge) before the limiter: a frame that was not counted
			return nd == r.Node()
		})
		c.Check(counted, key, call.Pos(), "every frame read passes the rate limiter before the loop goes on",
			"a frame can be read and skipped (`continue`) before the per-connection rate limiter is consulted: frames of that kind (binary) can be sent at any rate, the configured message rate is exceeded without the peer being disconnected")
	})
	if n == 0 {
		c.Bad("read-loop/none", hw.Pos(), "found no ReadMessage loop in handleWebSocket")
	}
}
