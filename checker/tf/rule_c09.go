package tf

import (
	"fmt"
	"go/ast"
	"go/types"
	"strings"
)

func init() {
	Register(&Rule{
		Name:  "R-WINNER",
		Props: []string{"C09"},
		Min:   6,
		Doc: "dial-side connection ownership in ProbeAndDial: every *quic.Conn obtained from a successful Transport.Dial is, on every path, either closed or handed to the caller through a send that is reachable only via an atomic election " +
			"(CompareAndSwap / sync.Once / mutex-guarded flag) - a non-blocking send into a buffered channel from which the caller receives once is not an election: with capacity c and r receives, c+r concurrent senders succeed; " +
			"on its give-up arms (cancel, all-done) the caller itself takes part in the election and closes or returns a connection that won concurrently; losers are not cancelled by the winner's return (losers-end, F56): the dial context is made from context.WithoutCancel and its cancel function is used only where the caller gave up or behind the wait for all dials - a loser runs to its end and closes itself as race_lost. " +
			"Accept side: a connection that loses the receiver's local accept/dial race is closed in the default arm of its hand-over select",
		Run: runWinner,
	})
}

func runWinner(c *Ctx) {
	p := c.P
	pd := p.Func("ice.(*Prober).ProbeAndDial")
	if pd == nil {
		c.MissingAnchor("ice.(*Prober).ProbeAndDial")
		return
	}
	// (losers-end, F56) a dial that loses is not cancelled by the return of the winner: a cancelled dial is torn down without a word to
	// the peer, which may have accepted it already. The context handed to Transport.Dial is therefore detached from the caller's
	// (context.WithoutCancel) and its cancel function is neither deferred in ProbeAndDial / the probing round nor called on the path
	// that returns the winner; it is called where the caller gave up (`case <-ctx.Done()`) or after every dial has ended (WaitGroup.Wait).
	{
		ndial := 0
		for _, f := range allKids(pd) {
			info := f.Info()
			InspectNoLits(f.Body, func(n ast.Node) bool {
				call, ok := n.(*ast.CallExpr)
				if !ok || len(call.Args) < 1 {
					return true
				}
				fn := Callee(info, call)
				if fn == nil || fn.Name() != "Dial" || fn.Pkg() == nil || !strings.HasSuffix(fn.Pkg().Path(), "quic-go") {
					return true
				}
				ndial++
				key := fmt.Sprintf("losers-end/dial#%d", ndial)
				ctxObj := ObjOf(info, call.Args[0])
				if ctxObj == nil {
					c.Unknown(key, call.Pos(), "the context of Transport.Dial is not a variable")
					return true
				}
				own := owningFunc(f, ctxObj)
				detached := false
				var cancelObj types.Object
				if own != nil {
					ast.Inspect(own.Body, func(m ast.Node) bool {
						as, ok := m.(*ast.AssignStmt)
						if !ok || len(as.Rhs) != 1 || ObjOf(own.Info(), as.Lhs[0]) != ctxObj {
							return true
						}
						ast.Inspect(as.Rhs[0], func(x ast.Node) bool {
							if c2, ok := x.(*ast.CallExpr); ok && calleeIs(own.Info(), c2, "context", "WithoutCancel") {
								detached = true
							}
							return true
						})
						if len(as.Lhs) == 2 {
							cancelObj = ObjOf(own.Info(), as.Lhs[1])
						}
						return true
					})
				}
				if !detached {
					c.Bad(key, call.Pos(), "the dials run under a context that ends with the caller's (`"+ctxObj.Name()+"` is not made from context.WithoutCancel): the callers release their context right after ProbeAndDial returned, "+
						"a losing dial whose handshake has just completed is then torn down without a CONNECTION_CLOSE and the listener keeps it as an established, silent connection instead of seeing it closed as race_lost")
					return true
				}
				// uses of the cancel function
				bad := ""
				if cancelObj != nil {
					for _, h := range allKids(pd) {
						hinfo := h.Info()
						var stack []ast.Node
						ast.Inspect(h.Body, func(m ast.Node) bool {
							if m == nil {
								stack = stack[:len(stack)-1]
								return true
							}
							stack = append(stack, m)
							if lit, ok := m.(*ast.FuncLit); ok && lit != h.Lit {
								stack = stack[:len(stack)-1]
								return false
							}
							id, ok := m.(*ast.Ident)
							if !ok || hinfo.Uses[id] != cancelObj {
								return true
							}
							okUse := false
							for _, s := range stack {
								if cc, ok := s.(*ast.CommClause); ok && cc.Comm != nil {
									if es, ok := cc.Comm.(*ast.ExprStmt); ok && strings.HasSuffix(types.ExprString(es.X), ".Done()") {
										okUse = true // the caller gave up
									}
								}
							}
							// after <WaitGroup>.Wait() in the same literal
							if !okUse && h.Lit != nil {
								InspectNoLits(h.Body, func(x ast.Node) bool {
									if c3, ok := x.(*ast.CallExpr); ok && c3.End() < id.Pos() {
										if fn := Callee(hinfo, c3); fn != nil && fn.Name() == "Wait" && fn.Pkg() != nil && fn.Pkg().Path() == "sync" {
											okUse = true
										}
									}
									return true
								})
							}
							if !okUse {
								bad = p.Pos(id.Pos())
							}
							return true
						})
					}
				}
				c.Check(bad == "", key, call.Pos(), "the dial context is detached from the caller's and cancelled only where the caller gave up or after every dial ended",
					"the cancel function of the dial context is used at "+bad+", outside the give-up clause and not behind the wait for all dials: a return with the winner cancels the dials that lost, "+
						"one whose handshake has just completed is torn down silently and stays open at the listener")
				return true
			})
		}
		if ndial == 0 {
			c.Bad("losers-end/none", pd.Pos(), "found no Transport.Dial under ProbeAndDial")
		}
	}
	var all []*FuncInfo
	var collect func(f *FuncInfo)
	collect = func(f *FuncInfo) {
		all = append(all, f)
		for _, k := range f.Kids {
			collect(k)
		}
	}
	collect(pd)
	isConn := func(t types.Type) bool { return t != nil && strings.HasSuffix(t.String(), "quic-go.Conn") }
	elected := &PassSpec{Name: "elected"}
	elected.Vias = []Via{{Cond: func(f *FuncInfo, e ast.Expr) (string, bool, bool) {
		call, ok := ast.Unparen(e).(*ast.CallExpr)
		if !ok {
			return "", false, false
		}
		if sel, ok := ast.Unparen(call.Fun).(*ast.SelectorExpr); ok && strings.HasPrefix(sel.Sel.Name, "CompareAndSwap") {
			if fn := Callee(f.Info(), call); fn != nil && fn.Pkg() != nil && fn.Pkg().Path() == "sync/atomic" {
				return "elected:" + types.ExprString(sel.X), true, true
			}
		}
		return "", false, false
	}}}
	ndial := 0
	for _, f := range all {
		info := f.Info()
		cfg := f.CFG()
		cfg.Calls(func(r NodeRef, call *ast.CallExpr) {
			if !calleeIs(info, call, "github.com/quic-go/quic-go", "Transport.Dial") {
				return
			}
			as, ok := r.Node().(*ast.AssignStmt)
			if !ok || len(as.Lhs) != 2 {
				c.Unknown(fmt.Sprintf("dial/%s", f.Name), call.Pos(), "Transport.Dial result is not assigned to (conn, err)")
				return
			}
			ndial++
			connObj := ObjOf(info, as.Lhs[0])
			errObj := ObjOf(info, as.Lhs[1])
			key := fmt.Sprintf("dial/%s#%d", f.Name, ndial)
			// success region: from the false edge of `err != nil`
			var succStart NodeRef
			for _, b := range cfg.Blocks {
				cond, t, fs, okc := CondEdges(b)
				if !okc {
					continue
				}
				if o, nilOnTrue, okn := NilTest(info, cond); okn && o == errObj && cfg.Dominates(r, NodeRef{b, len(b.Nodes) - 1}) {
					if nilOnTrue {
						succStart = NodeRef{t, -1}
					} else {
						succStart = NodeRef{fs, -1}
					}
					break
				}
			}
			if !succStart.Valid() {
				c.Unknown(key, call.Pos(), "cannot find the error test of the dial")
				return
			}
			// the error that is tested is the dial's own: nothing overwrites it between the dial and the test, otherwise an
			// established connection can be sent down the failure branch, where nothing closes it
			overwritten := false
			cfg.EachNode(func(or NodeRef) {
				if or == r {
					return
				}
				for _, o := range AssignedObjs(info, or.Node()) {
					if o == errObj && cfg.Reaches(r, or) {
						// only assignments that can still reach a test of errObj matter
						for _, b := range cfg.Blocks {
							cond, _, _, okc := CondEdges(b)
							if !okc {
								continue
							}
							if o2, _, okn := NilTest(info, cond); okn && o2 == errObj && cfg.Reaches(or, NodeRef{b, len(b.Nodes) - 1}) {
								overwritten = true
							}
						}
					}
				}
			})
			c.Check(!overwritten, key+"/error-is-the-dials", call.Pos(), "the tested error is the one Transport.Dial returned",
				"the error variable of a successful Transport.Dial can be overwritten before it is tested: the established connection then takes the failure branch, is neither elected nor closed, and stays open at the peer for the whole session")
			// on every path of the success region: close, or an elected hand-over
			var sends []NodeRef
			disposed := allPathsHit(cfg, succStart, func(n ast.Node) bool {
				if ss, ok := n.(*ast.SendStmt); ok && ObjOf(info, ss.Value) == connObj {
					return true
				}
				hit := false
				InspectNoLits(n, func(m ast.Node) bool {
					if c2, ok := m.(*ast.CallExpr); ok {
						if sel, ok := ast.Unparen(c2.Fun).(*ast.SelectorExpr); ok && ObjOf(info, sel.X) == connObj && (sel.Sel.Name == "CloseWithError" || sel.Sel.Name == "Close") {
							hit = true
						}
					}
					return true
				})
				return hit
			}, func(ast.Node) bool { return false })
			c.Check(disposed, key+"/owned", call.Pos(), "a successfully dialled connection is closed or handed over on every path", "a successfully dialled connection can reach the end of the dial goroutine neither closed nor handed over: it stays open at the peer")
			cfg.EachNode(func(sr NodeRef) {
				if ss, ok := sr.Node().(*ast.SendStmt); ok && ObjOf(info, ss.Value) == connObj {
					sends = append(sends, sr)
				}
			})
			for i, sr := range sends {
				hasElection := false
				for _, id := range elected.PassedList(f, sr) {
					if strings.HasPrefix(id, "elected:") {
						hasElection = true
					}
				}
				// sync.Once: the send sits in a literal passed to Once.Do
				if !hasElection && f.Lit != nil && f.Parent != nil {
					ast.Inspect(f.Parent.Body, func(m ast.Node) bool {
						if c2, ok := m.(*ast.CallExpr); ok && calleeIs(f.Parent.Info(), c2, "sync", "Once.Do") && len(c2.Args) == 1 && ast.Unparen(c2.Args[0]) == ast.Expr(f.Lit) {
							hasElection = true
						}
						return true
					})
				}
				c.Check(hasElection, fmt.Sprintf("%s/hand-over#%d/elected", key, i+1), sr.Node().Pos(), "the hand-over send is reachable only through an atomic election: at most one dial ever sends",
					"the dialled connection is handed over by a send that several concurrent dials can all complete (non-blocking send into a buffered channel the caller receives from once: after the receive the buffer is free again): a second 'winner' is never received and never closed")
			}
			if len(sends) == 0 {
				c.Bad(key+"/hand-over", call.Pos(), "no hand-over of the dialled connection found")
			}
		})
	}
	if ndial == 0 {
		c.Bad("dial/none", pd.Pos(), "no Transport.Dial call found in ProbeAndDial")
	}
	// owner side: give-up returns take part in the election / drain
	for _, f := range all {
		info := f.Info()
		cfg := f.CFG()
		// is f the owner of a result channel of conns?
		var resCh types.Object
		ast.Inspect(f.Body, func(n ast.Node) bool {
			if _, ok := n.(*ast.FuncLit); ok && n != ast.Node(f.Lit) {
				return false
			}
			if as, ok := n.(*ast.AssignStmt); ok && len(as.Rhs) == 1 && len(as.Lhs) == 1 {
				if call, ok := ast.Unparen(as.Rhs[0]).(*ast.CallExpr); ok {
					if id, ok := ast.Unparen(call.Fun).(*ast.Ident); ok && id.Name == "make" && len(call.Args) >= 1 {
						if ct, ok := info.TypeOf(call.Args[0]).Underlying().(*types.Chan); ok && isConn(ct.Elem()) {
							resCh = ObjOf(info, as.Lhs[0])
						}
					}
				}
			}
			return true
		})
		if resCh == nil {
			continue
		}
		own := &PassSpec{Vias: []Via{
			{Cond: func(g *FuncInfo, e ast.Expr) (string, bool, bool) {
				if call, ok := ast.Unparen(e).(*ast.CallExpr); ok {
					if sel, ok := ast.Unparen(call.Fun).(*ast.SelectorExpr); ok && strings.HasPrefix(sel.Sel.Name, "CompareAndSwap") {
						return "owner-decided", true, true
					}
				}
				return "", false, false
			}},
			{Stmt: func(g *FuncInfo, n ast.Node) (string, bool) { // took the connection out of the channel
				hit := false
				InspectNoLits(n, func(m ast.Node) bool {
					if u, ok := m.(*ast.UnaryExpr); ok && u.Op.String() == "<-" && ObjOf(g.Info(), u.X) == resCh {
						hit = true
					}
					return true
				})
				if hit {
					return "owner-decided", true
				}
				return "", false
			}},
		}}
		k := 0
		for _, b := range cfg.Blocks {
			ret, ok := IsReturnExit(b)
			if !ok || len(ret.Results) != 2 || types.ExprString(ret.Results[1]) == "nil" {
				continue
			}
			ref := NodeRef{b, len(b.Nodes) - 1}
			// only returns after the dials were started (reachable from a go statement)
			started := false
			cfg.EachNode(func(gr NodeRef) {
				if _, isGo := gr.Node().(*ast.GoStmt); isGo && cfg.Reaches(gr, ref) {
					started = true
				}
			})
			if !started {
				continue
			}
			k++
			c.Check(own.Passed(f, ref, "owner-decided"), fmt.Sprintf("owner/%s/give-up#%d", f.Name, k), ret.Pos(), "the caller gives up only after winning the election itself or taking the winner out of the channel",
				"the caller returns an error while a dial may already have won: that connection stays in the channel, open and unused")
		}
	}
	// accept side: listeners hand out connections only after the handshake completed (Listen, not ListenEarly): the receiver takes
	// the first connection it is handed, the dialler the first handshake that completes - with early accept the two can differ
	{
		nl, early := 0, ""
		for _, pkg := range []string{"internal/quictransport", "internal/transferquic", "internal/app", "internal/ice"} {
			for _, f := range p.FuncsIn(pkg) {
				fi := f.Info()
				InspectNoLits(f.Body, func(n ast.Node) bool {
					call, ok := n.(*ast.CallExpr)
					if !ok {
						return true
					}
					fn := Callee(fi, call)
					if fn == nil || fn.Pkg() == nil || fn.Pkg().Path() != "github.com/quic-go/quic-go" {
						return true
					}
					switch fn.Name() {
					case "Listen", "ListenAddr":
						nl++
					case "ListenEarly", "ListenAddrEarly":
						early = p.Pos(call.Pos()) + " (" + f.Name + ")"
					}
					return true
				})
			}
		}
		c.Check(nl > 0 && early == "", "accept-side/full-handshake-listeners", pd.Pos(), fmt.Sprintf("%d QUIC listeners, all created with Listen (Accept yields completed handshakes only)", nl),
			"a QUIC listener is created with an early-accept variant at "+early+": Accept then yields connections whose handshake is not complete, so the receiver can pick (first ClientHello) a different connection than the dialler (first completed handshake), and both sides time out in authentication on different connections")
	}
	// accept side (receiver): hand-over selects close the loser
	if rt := p.Func("app.(*snapshotReceiver).runTransfer"); rt != nil {
		var visit func(f *FuncInfo)
		n := 0
		visit = func(f *FuncInfo) {
			info := f.Info()
			ast.Inspect(f.Body, func(nd ast.Node) bool {
				if _, ok := nd.(*ast.FuncLit); ok && nd != ast.Node(f.Lit) {
					return false
				}
				sl, ok := nd.(*ast.SelectStmt)
				if !ok {
					return true
				}
				var sent types.Object
				var dflt *ast.CommClause
				for _, cl := range sl.Body.List {
					cc := cl.(*ast.CommClause)
					if cc.Comm == nil {
						dflt = cc
						continue
					}
					if ss, ok := cc.Comm.(*ast.SendStmt); ok {
						if t := info.TypeOf(ss.Value); t != nil && strings.HasSuffix(t.String(), "transfer.Conn") {
							sent = ObjOf(info, ss.Value)
						}
					}
				}
				if sent == nil {
					return true
				}
				n++
				closes := false
				if dflt != nil {
					for _, st := range dflt.Body {
						ast.Inspect(st, func(m ast.Node) bool {
							if c2, ok := m.(*ast.CallExpr); ok {
								if sel, ok := ast.Unparen(c2.Fun).(*ast.SelectorExpr); ok && ObjOf(info, sel.X) == sent && sel.Sel.Name == "Close" {
									closes = true
								}
							}
							return true
						})
					}
				}
				c.Check(closes, fmt.Sprintf("accept-side/%s#%d", f.Name, n), sl.Pos(), "a connection that loses the local race is closed", "a connection that loses the receiver's local accept/dial race is neither used nor closed")
				return true
			})
			for _, k := range f.Kids {
				visit(k)
			}
		}
		visit(rt)
	} else {
		c.MissingAnchor("app.(*snapshotReceiver).runTransfer")
	}
}
