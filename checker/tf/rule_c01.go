package tf

import (
	"fmt"
	"go/ast"
	"go/token"
	"go/types"
	"strings"
)

func init() {
	Register(&Rule{
		Name:  "R-BEGIN-MATCH",
		Props: []string{"C01"},
		Min:   6,
		Doc: "no byte is written before the file-begin record matched a manifest entry: in both receivers every creation / resizing of the data file and its parent directory (os.OpenFile, (*os.File).Truncate, os.MkdirAll on the file path) " +
			"and every registration of receive state for a FileBegin is reachable only through validateRelPath(begin.RelPath) == nil, the manifest lookup of that path reporting present, and equality of the manifest size with FileBegin.FileSize; " +
			"the only decrements of recvFileStateMux.remaining are inside markChunkComplete (each chunk counted once, guarded by MarkCompleteIfUnset when resuming)",
		Run: runBeginMatch,
	})
	Register(&Rule{
		Name:  "R-VID",
		Props: []string{"C01"},
		Min:   4,
		Doc: "streams of different connections cannot be confused: every construction of multiStream sets virtualID from makeVirtualStreamID(<index of the connection the stream was obtained from>, <that stream's own id>); " +
			"the accept loops are started with (index, conns[index]) pairs; makeVirtualStreamID keeps index and id in disjoint bit ranges and NewMultiConn bounds the number of connections below 2^(64-shift)",
		Run: runVID,
	})
}

func runBeginMatch(c *Ctx) {
	p := c.P
	t := newTaintCtx(p)
	type site struct {
		f   *FuncInfo
		beg types.Object // the FileBegin variable handled
	}
	var sites []site
	if f := p.Func("transfer.RecvManifestMultiStream$handleFileBegin"); f != nil {
		if len(f.Type.Params.List) > 0 && len(f.Type.Params.List[0].Names) > 0 {
			sites = append(sites, site{f, f.Info().Defs[f.Type.Params.List[0].Names[0]]})
		}
	} else {
		c.MissingAnchor("transfer.RecvManifestMultiStream$handleFileBegin")
	}
	if f := p.Func("transfer.RecvManifestMultiStreamLegacy"); f != nil {
		// begin := msg.(FileBegin)
		var beg types.Object
		ast.Inspect(f.Body, func(n ast.Node) bool {
			if _, ok := n.(*ast.FuncLit); ok {
				return false
			}
			if as, ok := n.(*ast.AssignStmt); ok && len(as.Lhs) == 1 && len(as.Rhs) == 1 {
				if ta, ok := ast.Unparen(as.Rhs[0]).(*ast.TypeAssertExpr); ok && ta.Type != nil && strings.HasSuffix(f.Info().TypeOf(ta.Type).String(), "transfer.FileBegin") {
					beg = ObjOf(f.Info(), as.Lhs[0])
				}
			}
			return true
		})
		if beg != nil {
			sites = append(sites, site{f, beg})
		}
	} else {
		c.MissingAnchor("transfer.RecvManifestMultiStreamLegacy")
	}
	for _, s := range sites {
		f := s.f
		info := f.Info()
		cfg := f.CFG()
		begName := s.beg.Name()
		// map lookups of begin.RelPath with comma-ok: ok var -> "present"
		okVars := map[types.Object]bool{}
		sizeVars := map[types.Object]bool{}
		ast.Inspect(f.Body, func(n ast.Node) bool {
			if as, ok := n.(*ast.AssignStmt); ok && len(as.Lhs) == 2 && len(as.Rhs) == 1 {
				if ix, ok := ast.Unparen(as.Rhs[0]).(*ast.IndexExpr); ok && types.ExprString(ix.Index) == begName+".RelPath" {
					if _, isMap := info.TypeOf(ix.X).Underlying().(*types.Map); isMap {
						if o := ObjOf(info, as.Lhs[1]); o != nil {
							okVars[o] = true
						}
						if o := ObjOf(info, as.Lhs[0]); o != nil && isIntType(o.Type()) {
							sizeVars[o] = true
						}
					}
				}
			}
			return true
		})
		spec := &PassSpec{Name: "begin-match"}
		spec.Vias = []Via{
			{Cond: func(g *FuncInfo, e ast.Expr) (string, bool, bool) {
				if o := ObjOf(g.Info(), e); o != nil && okVars[o] {
					return "in-manifest", true, true
				}
				return "", false, false
			}},
			{Cond: func(g *FuncInfo, e ast.Expr) (string, bool, bool) {
				be, ok := ast.Unparen(e).(*ast.BinaryExpr)
				if !ok || (be.Op != token.NEQ && be.Op != token.EQL) {
					return "", false, false
				}
				l, r := StripConv(g.Info(), be.X), StripConv(g.Info(), be.Y)
				isSize := func(x ast.Expr) bool { o := ObjOf(g.Info(), x); return o != nil && sizeVars[o] }
				isBeg := func(x ast.Expr) bool { return types.ExprString(x) == begName+".FileSize" }
				if (isSize(l) && isBeg(r)) || (isBeg(l) && isSize(r)) {
					return "size-equal", be.Op == token.EQL, true
				}
				return "", false, false
			}},
		}
		spec.KillMatch = func(g *FuncInfo, n ast.Node, id string) bool {
			// the begin variable is reassigned: a new record
			for _, o := range AssignedObjs(g.Info(), n) {
				if o == s.beg {
					if as, ok := n.(*ast.AssignStmt); ok && len(as.Rhs) == 1 {
						if _, isTA := ast.Unparen(as.Rhs[0]).(*ast.TypeAssertExpr); isTA {
							return true
						}
					}
				}
			}
			return false
		}
		// (mux receiver) the output file is cut to the announced size before its state is registered: a longer file
		// left from an earlier transfer must not keep its tail
		trunc := &PassSpec{Vias: []Via{{Call: func(g *FuncInfo, call *ast.CallExpr) (string, bool) {
			if calleeIs(g.Info(), call, "os", "File.Truncate") && len(call.Args) == 1 && strings.Contains(types.ExprString(call.Args[0]), begName+".FileSize") {
				return "sized", true
			}
			return "", false
		}}}}
		n := 0
		check := func(r NodeRef, pos token.Pos, what string) {
			if what == "state-registration" && f.Lit != nil {
				n++
				c.Check(trunc.Passed(f, r, "sized"), fmt.Sprintf("begin/%s#%d/sized", f.Name, n), pos, "the data file is truncated/extended to FileBegin.FileSize (error checked) before its state is registered",
					"receive state is registered without the output file having been resized to the announced size: a longer file left from an earlier run keeps its tail, and both sides still report success")
			}
			n++
			key := fmt.Sprintf("begin/%s#%d/%s", f.Name, n, what)
			v := t.valid.Passed(f, r, "v:"+begName+".RelPath")
			m := spec.Passed(f, r, "in-manifest")
			sz := spec.Passed(f, r, "size-equal")
			c.Check(v && m && sz, key, pos, what+" only for a FileBegin whose path is valid, listed in the manifest, and of the listed size",
				fmt.Sprintf("%s is reachable for a FileBegin that was not matched against the manifest (path validated=%v, listed=%v, size equal=%v): bytes are written for a file the manifest does not describe", what, v, m, sz))
		}
		cfg.Calls(func(r NodeRef, call *ast.CallExpr) {
			if calleeIs(info, call, "os", "OpenFile") || calleeIs(info, call, "os", "MkdirAll") || calleeIs(info, call, "os", "File.Truncate") || calleeIs(info, call, "os", "Create") {
				// only calls whose path derives from the begin record (not the base-directory / manifest-directory creation)
				uses := false
				for _, a := range call.Args {
					for _, e := range resolveExprs(f, a, 3) {
						ast.Inspect(e, func(m ast.Node) bool {
							if id, ok := m.(*ast.Ident); ok && info.Uses[id] == s.beg {
								uses = true
							}
							return true
						})
					}
				}
				if sel, ok := ast.Unparen(call.Fun).(*ast.SelectorExpr); ok && sel.Sel.Name == "Truncate" {
					uses = true
				}
				if uses {
					fn := Callee(info, call)
					check(r, call.Pos(), fn.Name())
				}
			}
		})
		// registration of receive state keyed by the begin record: stores into maps of per-file state
		cfg.EachNode(func(r NodeRef) {
			as, ok := r.Node().(*ast.AssignStmt)
			if !ok {
				return
			}
			for _, l := range as.Lhs {
				ix, ok := ast.Unparen(l).(*ast.IndexExpr)
				if !ok {
					continue
				}
				mt, isMap := info.TypeOf(ix.X).Underlying().(*types.Map)
				if !isMap {
					continue
				}
				if pt, ok := mt.Elem().(*types.Pointer); ok && strings.Contains(pt.Elem().String(), "recvFileState") {
					check(r, as.Pos(), "state-registration")
				}
			}
		})
		if n == 0 {
			c.Unknown("begin/"+f.Name, f.Pos(), "no data-file creation or state registration found for the FileBegin handled here")
		}
	}
	// who decrements remaining
	remaining, _ := p.LookupObj("internal/transfer", "recvFileStateMux.remaining").(*types.Var)
	if remaining == nil {
		c.MissingAnchor("transfer.recvFileStateMux.remaining")
		return
	}
	for _, f := range p.FuncsIn("internal/transfer") {
		info := f.Info()
		k := 0
		InspectNoLits(f.Body, func(n ast.Node) bool {
			if s, ok := n.(*ast.IncDecStmt); ok && s.Tok == token.DEC {
				if sel, ok := ast.Unparen(s.X).(*ast.SelectorExpr); ok && info.Uses[sel.Sel] == types.Object(remaining) {
					k++
					c.Check(f.Name == "transfer.(*recvFileStateMux).markChunkComplete", fmt.Sprintf("remaining-dec/%s#%d", f.Name, k), s.Pos(), "remaining is decremented only by markChunkComplete",
						"recvFileStateMux.remaining is decremented outside markChunkComplete: a chunk can be counted twice and the file finalised with a chunk missing")
				}
			}
			return true
		})
	}
	if mk := p.Func("transfer.(*recvFileStateMux).markChunkComplete"); mk != nil {
		// with a sidecar the decrement is guarded by MarkCompleteIfUnset
		info := mk.Info()
		spec := &PassSpec{Vias: []Via{
			{Cond: func(g *FuncInfo, e ast.Expr) (string, bool, bool) {
				if call, ok := ast.Unparen(e).(*ast.CallExpr); ok {
					if fi := p.CalleeInfo(g.Info(), call); fi != nil && fi.Name == "transfer.(*Sidecar).MarkCompleteIfUnset" {
						return "newly-set", true, true
					}
				}
				return "", false, false
			}},
			{Cond: func(g *FuncInfo, e ast.Expr) (string, bool, bool) { // no sidecar: plain counting
				if o, nilOnTrue, ok := nilTestSel(g.Info(), e, "sidecar"); ok {
					_ = o
					return "newly-set", nilOnTrue, true
				}
				return "", false, false
			}},
		}}
		k := 0
		mk.CFG().EachNode(func(r NodeRef) {
			if s, ok := r.Node().(*ast.IncDecStmt); ok && s.Tok == token.DEC {
				if sel, ok := ast.Unparen(s.X).(*ast.SelectorExpr); ok && info.Uses[sel.Sel] == types.Object(remaining) {
					k++
					c.Check(spec.Passed(mk, r, "newly-set"), fmt.Sprintf("remaining-dec/once#%d", k), s.Pos(), "a chunk is counted only when its bit was newly set (or there is no resume bitmap)",
						"remaining is decremented for a chunk whose completion bit was already set: a duplicate chunk finalises the file with another chunk missing")
				}
			}
		})
	}
}

// nilTestSel recognises `X.<field> != nil` / `== nil`.
func nilTestSel(info *types.Info, e ast.Expr, field string) (types.Object, bool, bool) {
	be, ok := ast.Unparen(e).(*ast.BinaryExpr)
	if !ok || (be.Op != token.NEQ && be.Op != token.EQL) {
		return nil, false, false
	}
	sel, ok := ast.Unparen(be.X).(*ast.SelectorExpr)
	if !ok || sel.Sel.Name != field || types.ExprString(be.Y) != "nil" {
		return nil, false, false
	}
	return info.Uses[sel.Sel], be.Op == token.EQL, true
}

func runVID(c *Ctx) {
	p := c.P
	mk := p.Func("transfer.makeVirtualStreamID")
	if mk == nil {
		c.MissingAnchor("transfer.makeVirtualStreamID")
		return
	}
	n := 0
	for _, f := range p.FuncsIn("internal/transfer") {
		info := f.Info()
		InspectNoLits(f.Body, func(nd ast.Node) bool {
			cl, ok := nd.(*ast.CompositeLit)
			if !ok || !strings.HasSuffix(info.TypeOf(cl).String(), "transfer.multiStream") {
				return true
			}
			n++
			key := fmt.Sprintf("vid/%s#%d", f.Name, n)
			var streamE, vidE ast.Expr
			for _, el := range cl.Elts {
				if kv, ok := el.(*ast.KeyValueExpr); ok {
					switch types.ExprString(kv.Key) {
					case "Stream":
						streamE = kv.Value
					case "virtualID":
						vidE = kv.Value
					}
				}
			}
			call, ok := ast.Unparen(vidE).(*ast.CallExpr)
			if vidE == nil || !ok || p.CalleeInfo(info, call) != mk || len(call.Args) != 2 {
				c.Bad(key, cl.Pos(), "multiStream is constructed without virtualID = makeVirtualStreamID(connIndex, id): streams of different connections get colliding ids and their chunks are attributed to the wrong stream")
				return true
			}
			// id argument: streamIDFromStream(<the same stream expr>)
			idOK := false
			for _, e := range resolveExprs(f, call.Args[1], 1) {
				if c2, ok := ast.Unparen(e).(*ast.CallExpr); ok {
					if g := p.CalleeInfo(info, c2); g != nil && g.Name == "transfer.streamIDFromStream" && len(c2.Args) == 1 && streamE != nil && types.ExprString(c2.Args[0]) == types.ExprString(streamE) {
						idOK = true
					}
				}
			}
			// index argument: the index of the connection the stream came from
			idxOK := false
			idxS := types.ExprString(call.Args[0])
			for _, e := range resolveExprs(f, streamE, 1) {
				// m.conns[IDX].OpenStream/AcceptStream(...)
				if c2, ok := ast.Unparen(e).(*ast.CallExpr); ok {
					if sel, ok := ast.Unparen(c2.Fun).(*ast.SelectorExpr); ok {
						if ix, ok := ast.Unparen(sel.X).(*ast.IndexExpr); ok && types.ExprString(ix.Index) == idxS {
							idxOK = true
						}
					}
				}
			}
			// res.stream / res.connIndex of the same acceptResult value
			if s1, ok := ast.Unparen(streamE).(*ast.SelectorExpr); ok {
				if s2, ok := ast.Unparen(call.Args[0]).(*ast.SelectorExpr); ok && types.ExprString(s1.X) == types.ExprString(s2.X) && s1.Sel.Name == "stream" && s2.Sel.Name == "connIndex" {
					idxOK = true
				}
			}
			c.Check(idOK && idxOK, key, cl.Pos(), "virtualID = makeVirtualStreamID(index of the stream's connection, the stream's own id)",
				fmt.Sprintf("the virtual stream id is not built from the stream's own connection index and id (index ok=%v, id ok=%v): chunks arriving on different connections are confused", idxOK, idOK))
			return true
		})
	}
	// acceptResult pairs (idx, stream accepted from conns[idx])
	if al := p.Func("transfer.(*multiConn).acceptLoop"); al != nil {
		info := al.Info()
		var idxP, connP types.Object
		k := 0
		for _, fld := range al.Type.Params.List {
			for _, nm := range fld.Names {
				if k == 0 {
					idxP = info.Defs[nm]
				} else {
					connP = info.Defs[nm]
				}
				k++
			}
		}
		ok := false
		ast.Inspect(al.Body, func(nd ast.Node) bool {
			if cl, isCl := nd.(*ast.CompositeLit); isCl && strings.HasSuffix(info.TypeOf(cl).String(), "acceptResult") {
				good := 0
				for _, el := range cl.Elts {
					if kv, isKV := el.(*ast.KeyValueExpr); isKV {
						if types.ExprString(kv.Key) == "connIndex" && ObjOf(info, kv.Value) == idxP {
							good++
						}
						if types.ExprString(kv.Key) == "stream" {
							for _, e := range resolveExprs(al, kv.Value, 1) {
								if c2, isC := ast.Unparen(e).(*ast.CallExpr); isC {
									if sel, isS := ast.Unparen(c2.Fun).(*ast.SelectorExpr); isS && ObjOf(info, sel.X) == connP && sel.Sel.Name == "AcceptStream" {
										good++
									}
								}
							}
						}
					}
				}
				if good == 2 {
					ok = true
				}
			}
			return true
		})
		c.Check(ok, "vid/acceptLoop-pairs", al.Pos(), "accept results carry the loop's own index together with a stream accepted from the loop's own connection", "acceptLoop labels accepted streams with an index that is not its own connection's")
		// started with (idx, conns[idx]) pairs
		if st := p.Func("transfer.(*multiConn).startAcceptLoops"); st != nil {
			pair := false
			var visit func(g *FuncInfo)
			visit = func(g *FuncInfo) {
				gi := g.Info()
				ast.Inspect(g.Body, func(nd ast.Node) bool {
					if rs, isR := nd.(*ast.RangeStmt); isR && strings.HasSuffix(types.ExprString(rs.X), ".conns") && rs.Key != nil && rs.Value != nil {
						ast.Inspect(rs.Body, func(m ast.Node) bool {
							if call, isC := m.(*ast.CallExpr); isC && p.CalleeInfo(gi, call) == al && len(call.Args) == 2 {
								if ObjOf(gi, call.Args[0]) == ObjOf(gi, rs.Key) && ObjOf(gi, call.Args[1]) == ObjOf(gi, rs.Value) {
									pair = true
								}
							}
							return true
						})
					}
					return true
				})
				for _, kid := range g.Kids {
					visit(kid)
				}
			}
			visit(st)
			c.Check(pair, "vid/start-pairs", st.Pos(), "accept loops are started with (index, conns[index]) pairs", "accept loops are not started with matching (index, connection) pairs")
		}
	} else {
		c.MissingAnchor("transfer.(*multiConn).acceptLoop")
	}
	// bit layout and connection bound
	{
		info := mk.Info()
		okShape := false
		ast.Inspect(mk.Body, func(nd ast.Node) bool {
			if be, ok := nd.(*ast.BinaryExpr); ok && be.Op == token.OR {
				l, r := types.ExprString(be.X), types.ExprString(be.Y)
				if strings.Contains(l, "<< virtualStreamIDShift") && strings.Contains(r, "& virtualStreamIDMask") {
					okShape = true
				}
			}
			return true
		})
		_ = info
		c.Check(okShape, "vid/bit-layout", mk.Pos(), "index << shift | id & mask: disjoint bit ranges", "makeVirtualStreamID no longer keeps connection index and stream id in disjoint bit ranges")
	}
	if nm := p.Func("transfer.NewMultiConn"); nm != nil {
		okBound := false
		ast.Inspect(nm.Body, func(nd ast.Node) bool {
			if is, ok := nd.(*ast.IfStmt); ok {
				if be, ok := ast.Unparen(is.Cond).(*ast.BinaryExpr); ok && be.Op == token.GTR && strings.HasPrefix(types.ExprString(be.X), "len(") {
					if z, ok := constInt(nm.Info(), be.Y); ok && z <= 255 {
						okBound = true
					}
				}
			}
			return true
		})
		c.Check(okBound, "vid/conn-bound", nm.Pos(), "at most 255 connections (index fits the 8 bits above the shift)", "NewMultiConn no longer bounds the number of connections to what fits above virtualStreamIDShift")
	}
}
