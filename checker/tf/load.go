package tf

import (
	"fmt"
	"go/ast"
	"go/token"
	"go/types"
	"os"
	"sort"
	"strings"
	"time"

	"golang.org/x/tools/go/packages"
)

// ModulePath is the Go module of the repository under analysis.
const ModulePath = "github.com/sheerbytes/sheerbytes"

// Program is the loaded, type-checked repository.
type Program struct {
	Repo   string
	Fset   *token.FileSet
	Pkgs   []*packages.Package          // repo packages, sorted by path
	ByPath map[string]*packages.Package // import path (relative to module, e.g. "internal/transfer") -> pkg
	LoadS  float64

	fidx  *funcIndex
	noret map[*FuncInfo]bool
	callSites map[*types.Func][]site
	live      map[*FuncInfo]bool

	
	
	
}

// Load loads ./... of repo with full syntax and types for the repo packages.
func Load(repo string) (*Program, error) {
	t0 := time.Now()
	env := os.Environ()
	env = filterEnv(env, "GOWORK", "GOFLAGS", "GOPROXY", "GOSUMDB", "GOTOOLCHAIN")
	env = append(env, "GOWORK=off", "GOFLAGS=-mod=mod", "GOPROXY=off", "GOSUMDB=off", "GOTOOLCHAIN=local")
	// go1.26.8 first on PATH so that `go list` understands the repo's go directive offline.
	path := os.Getenv("PATH")
	if _, err := os.Stat("/opt/veriftools/go1.26.8/bin/go"); err == nil {
		path = "/opt/veriftools/go1.26.8/bin:" + path
	}
	env = filterEnv(env, "PATH")
	env = append(env, "PATH="+path)
	os.Setenv("PATH", path) // go/packages resolves the go command through the process PATH
	mode := packages.NeedName | packages.NeedFiles | packages.NeedCompiledGoFiles | packages.NeedImports |
		packages.NeedTypes | packages.NeedTypesSizes | packages.NeedSyntax | packages.NeedTypesInfo | packages.NeedModule
	if os.Getenv("TFCHECK_ALLSYNTAX") != "" {
		mode |= packages.NeedDeps
	}
	cfg := &packages.Config{Mode: mode, Dir: repo, Env: env, Tests: false}
	pkgs, err := packages.Load(cfg, "./...")
	if err != nil {
		return nil, fmt.Errorf("packages.Load: %w", err)
	}
	p := &Program{Repo: repo, ByPath: map[string]*packages.Package{}}
	var errs []string
	for _, pk := range pkgs {
		for _, e := range pk.Errors {
			errs = append(errs, e.Error())
		}
		if !strings.HasPrefix(pk.PkgPath, ModulePath) {
			continue
		}
		p.Pkgs = append(p.Pkgs, pk)
		rel := strings.TrimPrefix(strings.TrimPrefix(pk.PkgPath, ModulePath), "/")
		p.ByPath[rel] = pk
		p.Fset = pk.Fset
	}
	if len(errs) > 0 {
		sort.Strings(errs)
		if len(errs) > 10 {
			errs = errs[:10]
		}
		return nil, fmt.Errorf("repository does not type-check: %s", strings.Join(errs, "; "))
	}
	if len(p.Pkgs) < 20 {
		return nil, fmt.Errorf("only %d repository packages loaded (expected >= 20)", len(p.Pkgs))
	}
	sort.Slice(p.Pkgs, func(i, j int) bool { return p.Pkgs[i].PkgPath < p.Pkgs[j].PkgPath })
	p.LoadS = time.Since(t0).Seconds()
	return p, nil
}

func filterEnv(env []string, keys ...string) []string {
	var out []string
outer:
	for _, e := range env {
		for _, k := range keys {
			if strings.HasPrefix(e, k+"=") {
				continue outer
			}
		}
		out = append(out, e)
	}
	return out
}

// Pkg returns the package with module-relative path rel or nil.
func (p *Program) Pkg(rel string) *packages.Package { return p.ByPath[rel] }

// Pos renders a position relative to the repo root.
func (p *Program) Pos(pos token.Pos) string {
	if !pos.IsValid() {
		return "?"
	}
	ps := p.Fset.Position(pos)
	f := strings.TrimPrefix(ps.Filename, p.Repo+"/")
	return fmt.Sprintf("%s:%d", f, ps.Line)
}

// LookupObj finds a package-level object or a method ("T.m") in package rel.
func (p *Program) LookupObj(rel, name string) types.Object {
	pk := p.ByPath[rel]
	if pk == nil {
		return nil
	}
	if i := strings.Index(name, "."); i >= 0 {
		tn, _ := pk.Types.Scope().Lookup(name[:i]).(*types.TypeName)
		if tn == nil {
			return nil
		}
		obj, _, _ := types.LookupFieldOrMethod(tn.Type(), true, pk.Types, name[i+1:])
		return obj
	}
	return pk.Types.Scope().Lookup(name)
}

var _ = ast.Inspect
