package tf

import (
	"fmt"
	"go/ast"
	"go/token"
	"go/types"
	"strings"
)

// Demand-driven backward slicer over the AST: is a string expression (a filesystem path)
// built only from constants, user-chosen configuration, and peer-chosen strings that were
// validated? Locals are followed to all their definitions (each judged at its own program
// point), parameters to all call sites, struct fields to all stores, closure free variables
// to the enclosing function. Peer-chosen records (manifest, FileBegin, signaling payloads)
// are safe only by provenance (a value returned by a validating decoder) or by a dominating
// validator call on the very expression.

type taintCtx struct {
	p        *Program
	valid    *PassSpec // facts "v:<expr>" from validateRelPath/validateFilename, "vm:<expr>" from validateManifest
	memo     map[string]int // 0 unknown, 1 safe, 2 unsafe, 3 in progress
	why      map[string]string
	assumeParams map[*FuncInfo]bool // while checking a callee summary, its parameters are assumed safe
}

func newTaintCtx(p *Program) *taintCtx {
	t := &taintCtx{p: p, memo: map[string]int{}, why: map[string]string{}, assumeParams: map[*FuncInfo]bool{}}
	t.valid = &PassSpec{Name: "validated"}
	t.valid.Vias = []Via{{Call: func(f *FuncInfo, call *ast.CallExpr) (string, bool) {
		g := p.CalleeInfo(f.Info(), call)
		if g == nil || len(call.Args) != 1 {
			return "", false
		}
		switch g.Name {
		case "transfer.validateRelPath", "transfer.validateFilename":
			return "v:" + types.ExprString(ast.Unparen(call.Args[0])), true
		case "transfer.validateManifest":
			return "vm:" + types.ExprString(ast.Unparen(call.Args[0])), true
		}
		return "", false
	}}}
	// inline plain-name test:  X != "." && X != ".." && !strings.ContainsAny(X, "/\\")  (in any order, possibly with more conjuncts)
	t.valid.Vias = append(t.valid.Vias, Via{Cond: func(f *FuncInfo, e ast.Expr) (string, bool, bool) {
		atoms := Implied(e, true)
		if len(atoms) < 3 {
			return "", false, false
		}
		info := f.Info()
		dot, dotdot, seps := map[string]bool{}, map[string]bool{}, map[string]bool{}
		for _, a := range atoms {
			if be, ok := a.E.(*ast.BinaryExpr); ok && be.Op == token.NEQ && a.Val {
				if s, ok := constString(info, be.Y); ok {
					x := types.ExprString(ast.Unparen(be.X))
					if s == "." {
						dot[x] = true
					}
					if s == ".." {
						dotdot[x] = true
					}
				}
			}
			if call, ok := a.E.(*ast.CallExpr); ok && !a.Val && calleeIs(info, call, "strings", "ContainsAny") && len(call.Args) == 2 {
				if s, ok := constString(info, call.Args[1]); ok && strings.Contains(s, "/") && strings.Contains(s, "\\") {
					seps[types.ExprString(ast.Unparen(call.Args[0]))] = true
				}
			}
		}
		for x := range seps {
			if dot[x] && dotdot[x] {
				return "v:" + x, true, true
			}
		}
		return "", false, false
	}})
	t.valid.KillMatch = func(f *FuncInfo, n ast.Node, id string) bool {
		// the validated expression's root variable is reassigned
		expr := id[strings.Index(id, ":")+1:]
		root := expr
		if i := strings.IndexAny(root, ".[("); i >= 0 {
			root = root[:i]
		}
		for _, o := range AssignedObjs(f.Info(), n) {
			if o.Name() == root {
				// the statement that contains the validator call itself never reassigns its argument
				return true
			}
		}
		return false
	}
	return t
}

// peerRecordType: struct types whose content is chosen by the peer (decoded from the wire / signaling).
func peerRecordType(t types.Type) string {
	if p, ok := t.(*types.Pointer); ok {
		t = p.Elem()
	}
	n, ok := t.(*types.Named)
	if !ok || n.Obj().Pkg() == nil {
		return ""
	}
	path := n.Obj().Pkg().Path()
	switch {
	case path == RepoPkg("pkg/manifest") && (n.Obj().Name() == "Manifest" || n.Obj().Name() == "FileItem"):
		return "manifest"
	case path == RepoPkg("pkg/protocol"):
		return "signal"
	case path == RepoPkg("internal/transfer"):
		switch n.Obj().Name() {
		case "FileBegin", "FileEnd", "FileDone", "FileResumeInfo", "ResumeRequest", "Credit", "CreditBatch", "DataStreams":
			return "wire"
		}
	}
	return ""
}

// isUserConfigType: configuration structs filled from the user's command line (…Config, transfer.Options).
func isUserConfigType(t types.Type) bool {
	if p, ok := t.(*types.Pointer); ok {
		t = p.Elem()
	}
	n, ok := t.(*types.Named)
	if !ok || n.Obj().Pkg() == nil || !strings.HasPrefix(n.Obj().Pkg().Path(), ModulePath) {
		return false
	}
	name := n.Obj().Name()
	return strings.HasSuffix(name, "Config") || name == "Options"
}

func isPathFn(info *types.Info, call *ast.CallExpr) bool {
	fn := Callee(info, call)
	if fn == nil || fn.Pkg() == nil {
		return false
	}
	switch fn.Pkg().Path() {
	case "path/filepath", "path":
		switch fn.Name() {
		case "Join", "FromSlash", "ToSlash", "Dir", "Clean", "Base", "Ext", "Abs", "Rel":
			return true
		}
	case "strings":
		switch fn.Name() {
		case "Trim", "TrimSpace", "TrimPrefix", "TrimSuffix", "TrimLeft", "TrimRight", "ToLower", "ToUpper", "ReplaceAll", "Replace":
			return true
		}
	case "fmt":
		return fn.Name() == "Sprintf" || fn.Name() == "Sprint"
	}
	return false
}

func (t *taintCtx) key(kind string, f *FuncInfo, ref NodeRef, e ast.Expr) string {
	pos := token.NoPos
	if ref.Valid() {
		pos = ref.Node().Pos()
	}
	return fmt.Sprintf("%s|%s|%d|%s", kind, f.Name, pos, types.ExprString(e))
}

func (t *taintCtx) fail(k, why string) bool {
	t.memo[k] = 2
	if t.why[k] == "" {
		t.why[k] = why
	}
	return false
}

// Why returns the first unsafe leaf recorded for the query (for reports).
func (t *taintCtx) Why(f *FuncInfo, ref NodeRef, e ast.Expr) string {
	// collect all recorded reasons that mention this query or its sub-queries: simplest is the most recent distinct reasons
	var out []string
	seen := map[string]bool{}
	for _, w := range t.why {
		if !seen[w] {
			seen[w] = true
			out = append(out, w)
		}
	}
	if len(out) > 6 {
		out = out[:6]
	}
	return strings.Join(out, " | ")
}

// defsOf returns the definitions (rhs expression, program point, function) of a local variable or free variable.
type vdef struct {
	f   *FuncInfo
	ref NodeRef
	rhs ast.Expr // nil: declared without value (zero)
	rng *ast.RangeStmt
	isKey bool
}

func (t *taintCtx) defsOf(f *FuncInfo, o types.Object) (defs []vdef, owner *FuncInfo) {
	for g := f; g != nil; g = g.Parent {
		gi := g.Info()
		var found []vdef
		cfg := g.CFG()
		cfg.EachNode(func(r NodeRef) {
			switch s := r.Node().(type) {
			case *ast.AssignStmt:
				if len(s.Lhs) == len(s.Rhs) {
					for i, l := range s.Lhs {
						if ObjOf(gi, l) == o {
							found = append(found, vdef{f: g, ref: r, rhs: s.Rhs[i]})
						}
					}
				} else if len(s.Rhs) == 1 {
					for i, l := range s.Lhs {
						if ObjOf(gi, l) == o {
							if i == 0 {
								found = append(found, vdef{f: g, ref: r, rhs: s.Rhs[0]})
							} else {
								found = append(found, vdef{f: g, ref: r, rhs: nil})
							}
						}
					}
				}
			case *ast.DeclStmt:
				if gd, ok := s.Decl.(*ast.GenDecl); ok {
					for _, sp := range gd.Specs {
						if vs, ok := sp.(*ast.ValueSpec); ok {
							for i, nm := range vs.Names {
								if gi.Defs[nm] == o {
									if i < len(vs.Values) {
										found = append(found, vdef{f: g, ref: r, rhs: vs.Values[i]})
									} else {
										found = append(found, vdef{f: g, ref: r, rhs: nil})
									}
								}
							}
						}
					}
				}
			case *ast.Ident:
				// range key/value idents appear as nodes
				if gi.Defs[s] == o || gi.Uses[s] == o {
					var owner *ast.RangeStmt
					isKey := false
					ast.Inspect(g.Body, func(m ast.Node) bool {
						if rs, ok := m.(*ast.RangeStmt); ok {
							if rs.Value == ast.Expr(s) {
								owner = rs
							}
							if rs.Key == ast.Expr(s) {
								owner, isKey = rs, true
							}
						}
						return owner == nil
					})
					if owner != nil {
						found = append(found, vdef{f: g, ref: r, rng: owner, isKey: isKey})
					}
				}
			}
		})
		// type switch / if-init short var decls are AssignStmt nodes too; select comm assigns: ignore
		if len(found) > 0 {
			return found, g
		}
		// is it a parameter of g?
		for _, fld := range g.Type.Params.List {
			for _, nm := range fld.Names {
				if gi.Defs[nm] == o {
					return nil, g
				}
			}
		}
		if g.Decl != nil && g.Decl.Recv != nil {
			for _, fld := range g.Decl.Recv.List {
				for _, nm := range fld.Names {
					if gi.Defs[nm] == o {
						return nil, g
					}
				}
			}
		}
	}
	return nil, nil
}

func (t *taintCtx) paramIndex(g *FuncInfo, o types.Object) int {
	k := 0
	for _, fld := range g.Type.Params.List {
		for _, nm := range fld.Names {
			if g.Info().Defs[nm] == o {
				return k
			}
			k++
		}
	}
	return -1
}

// callSitesOf: (function, node, call) triples that invoke g (declared function or closure).
type csite struct {
	f    *FuncInfo
	ref  NodeRef
	call *ast.CallExpr
}

func (t *taintCtx) callSitesOf(g *FuncInfo) []csite {
	var out []csite
	var sites []site
	if g.Lit != nil {
		sites = t.p.activationSites(g)
	} else if g.Obj != nil {
		sites = t.p.CallSites(g.Obj)
	}
	for _, st := range sites {
		InspectNoLits(st.ref.Node(), func(m ast.Node) bool {
			if call, ok := m.(*ast.CallExpr); ok && t.p.CalleeInfo(st.f.Info(), call) == g {
				out = append(out, csite{st.f, st.ref, call})
			}
			return true
		})
	}
	return out
}

// SafeStr: is string expression e, evaluated at ref in f, free of unvalidated peer-chosen content?
func (t *taintCtx) SafeStr(f *FuncInfo, ref NodeRef, e ast.Expr, depth int) bool {
	e = ast.Unparen(e)
	info := f.Info()
	k := t.key("s", f, ref, e)
	switch t.memo[k] {
	case 1:
		return true
	case 2:
		return false
	case 3:
		return true // cycle: optimistic (self-append / loop-carried), other definitions decide
	}
	if depth <= 0 {
		return t.fail(k, "slice too deep at "+types.ExprString(e))
	}
	t.memo[k] = 3
	res := t.safeStr(f, ref, e, depth, info, k)
	if res {
		t.memo[k] = 1
	} else if t.memo[k] != 2 {
		t.memo[k] = 2
	}
	return res
}

func (t *taintCtx) safeStr(f *FuncInfo, ref NodeRef, e ast.Expr, depth int, info *types.Info, k string) bool {
	if tv, ok := info.Types[e]; ok && tv.Value != nil {
		return true
	}
	if ref.Valid() && t.valid.Passed(f, ref, "v:"+types.ExprString(e)) {
		return true
	}
	switch v := e.(type) {
	case *ast.BasicLit:
		return true
	case *ast.BinaryExpr:
		if v.Op == token.ADD {
			return t.SafeStr(f, ref, v.X, depth-1) && t.SafeStr(f, ref, v.Y, depth-1)
		}
		return t.fail(k, "unsupported operator in path expression "+types.ExprString(e))
	case *ast.CallExpr:
		if tv, ok := info.Types[v.Fun]; ok && tv.IsType() && len(v.Args) == 1 {
			return t.SafeStr(f, ref, v.Args[0], depth-1)
		}
		if isPathFn(info, v) {
			for _, a := range v.Args {
				at := info.TypeOf(a)
				if at == nil {
					continue
				}
				if isStringType(at) {
					if !t.SafeStr(f, ref, a, depth-1) {
						return false
					}
				} else if _, isSlice := at.Underlying().(*types.Slice); isSlice {
					if !t.SafeVal(f, ref, a, depth-1) {
						return false
					}
				}
			}
			return true
		}
		if g := t.p.CalleeInfo(info, v); g != nil {
			// repository function returning a string: slice into its return expressions (its parameters resolve to all of its
			// receive-side call sites, including this one), so a callee that sanitises its argument is understood
			if !t.calleeReturnsSafe(g, depth-1, false) {
				return t.fail(k, "a string returned by "+g.Name+" can carry unvalidated peer-chosen content")
			}
			return true
		}
		// method on a hash etc. producing digits: Sprintf("%x", h.Sum64()) handled by isPathFn (non-string args ignored)
		return t.fail(k, "unknown call in path expression: "+types.ExprString(v.Fun))
	case *ast.Ident:
		o := ObjOf(info, v)
		if o == nil {
			return t.fail(k, "unresolved identifier "+v.Name)
		}
		if _, isConst := o.(*types.Const); isConst {
			return true
		}
		defs, owner := t.defsOf(f, o)
		if owner == nil {
			return t.fail(k, "package-level or unknown variable "+v.Name)
		}
		if len(defs) == 0 {
			// parameter
			return t.safeParam(owner, o, depth, k, false)
		}
		if t.paramIndex(owner, o) >= 0 && !t.safeParam(owner, o, depth, k, false) {
			return false // a parameter that is also reassigned keeps its incoming value on other paths
		}
		for _, d := range defs {
			switch {
			case d.rng != nil:
				if d.isKey {
					// map key / index: safe if the map's keys are safe: keys come from stores; conservatively require container safe
					if !t.SafeVal(d.f, d.ref, d.rng.X, depth-1) {
						return t.fail(k, "range key over an unsafe container "+types.ExprString(d.rng.X))
					}
				} else if !t.SafeVal(d.f, d.ref, d.rng.X, depth-1) {
					return false
				}
			case d.rhs == nil:
				// zero value or non-first result: empty string is safe; non-first results (ok, err) are not strings
			default:
				if !t.SafeStr(d.f, d.ref, d.rhs, depth-1) {
					return false
				}
			}
		}
		return true
	case *ast.SelectorExpr:
		fv, _ := info.Uses[v.Sel].(*types.Var)
		if fv != nil && !fv.IsField() && fv.Pkg() != nil && fv.Pkg().Path() == "os" && fv.Name() == "Args" {
			return true // the user's own command line
		}
		if fv == nil || !fv.IsField() {
			return t.fail(k, "non-field selector "+types.ExprString(e))
		}
		if isUserConfigType(info.TypeOf(v.X)) {
			return true
		}
		switch peerRecordType(info.TypeOf(v.X)) {
		case "manifest", "wire", "signal":
			if t.SafeVal(f, ref, v.X, depth-1) {
				return true
			}
			return t.fail(k, "peer-chosen field "+types.ExprString(e)+" reaches a filesystem path without validation")
		}
		return t.safeField(fv, depth, k)
	case *ast.IndexExpr:
		return t.SafeVal(f, ref, v.X, depth-1)
	}
	return t.fail(k, "unsupported path expression "+types.ExprString(e))
}

// safeParam: every repository call site passes a safe argument; a function nobody in the repository calls (an API entry point,
// or one only called from outside) receives user-chosen values.
func (t *taintCtx) safeParam(g *FuncInfo, o types.Object, depth int, k string, val bool) bool {
	if t.assumeParams[g] {
		return true
	}
	idx := t.paramIndex(g, o)
	if idx < 0 {
		// receiver: the object's fields are judged by their stores
		return true
	}
	sites := t.callSitesOf(g)
	if len(sites) == 0 {
		if g.Lit != nil {
			return t.fail(k, "closure "+g.Name+" has no resolvable call sites")
		}
		return true // exported API / entry point: the caller is the user
	}
	for _, cs := range sites {
		if idx >= len(cs.call.Args) {
			continue
		}
		if senderSide(cs.f) {
			continue // the sending user's own files and manifest
		}
		a := cs.call.Args[idx]
		var ok bool
		if val {
			ok = t.SafeVal(cs.f, cs.ref, a, depth-1)
		} else {
			ok = t.SafeStr(cs.f, cs.ref, a, depth-1)
		}
		if !ok {
			return t.fail(k, fmt.Sprintf("argument %s of %s at %s", types.ExprString(a), g.Name, t.p.Pos(cs.call.Pos())))
		}
	}
	return true
}

// safeField: all stores into a repository struct field are safe at their program points; fields never stored in the repository
// (configuration filled by flag parsing / callers) are user-chosen.
func (t *taintCtx) safeField(fv *types.Var, depth int, k string) bool {
	fk := "field|" + fv.Pkg().Path() + "." + fv.Name() + fmt.Sprint(fv.Pos())
	switch t.memo[fk] {
	case 1, 3:
		return true
	case 2:
		return t.fail(k, t.why[fk])
	}
	t.memo[fk] = 3
	ok := true
	for _, g := range t.p.Funcs() {
		if g.Pkg.Types != fv.Pkg() && !strings.HasPrefix(g.Pkg.PkgPath, ModulePath) {
			continue
		}
		gi := g.Info()
		g.CFG().EachNode(func(r NodeRef) {
			if !ok {
				return
			}
			InspectNoLits(r.Node(), func(m ast.Node) bool {
				if _, isLit := m.(*ast.FuncLit); isLit {
					return false
				}
				switch s := m.(type) {
				case *ast.KeyValueExpr:
					if id, isID := s.Key.(*ast.Ident); isID && gi.Uses[id] == types.Object(fv) {
						if !t.safeAny(g, r, s.Value, depth-1) {
							ok = false
							t.why[fk] = fmt.Sprintf("store %s: %s at %s", fv.Name(), types.ExprString(s.Value), t.p.Pos(s.Pos()))
						}
					}
				case *ast.AssignStmt:
					if len(s.Lhs) == len(s.Rhs) {
						for i, l := range s.Lhs {
							if sel, isSel := ast.Unparen(l).(*ast.SelectorExpr); isSel && gi.Uses[sel.Sel] == types.Object(fv) {
								if !t.safeAny(g, r, s.Rhs[i], depth-1) {
									ok = false
									t.why[fk] = fmt.Sprintf("store %s = %s at %s", types.ExprString(l), types.ExprString(s.Rhs[i]), t.p.Pos(s.Pos()))
								}
							}
						}
					}
				}
				return true
			})
		})
	}
	if ok {
		t.memo[fk] = 1
		return true
	}
	t.memo[fk] = 2
	return t.fail(k, t.why[fk])
}

func (t *taintCtx) safeAny(f *FuncInfo, ref NodeRef, e ast.Expr, depth int) bool {
	at := f.Info().TypeOf(e)
	if at != nil && isStringType(at) {
		return t.SafeStr(f, ref, e, depth)
	}
	return t.SafeVal(f, ref, e, depth)
}

// calleeReturnsSafe: every non-error result returned by g is safe (judged inside g; its parameters resolve to its call sites).
func (t *taintCtx) calleeReturnsSafe(g *FuncInfo, depth int, val bool) bool {
	ck := "ret|" + g.Name
	switch t.memo[ck] {
	case 1, 3:
		return true
	case 2:
		return false
	}
	t.memo[ck] = 3
	ok := true
	for _, b := range g.CFG().Blocks {
		ret, isRet := IsReturnExit(b)
		if !isRet {
			continue
		}
		ref := NodeRef{b, len(b.Nodes) - 1}
		for _, r := range ret.Results {
			rt := g.Info().TypeOf(r)
			if rt == nil || isErrorType(rt) || isBool(rt) || types.ExprString(r) == "nil" {
				continue
			}
			if b, isBasic := rt.Underlying().(*types.Basic); isBasic && b.Info()&types.IsString == 0 {
				continue
			}
			if !t.safeAny(g, ref, r, depth) {
				ok = false
			}
		}
	}
	if ok {
		t.memo[ck] = 1
	} else {
		t.memo[ck] = 2
	}
	return ok
}

// SafeVal: is the record / container value e (manifest, item, FileBegin, slices and maps of them, or of strings) validated by provenance?
func (t *taintCtx) SafeVal(f *FuncInfo, ref NodeRef, e ast.Expr, depth int) bool {
	e = ast.Unparen(e)
	info := f.Info()
	k := t.key("v", f, ref, e)
	switch t.memo[k] {
	case 1:
		return true
	case 2:
		return false
	case 3:
		return true
	}
	if depth <= 0 {
		return t.fail(k, "slice too deep at "+types.ExprString(e))
	}
	t.memo[k] = 3
	res := t.safeVal(f, ref, e, depth, info, k)
	if res {
		t.memo[k] = 1
	} else {
		t.memo[k] = 2
	}
	return res
}

func (t *taintCtx) safeVal(f *FuncInfo, ref NodeRef, e ast.Expr, depth int, info *types.Info, k string) bool {
	// a validated manifest / a FileBegin whose path was validated
	if ref.Valid() {
		s := types.ExprString(e)
		if t.valid.Passed(f, ref, "vm:"+s) || t.valid.Passed(f, ref, "v:"+s+".RelPath") {
			return true
		}
	}
	switch v := e.(type) {
	case *ast.CallExpr:
		if g := t.p.CalleeInfo(info, v); g != nil {
			switch g.Name {
			case "transfer.readControlHeader":
				return true // returns only validated manifests: checked by R-TAINT/source/readControlHeader
			}
			if id, ok := ast.Unparen(v.Fun).(*ast.Ident); ok && (id.Name == "make" || id.Name == "new") {
				return true
			}
			// a repository function producing a container / record: slice into its return expressions
			if !t.calleeReturnsSafe(g, depth-1, true) {
				return t.fail(k, "a value returned by "+g.Name+" can carry unvalidated peer-chosen content")
			}
			return true
		}
		if id, ok := ast.Unparen(v.Fun).(*ast.Ident); ok {
			switch id.Name {
			case "make", "new":
				return true
			case "append":
				for i, a := range v.Args {
					if i == 0 {
						if !t.SafeVal(f, ref, a, depth-1) {
							return false
						}
						continue
					}
					if !t.safeAny(f, ref, a, depth-1) {
						return false
					}
				}
				return true
			}
		}
		if tv, ok := info.Types[v.Fun]; ok && tv.IsType() && len(v.Args) == 1 {
			return t.safeAny(f, ref, v.Args[0], depth-1)
		}
		return t.fail(k, "unknown producer of a peer record: "+types.ExprString(v.Fun))
	case *ast.CompositeLit:
		for _, el := range v.Elts {
			val := el
			if kv, ok := el.(*ast.KeyValueExpr); ok {
				val = kv.Value
			}
			if !t.safeAny(f, ref, val, depth-1) {
				return false
			}
		}
		return true
	case *ast.UnaryExpr:
		return t.SafeVal(f, ref, v.X, depth-1)
	case *ast.StarExpr:
		return t.SafeVal(f, ref, v.X, depth-1)
	case *ast.Ident:
		o := ObjOf(info, v)
		if o == nil {
			return t.fail(k, "unresolved identifier "+v.Name)
		}
		if _, isNil := o.(*types.Nil); isNil {
			return true
		}
		defs, owner := t.defsOf(f, o)
		if owner == nil {
			return t.fail(k, "package-level or unknown variable "+v.Name)
		}
		if len(defs) == 0 {
			return t.safeParam(owner, o, depth, k, true)
		}
		if t.paramIndex(owner, o) >= 0 && !t.safeParam(owner, o, depth, k, true) {
			return false
		}
		for _, d := range defs {
			switch {
			case d.rng != nil:
				if !t.SafeVal(d.f, d.ref, d.rng.X, depth-1) {
					return false
				}
			case d.rhs == nil:
			default:
				if !t.safeAny(d.f, d.ref, d.rhs, depth-1) {
					return false
				}
			}
		}
		// containers: element stores  x[k] = v  and appends are definitions too
		if _, isMap := o.Type().Underlying().(*types.Map); isMap {
			for g := owner; g != nil; g = nil {
				var visit func(h *FuncInfo) bool
				visit = func(h *FuncInfo) bool {
					okAll := true
					hi := h.Info()
					h.CFG().EachNode(func(r NodeRef) {
						if as, ok := r.Node().(*ast.AssignStmt); ok && len(as.Lhs) == len(as.Rhs) {
							for i, l := range as.Lhs {
								if ix, ok := ast.Unparen(l).(*ast.IndexExpr); ok && ObjOf(hi, ix.X) == o {
									if !t.safeAny(h, r, as.Rhs[i], depth-1) || !t.safeAny(h, r, ix.Index, depth-1) {
										okAll = false
									}
								}
							}
						}
					})
					for _, kid := range h.Kids {
						if !visit(kid) {
							okAll = false
						}
					}
					return okAll
				}
				if !visit(g) {
					return t.fail(k, "a store into map "+v.Name+" is not safe")
				}
			}
		}
		return true
	case *ast.SelectorExpr:
		fv, _ := info.Uses[v.Sel].(*types.Var)
		if fv == nil || !fv.IsField() {
			return t.fail(k, "non-field selector "+types.ExprString(e))
		}
		if peerRecordType(info.TypeOf(v.X)) != "" {
			// a part of a peer record (m.Items): as safe as the record
			return t.SafeVal(f, ref, v.X, depth-1)
		}
		return t.safeField(fv, depth, k)
	case *ast.IndexExpr:
		return t.SafeVal(f, ref, v.X, depth-1)
	case *ast.SliceExpr:
		return t.SafeVal(f, ref, v.X, depth-1)
	case *ast.TypeAssertExpr:
		// msg.(FileBegin): the decoded wire record — raw
		if peerRecordType(info.TypeOf(e)) != "" {
			return t.fail(k, "decoded wire record "+types.ExprString(e)+" used without validation")
		}
		return t.SafeVal(f, ref, v.X, depth-1)
	}
	if tv, ok := info.Types[e]; ok && tv.Value != nil {
		return true
	}
	return t.fail(k, "unsupported value expression "+types.ExprString(e))
}

