package tf

import (
	"fmt"
	"go/ast"
	"go/types"
	"strings"
)

func init() {
	Register(&Rule{
		Name:  "R-TAINT",
		Props: []string{"C07"},
		Min:   30,
		Doc: "fs-sink-confined: for every os.* call that creates, modifies, deletes or reads a filesystem entry in the receive-side functions of internal/transfer and internal/app, the path argument is sliced backwards " +
			"(locals to all their definitions, parameters to all call sites, struct fields to all stores, closure variables to the enclosing function, through filepath.Join/FromSlash/Dir/Clean, concatenation, Sprintf, Trim*) " +
			"and every leaf is a constant, a user-chosen configuration value, or a peer-chosen string that was validated: by a dominating validateRelPath/validateFilename on that very expression, or by provenance from a decoder that " +
			"returns only validated records (readControlHeader -> validateManifest, which must cover root, every item path and every item id). Unknown leaf kinds are failures",
		Run: runTaint,
	})
}

func senderSide(f *FuncInfo) bool {
	root := f.Root().Name
	for _, pre := range []string{"transfer.Send", "transfer.send", "transfer.(*sendFileState)", "app.(*SnapshotSender)", "app.RunSnapshotSender", "app.buildPathResolver", "sender.", "manifest."} {
		if strings.HasPrefix(root, pre) {
			return true
		}
	}
	return false
}

var readSinks = map[string]int{"ReadFile": 0, "ReadDir": 0, "Open": 0, "Stat": 0, "Lstat": 0}

func runTaint(c *Ctx) {
	p := c.P
	t := newTaintCtx(p)
	// ---- T2: validateManifest covers root, every item path, every item id
	vm := p.Func("transfer.validateManifest")
	if vm == nil {
		c.Bad("source/validateManifest", p.Pkg("internal/transfer").Syntax[0].Pos(), "there is no validateManifest: the manifest's root, directory paths and item ids (which name the resume metadata file) reach filesystem calls unvalidated")
	} else {
		info := vm.Info()
		var mParam types.Object
		if len(vm.Type.Params.List) > 0 && len(vm.Type.Params.List[0].Names) > 0 {
			mParam = info.Defs[vm.Type.Params.List[0].Names[0]]
		}
		covered := map[string]bool{}
		// every validator call must have its error checked and returned
		spec := &PassSpec{Vias: []Via{{Call: func(f *FuncInfo, call *ast.CallExpr) (string, bool) {
			g := p.CalleeInfo(f.Info(), call)
			if g == nil || len(call.Args) != 1 || (g.Name != "transfer.validateRelPath" && g.Name != "transfer.validateFilename") {
				return "", false
			}
			return "checked:" + types.ExprString(call.Args[0]), true
		}}}}
		_ = spec
		ast.Inspect(vm.Body, func(n ast.Node) bool {
			is, ok := n.(*ast.IfStmt)
			if !ok || is.Init == nil {
				return true
			}
			as, ok := is.Init.(*ast.AssignStmt)
			if !ok || len(as.Rhs) != 1 {
				return true
			}
			call, ok := ast.Unparen(as.Rhs[0]).(*ast.CallExpr)
			if !ok || len(call.Args) != 1 {
				return true
			}
			g := p.CalleeInfo(info, call)
			if g == nil || (g.Name != "transfer.validateRelPath" && g.Name != "transfer.validateFilename") {
				return true
			}
			// error must lead to a non-nil return
			returns := false
			for _, st := range is.Body.List {
				if ret, ok := st.(*ast.ReturnStmt); ok && len(ret.Results) == 1 && types.ExprString(ret.Results[0]) != "nil" {
					returns = true
				}
			}
			if !returns || !isErrNilCond(info, is.Cond) {
				return true
			}
			sel, ok := ast.Unparen(call.Args[0]).(*ast.SelectorExpr)
			if !ok {
				return true
			}
			// the check must run for every value: enclosing conditions may only exempt the empty string / "/" of the same expression
			argStr := types.ExprString(call.Args[0])
			unconditional := true
			ast.Inspect(vm.Body, func(m ast.Node) bool {
				outer, ok := m.(*ast.IfStmt)
				if !ok || outer == is || !(outer.Body.Pos() <= is.Pos() && is.End() <= outer.Body.End()) {
					return true
				}
				for _, a := range Implied(outer.Cond, true) {
					be, ok := a.E.(*ast.BinaryExpr)
					if !ok || be.Op.String() != "!=" || types.ExprString(ast.Unparen(be.X)) != argStr {
						unconditional = false
						continue
					}
					if sv, isC := constString(info, be.Y); !isC || (sv != "" && sv != "/") {
						unconditional = false
					}
				}
				if len(Implied(outer.Cond, true)) == 0 {
					unconditional = false
				}
				return true
			})
			if !unconditional {
				return true
			}
			// m.Root or item.<F> where item ranges over m.Items
			if ObjOf(info, sel.X) == mParam && sel.Sel.Name == "Root" {
				// the guard around it may only exempt values that are harmless: "" and "/"
				covered["Root:"+strings.TrimPrefix(g.Name, "transfer.")] = true
			}
			if o := ObjOf(info, sel.X); o != nil && o != mParam {
				isItem := false
				ast.Inspect(vm.Body, func(m ast.Node) bool {
					if rs, ok := m.(*ast.RangeStmt); ok && rs.Value != nil && ObjOf(info, rs.Value) == o {
						if s2, ok := ast.Unparen(rs.X).(*ast.SelectorExpr); ok && s2.Sel.Name == "Items" && ObjOf(info, s2.X) == mParam {
							isItem = true
						}
					}
					return true
				})
				if isItem {
					covered[sel.Sel.Name+":"+strings.TrimPrefix(g.Name, "transfer.")] = true
				}
			}
			return true
		})
		c.Check(covered["Root:validateFilename"], "source/validateManifest/root", vm.Pos(), "the manifest root must be a plain name", "validateManifest does not check the manifest root with validateFilename: the base directory (out + root) and the sidecar fallback directory can leave the output directory")
		c.Check(covered["RelPath:validateRelPath"], "source/validateManifest/item-path", vm.Pos(), "every item's relative path (files and directories) passes validateRelPath", "validateManifest does not check every item's RelPath: directory items are created with MkdirAll straight from the manifest")
		c.Check(covered["ID:validateFilename"], "source/validateManifest/item-id", vm.Pos(), "every item id must be a plain name", "validateManifest does not check item ids with validateFilename: the id names the resume metadata file (out/.thruflux_resumedata/<id>.sbxmap) and can carry path separators")
		// exemptions of the root check: only "" and "/"
		okEx := true
		ast.Inspect(vm.Body, func(n ast.Node) bool {
			is, ok := n.(*ast.IfStmt)
			if !ok || is.Init != nil {
				return true
			}
			mentionsRoot := strings.Contains(types.ExprString(is.Cond), ".Root")
			if !mentionsRoot {
				return true
			}
			for _, a := range Implied(is.Cond, true) {
				be, ok := a.E.(*ast.BinaryExpr)
				if !ok {
					okEx = false
					continue
				}
				s, isConst := constString(info, be.Y)
				if !isConst || (s != "" && s != "/") || be.Op.String() != "!=" {
					okEx = false
				}
			}
			return true
		})
		c.Check(okEx, "source/validateManifest/root-exemptions", vm.Pos(), "only the empty root and \"/\" are exempt from the plain-name test", "validateManifest exempts manifest roots other than \"\" and \"/\" from validation")
	}
	// ---- T1: decoders return only validated records
	if rh := p.Func("transfer.readControlHeader"); rh != nil {
		n := 0
		for _, b := range rh.CFG().Blocks {
			ret, ok := IsReturnExit(b)
			if !ok || len(ret.Results) != 2 || types.ExprString(ret.Results[1]) != "nil" {
				continue
			}
			n++
			ref := NodeRef{b, len(b.Nodes) - 1}
			c.Check(t.valid.Passed(rh, ref, "vm:"+types.ExprString(ret.Results[0])), fmt.Sprintf("source/readControlHeader/return#%d", n), ret.Pos(), "the decoded manifest is returned only past validateManifest",
				"readControlHeader returns the peer's manifest without validateManifest having succeeded for it: every receiver trusts root, directory paths and item ids by provenance from this function")
		}
	} else {
		c.MissingAnchor("transfer.readControlHeader")
	}
	for _, name := range []string{"transfer.readRelPath"} {
		f := p.Func(name)
		if f == nil {
			c.MissingAnchor(name)
			continue
		}
		n := 0
		for _, b := range f.CFG().Blocks {
			ret, ok := IsReturnExit(b)
			if !ok || len(ret.Results) != 2 || types.ExprString(ret.Results[1]) != "nil" {
				continue
			}
			n++
			c.Check(t.valid.Passed(f, NodeRef{b, len(b.Nodes) - 1}, "v:"+types.ExprString(ret.Results[0])), fmt.Sprintf("source/%s/return#%d", name, n), ret.Pos(), "the path read off the stream is returned only past validateRelPath", "readRelPath returns an unvalidated path")
		}
	}
	// ---- T3: sinks
	for _, pkg := range []string{"internal/transfer", "internal/app"} {
		for _, f := range p.FuncsIn(pkg) {
			if senderSide(f) {
				continue
			}
			info := f.Info()
			n := 0
			f.CFG().Calls(func(r NodeRef, call *ast.CallExpr) {
				fn := Callee(info, call)
				if fn == nil || fn.Pkg() == nil || fn.Pkg().Path() != "os" {
					return
				}
				if sig := fn.Type().(*types.Signature); sig.Recv() != nil {
					return
				}
				var args []ast.Expr
				kind := "mutate"
				if idx, ok := fsMutators[fn.Name()]; ok {
					args = append(args, call.Args[idx])
					if fn.Name() == "Rename" || fn.Name() == "Symlink" || fn.Name() == "Link" {
						args = []ast.Expr{call.Args[0], call.Args[1]}
					}
				} else if idx, ok := readSinks[fn.Name()]; ok {
					args = append(args, call.Args[idx])
					kind = "read"
				} else {
					return
				}
				for ai, a := range args {
					n++
					key := fmt.Sprintf("sink/%s/%s#%d/os.%s.arg%d", kind, f.Name, n, fn.Name(), ai)
					c.Stat("fs_sinks", 1)
					tt := newTaintCtx(p) // fresh reasons per sink; memo not shared so that reports are specific
					tt.valid = t.valid
					if tt.SafeStr(f, r, a, 40) {
						c.OK(key, call.Pos(), "path "+types.ExprString(a)+" is built only from constants, user configuration and validated peer strings")
					} else {
						c.Bad(key, call.Pos(), "path "+types.ExprString(a)+" of os."+fn.Name()+" can carry an unvalidated peer-chosen string: the receiver touches entries outside its output directory", "slice: "+tt.Why(f, r, a))
					}
				}
			})
		}
	}
}
