package tf

import (
	"fmt"
	"go/ast"
	"go/token"
	"go/types"
	"strings"

	"golang.org/x/tools/go/cfg"
)

func init() {
	Register(&Rule{
		Name:  "R-TAINT",
		Props: []string{"C07"},
		Min:   30,
		Doc: "fs-sink-confined: for every os.* call that creates, modifies, deletes or reads a filesystem entry in the receive-side functions of internal/transfer and internal/app, the path argument is sliced backwards " +
			"(locals to all their definitions, parameters to all call sites, struct fields to all stores, closure variables to the enclosing function, through filepath.Join/FromSlash/Dir/Clean, concatenation, Sprintf, Trim*) " +
			"and every leaf is a constant, a user-chosen configuration value, or a peer-chosen string that was validated: by a dominating validateRelPath/validateFilename on that very expression, or by provenance from a decoder that " +
			"returns only validated records (readControlHeader -> validateManifest, which must cover root, every item path and every item id). Unknown leaf kinds are failures",
		Run: runTaint,
	})
}

func senderSide(f *FuncInfo) bool {
	root := f.Root().Name
	for _, pre := range []string{"transfer.Send", "transfer.send", "transfer.(*sendFileState)", "app.(*SnapshotSender)", "app.RunSnapshotSender", "app.buildPathResolver", "sender.", "manifest."} {
		if strings.HasPrefix(root, pre) {
			return true
		}
	}
	return false
}

var readSinks = map[string]int{"ReadFile": 0, "ReadDir": 0, "Open": 0, "Stat": 0, "Lstat": 0}

func runTaint(c *Ctx) {
	p := c.P
	t := newTaintCtx(p)
	// ---- T2: validateManifest covers root, every item path, every item id
	vm := p.Func("transfer.validateManifest")
	if vm == nil {
		c.Bad("source/validateManifest", p.Pkg("internal/transfer").Syntax[0].Pos(), "there is no validateManifest: the manifest's root, directory paths and item ids (which name the resume metadata file) reach filesystem calls unvalidated")
	} else {
		info := vm.Info()
		var mParam types.Object
		if len(vm.Type.Params.List) > 0 && len(vm.Type.Params.List[0].Names) > 0 {
			mParam = info.Defs[vm.Type.Params.List[0].Names[0]]
		}
		// (root) every success return passes validateFilename(m.Root), or the root is "" / "/"
		rootExpr := func(g *FuncInfo, e ast.Expr) bool {
			sel, ok := ast.Unparen(e).(*ast.SelectorExpr)
			return ok && sel.Sel.Name == "Root" && ObjOf(g.Info(), sel.X) == mParam
		}
		isConstStr := func(g *FuncInfo, e ast.Expr, want ...string) bool {
			sv, ok := constString(g.Info(), e)
			if !ok {
				return false
			}
			for _, w := range want {
				if sv == w {
					return true
				}
			}
			return false
		}
		var itemObj types.Object
		var itemLoop *ast.RangeStmt
		ast.Inspect(vm.Body, func(n ast.Node) bool {
			if rs, ok := n.(*ast.RangeStmt); ok && rs.Value != nil {
				if s2, ok := ast.Unparen(rs.X).(*ast.SelectorExpr); ok && s2.Sel.Name == "Items" && ObjOf(info, s2.X) == mParam {
					itemObj, itemLoop = ObjOf(info, rs.Value), rs
				}
			}
			return true
		})
		itemField := func(g *FuncInfo, e ast.Expr, name string) bool {
			sel, ok := ast.Unparen(e).(*ast.SelectorExpr)
			return ok && sel.Sel.Name == name && itemObj != nil && ObjOf(g.Info(), sel.X) == itemObj
		}
		vspec := &PassSpec{Vias: []Via{
			{Call: func(g *FuncInfo, call *ast.CallExpr) (string, bool) {
				callee := p.CalleeInfo(g.Info(), call)
				if callee == nil || len(call.Args) != 1 {
					return "", false
				}
				switch {
				case callee.Name == "transfer.validateFilename" && rootExpr(g, call.Args[0]):
					return "root-ok", true
				case callee.Name == "transfer.validateRelPath" && itemField(g, call.Args[0], "RelPath"):
					return "path-ok", true
				case callee.Name == "transfer.validateFilename" && itemField(g, call.Args[0], "ID"):
					return "id-ok", true
				}
				return "", false
			}},
			{Cond: func(g *FuncInfo, e ast.Expr) (string, bool, bool) {
				be, ok := ast.Unparen(e).(*ast.BinaryExpr)
				if !ok {
					return "", false, false
				}
				// whole `m.Root != "" && m.Root != "/"`: false means the root is one of the two harmless values
				if be.Op == token.LAND {
					l, okl := ast.Unparen(be.X).(*ast.BinaryExpr)
					r, okr := ast.Unparen(be.Y).(*ast.BinaryExpr)
					if okl && okr && l.Op == token.NEQ && r.Op == token.NEQ && rootExpr(g, l.X) && rootExpr(g, r.X) && isConstStr(g, l.Y, "", "/") && isConstStr(g, r.Y, "", "/") {
						return "root-ok", false, true
					}
					return "", false, false
				}
				if be.Op != token.EQL && be.Op != token.NEQ {
					return "", false, false
				}
				switch {
				case rootExpr(g, be.X) && isConstStr(g, be.Y, "", "/"):
					return "root-ok", be.Op == token.EQL, true
				case itemField(g, be.X, "ID") && isConstStr(g, be.Y, ""):
					return "id-ok", be.Op == token.EQL, true // no id: nothing is named after it
				}
				return "", false, false
			}},
		}}
		vcfg := vm.CFG()
		facts := vspec.Facts(vm)
		has := func(fs FactSet, id string) bool { return fs != nil && fs["pass:"+id] }
		nret := 0
		rootOK := true
		for _, b := range vcfg.Blocks {
			ret, ok := IsReturnExit(b)
			if !ok || len(ret.Results) != 1 || types.ExprString(ret.Results[0]) != "nil" {
				continue
			}
			nret++
			if !vspec.Passed(vm, NodeRef{b, len(b.Nodes) - 1}, "root-ok") {
				rootOK = false
			}
		}
		c.Check(rootOK && nret > 0, "source/validateManifest/root", vm.Pos(), "every success return passes validateFilename(m.Root) unless the root is \"\" or \"/\"",
			"validateManifest can return nil without validateFilename having accepted the manifest root (only \"\" and \"/\" are exempt): the base directory (out + root) and the sidecar fallback directory can leave the output directory")
		// (items) every iteration of the loop over m.Items ends with the path and the id validated
		pathOK, idOK, iters := itemLoop != nil, itemLoop != nil, 0
		if itemLoop != nil && facts != nil {
			var head *cfg.Block
			for _, b := range vcfg.Blocks {
				if b.Stmt == ast.Node(itemLoop) && b.Kind == cfg.KindRangeLoop {
					head = b
				}
			}
			if head == nil {
				pathOK, idOK = false, false
			} else {
				for _, pb := range vcfg.Preds(head) {
					if !pb.Live || !vcfg.BlockDominates(head, pb) {
						continue
					}
					iters++
					out := facts.AtEnd(pb)
					if !has(out, "path-ok") {
						pathOK = false
					}
					if !has(out, "id-ok") {
						idOK = false
					}
				}
				if iters == 0 {
					pathOK, idOK = false, false
				}
			}
		}
		c.Check(pathOK, "source/validateManifest/item-path", vm.Pos(), "every iteration over m.Items ends with validateRelPath(item.RelPath) passed (files and directories)",
			"validateManifest does not check every item's RelPath on every path through its loop: directory items are created with MkdirAll straight from the manifest")
		// the id matters for this property only while it can become part of a path (until F35 it named the resume metadata file;
		// since then sidecars are named by a hash of the relative path): asked of the code on every run
		idSinks := itemIDPathSinks(p)
		if len(idSinks) == 0 {
			idOK = true
		}
		c.Check(idOK, "source/validateManifest/item-id", vm.Pos(), fmt.Sprintf("every iteration over m.Items ends with validateFilename(item.ID) passed, or the id empty - or no path is built from an item id (%d path-building calls take one)", len(idSinks)),
			"validateManifest lets an item through its loop without validateFilename(item.ID) having passed (only an empty id is exempt - not directories, not empty files: a sidecar path is built and removed for every file item): the id names the resume metadata file (out/.thruflux_resumedata/<id>.sbxmap) and can carry path separators")
		c.Stat("validateManifest_loop_exits", iters)
	}
	// ---- T1: decoders return only validated records
	if rh := p.Func("transfer.readControlHeader"); rh != nil {
		n := 0
		for _, b := range rh.CFG().Blocks {
			ret, ok := IsReturnExit(b)
			if !ok || len(ret.Results) != 2 || types.ExprString(ret.Results[1]) != "nil" {
				continue
			}
			n++
			ref := NodeRef{b, len(b.Nodes) - 1}
			c.Check(t.valid.Passed(rh, ref, "vm:"+types.ExprString(ret.Results[0])), fmt.Sprintf("source/readControlHeader/return#%d", n), ret.Pos(), "the decoded manifest is returned only past validateManifest",
				"readControlHeader returns the peer's manifest without validateManifest having succeeded for it: every receiver trusts root, directory paths and item ids by provenance from this function")
		}
	} else {
		c.MissingAnchor("transfer.readControlHeader")
	}
	for _, name := range []string{"transfer.readRelPath"} {
		f := p.Func(name)
		if f == nil {
			c.MissingAnchor(name)
			continue
		}
		n := 0
		for _, b := range f.CFG().Blocks {
			ret, ok := IsReturnExit(b)
			if !ok || len(ret.Results) != 2 || types.ExprString(ret.Results[1]) != "nil" {
				continue
			}
			n++
			c.Check(t.valid.Passed(f, NodeRef{b, len(b.Nodes) - 1}, "v:"+types.ExprString(ret.Results[0])), fmt.Sprintf("source/%s/return#%d", name, n), ret.Pos(), "the path read off the stream is returned only past validateRelPath", "readRelPath returns an unvalidated path")
		}
	}
	// ---- T3: sinks
	for _, pkg := range []string{"internal/transfer", "internal/app"} {
		for _, f := range p.FuncsIn(pkg) {
			if senderSide(f) {
				continue
			}
			info := f.Info()
			n := 0
			f.CFG().Calls(func(r NodeRef, call *ast.CallExpr) {
				fn := Callee(info, call)
				if fn == nil || fn.Pkg() == nil || fn.Pkg().Path() != "os" {
					return
				}
				if sig := fn.Type().(*types.Signature); sig.Recv() != nil {
					return
				}
				var args []ast.Expr
				kind := "mutate"
				if idx, ok := fsMutators[fn.Name()]; ok {
					args = append(args, call.Args[idx])
					if fn.Name() == "Rename" || fn.Name() == "Symlink" || fn.Name() == "Link" {
						args = []ast.Expr{call.Args[0], call.Args[1]}
					}
				} else if idx, ok := readSinks[fn.Name()]; ok {
					args = append(args, call.Args[idx])
					kind = "read"
				} else {
					return
				}
				for ai, a := range args {
					n++
					key := fmt.Sprintf("sink/%s/%s#%d/os.%s.arg%d", kind, f.Name, n, fn.Name(), ai)
					c.Stat("fs_sinks", 1)
					tt := newTaintCtx(p) // fresh reasons per sink; memo not shared so that reports are specific
					tt.valid = t.valid
					if tt.SafeStr(f, r, a, 40) {
						c.OK(key, call.Pos(), "path "+types.ExprString(a)+" is built only from constants, user configuration and validated peer strings")
					} else {
						c.Bad(key, call.Pos(), "path "+types.ExprString(a)+" of os."+fn.Name()+" can carry an unvalidated peer-chosen string: the receiver touches entries outside its output directory", "slice: "+tt.Why(f, r, a))
					}
				}
			})
		}
	}
}

// itemIDPathSinks lists the calls in internal/transfer and internal/app that build or use a file-system path from an item
// identifier chosen by the peer (FileItem.ID, FileBegin/FileResumeInfo/ResumeRequest.FileID), directly or through a local.
func itemIDPathSinks(p *Program) []string {
	var out []string
	idField := func(info *types.Info, e ast.Expr) bool {
		hit := false
		ast.Inspect(e, func(m ast.Node) bool {
			sel, ok := m.(*ast.SelectorExpr)
			if !ok || (sel.Sel.Name != "ID" && sel.Sel.Name != "FileID") {
				return true
			}
			if fv, ok := info.Uses[sel.Sel].(*types.Var); ok && fv.IsField() {
				if t := info.TypeOf(sel.X); t != nil {
					ts := t.String()
					if strings.HasSuffix(ts, "manifest.FileItem") || strings.HasSuffix(ts, "transfer.FileBegin") || strings.HasSuffix(ts, "transfer.FileResumeInfo") || strings.HasSuffix(ts, "transfer.ResumeRequest") {
						hit = true
					}
				}
			}
			return true
		})
		return hit
	}
	for _, rel := range []string{"internal/transfer", "internal/app"} {
		for _, f := range p.FuncsIn(rel) {
			if f.Body == nil || strings.HasSuffix(p.Fset.Position(f.Pos()).Filename, "_test.go") {
				continue
			}
			info := f.Info()
			InspectNoLits(f.Body, func(m ast.Node) bool {
				call, ok := m.(*ast.CallExpr)
				if !ok {
					return true
				}
				sink := false
				if fn := Callee(info, call); fn != nil && fn.Pkg() != nil {
					switch fn.Pkg().Path() {
					case "path/filepath", "path":
						sink = fn.Name() == "Join"
					case "os":
						sink = true
					}
				}
				if g := p.CalleeInfo(info, call); g != nil && g.Name == "transfer.SidecarPath" {
					sink = true
				}
				if !sink {
					return true
				}
				for _, a := range call.Args {
					for _, d := range resolveExprs(f, a, 2) {
						if idField(info, d) {
							out = append(out, p.Pos(call.Pos()))
							return true
						}
					}
				}
				return true
			})
		}
	}
	return out
}
