package tf

import (
	"fmt"
	"os"
)

// DumpCFG prints the CFG of a named function (debug aid).
func DumpCFG(p *Program, name string) {
	f := p.Func(name)
	if f == nil {
		fmt.Println("no such function; candidates:")
		for _, g := range p.Funcs() {
			fmt.Println("  ", g.Name)
		}
		os.Exit(2)
	}
	fmt.Println(f.CFG().G.Format(p.Fset))
}
