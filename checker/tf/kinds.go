package tf

import (
	"go/ast"
	"go/constant"
	"go/token"
	"go/types"
)

// Kind inference: a tiny flow-insensitive abstract interpretation that labels integer
// variables, fields and parameters of one package with the *role* of the quantity they
// carry (file size, chunk size, chunk count, byte offset, remaining bytes), starting
// from seed objects (wire/config fields) and propagating through assignments, composite
// literals, and argument→parameter bindings of statically resolved calls.
//
// kinds: "size" "chunk" "count" "offset" "rem" ; "const" (literal), "" unknown, "mixed".

type KindEnv struct {
	p     *Program
	kind  map[types.Object]string
	funcs map[*types.Func]string // result kind of seeded functions
}

type kflow struct {
	dst  types.Object
	src  ast.Expr
	info *types.Info
}

func (p *Program) InferKinds(pkgs []string, seeds map[types.Object]string, funcSeeds map[*types.Func]string) *KindEnv {
	k := &KindEnv{p: p, kind: map[types.Object]string{}, funcs: funcSeeds}
	for o, s := range seeds {
		k.kind[o] = s
	}
	var flows []kflow
	for _, rel := range pkgs {
		pk := p.Pkg(rel)
		if pk == nil {
			continue
		}
		info := pk.TypesInfo
		add := func(lhs ast.Expr, rhs ast.Expr) {
			var o types.Object
			switch l := ast.Unparen(lhs).(type) {
			case *ast.Ident:
				o = ObjOf(info, l)
			case *ast.SelectorExpr:
				o = info.Uses[l.Sel]
			}
			if o != nil {
				flows = append(flows, kflow{o, rhs, info})
			}
		}
		for _, file := range pk.Syntax {
			ast.Inspect(file, func(n ast.Node) bool {
				switch s := n.(type) {
				case *ast.AssignStmt:
					if len(s.Rhs) == 1 && len(s.Lhs) > 1 && (s.Tok == token.ASSIGN || s.Tok == token.DEFINE) {
						add(s.Lhs[0], s.Rhs[0]) // v, err := f(...): the value result carries the role
					}
					if len(s.Lhs) == len(s.Rhs) {
						for i := range s.Lhs {
							if s.Tok == token.ASSIGN || s.Tok == token.DEFINE {
								add(s.Lhs[i], s.Rhs[i])
							} else {
								// x op= y  ==> x = x op y
								op := map[token.Token]token.Token{token.ADD_ASSIGN: token.ADD, token.SUB_ASSIGN: token.SUB, token.MUL_ASSIGN: token.MUL, token.QUO_ASSIGN: token.QUO}[s.Tok]
								if op != 0 {
									add(s.Lhs[i], &ast.BinaryExpr{X: s.Lhs[i], Op: op, Y: s.Rhs[i]})
								}
							}
						}
					}
				case *ast.ValueSpec:
					if len(s.Names) == len(s.Values) {
						for i := range s.Names {
							add(s.Names[i], s.Values[i])
						}
					}
				case *ast.CompositeLit:
					for _, el := range s.Elts {
						if kv, ok := el.(*ast.KeyValueExpr); ok {
							if id, ok := kv.Key.(*ast.Ident); ok {
								if fo, ok := info.Uses[id].(*types.Var); ok && fo.IsField() {
									flows = append(flows, kflow{fo, kv.Value, info})
								}
							}
						}
					}
				case *ast.CallExpr:
					fi := p.CalleeInfo(info, s)
					if fi == nil {
						return true
					}
					i := 0
					for _, fld := range fi.Type.Params.List {
						for _, nm := range fld.Names {
							if i < len(s.Args) {
								if po := fi.Info().Defs[nm]; po != nil {
									flows = append(flows, kflow{po, s.Args[i], info})
								}
							}
							i++
						}
					}
				}
				return true
			})
		}
	}
	for iter := 0; iter < 12; iter++ {
		changed := false
		for _, f := range flows {
			if _, seeded := seeds[f.dst]; seeded {
				continue
			}
			sk := k.Of(f.info, f.src)
			if sk == "" || sk == "const" {
				continue
			}
			cur := k.kind[f.dst]
			nw := joinKind(cur, sk)
			if nw != cur {
				k.kind[f.dst] = nw
				changed = true
			}
		}
		// backward: an unlabelled parameter/local that is handed to a chunk-size or file-size sink takes that role
		for _, f := range flows {
			dk := k.kind[f.dst]
			if dk != "chunk" && dk != "size" {
				continue
			}
			id, ok := StripConv(f.info, f.src).(*ast.Ident)
			if !ok {
				continue
			}
			so, ok := ObjOf(f.info, id).(*types.Var)
			if !ok || so.IsField() {
				continue
			}
			if _, seeded := seeds[so]; seeded {
				continue
			}
			if k.kind[so] == "" {
				k.kind[so] = dk
				changed = true
			}
		}
		if !changed {
			break
		}
	}
	return k
}

// joinKind: a length variable may start as the chunk size and be lowered to the remainder (min idiom).
func joinKind(cur, sk string) string {
	switch {
	case cur == "" || cur == sk:
		return sk
	case (cur == "chunk" || cur == "rem" || cur == "len") && (sk == "chunk" || sk == "rem" || sk == "len"):
		return "len"
	case cur == "offset" && sk == "size", cur == "size" && sk == "offset":
		return "offset" // a byte position clamped to the end of the file
	}
	return "mixed"
}

func isInt64ish(t types.Type) bool {
	b, ok := t.Underlying().(*types.Basic)
	return ok && (b.Kind() == types.Int64 || b.Kind() == types.Uint64)
}

// StripConv removes parentheses and type conversions.
func StripConv(info *types.Info, e ast.Expr) ast.Expr {
	for {
		e = ast.Unparen(e)
		c, ok := e.(*ast.CallExpr)
		if !ok || len(c.Args) != 1 {
			return e
		}
		if tv, ok := info.Types[c.Fun]; !ok || !tv.IsType() {
			return e
		}
		e = c.Args[0]
	}
}

// Of returns the kind of an expression.
func (k *KindEnv) Of(info *types.Info, e ast.Expr) string {
	e = ast.Unparen(e)
	if tv, ok := info.Types[e]; ok && tv.Value != nil && tv.Value.Kind() == constant.Int {
		return "const"
	}
	switch v := e.(type) {
	case *ast.Ident:
		if o := ObjOf(info, v); o != nil {
			return k.kind[o]
		}
	case *ast.SelectorExpr:
		if o := info.Uses[v.Sel]; o != nil {
			return k.kind[o]
		}
	case *ast.StarExpr:
		return k.Of(info, v.X)
	case *ast.CallExpr:
		if tv, ok := info.Types[v.Fun]; ok && tv.IsType() && len(v.Args) == 1 {
			return k.Of(info, v.Args[0])
		}
		if fn := Callee(info, v); fn != nil {
			if r, ok := k.funcs[fn]; ok {
				return r
			}
		}
	case *ast.BinaryExpr:
		l, r := k.Of(info, v.X), k.Of(info, v.Y)
		// arithmetic on a number read off the stream is still the peer's number (n/2, n+8, n*4); a remainder or a mask by a
		// constant is bounded by that constant
		if l == "wire" || r == "wire" {
			switch v.Op {
			case token.ADD, token.SUB, token.MUL, token.QUO, token.SHL:
				return "wire"
			case token.SHR, token.REM, token.AND:
				if r == "const" {
					return ""
				}
				return "wire"
			}
		}
		switch v.Op {
		case token.MUL:
			if (l == "chunk") != (r == "chunk") {
				return "offset"
			}
		case token.ADD:
			if l == "offset" || r == "offset" {
				return "offset"
			}
		case token.SUB:
			if l == "size" && r == "offset" {
				return "rem"
			}
			if l == "offset" && r == "const" {
				return "offset"
			}
		case token.QUO:
			if _, _, _, ok := ceilDivParts(info, v); ok {
				return "count"
			}
		}
	}
	return ""
}

// ceilDivParts matches (S + C - 1) / D and returns the three operand expressions.
func ceilDivParts(info *types.Info, q *ast.BinaryExpr) (s, c, d ast.Expr, ok bool) {
	if q.Op != token.QUO {
		return
	}
	sub, isB := ast.Unparen(q.X).(*ast.BinaryExpr)
	if !isB || sub.Op != token.SUB {
		return
	}
	if tv, has := info.Types[sub.Y]; !has || tv.Value == nil || tv.Value.ExactString() != "1" {
		return
	}
	add, isA := ast.Unparen(sub.X).(*ast.BinaryExpr)
	if !isA || add.Op != token.ADD {
		return
	}
	return add.X, add.Y, q.Y, true
}
