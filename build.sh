#!/bin/sh
# builds /verif/bin/tfcheck offline with the pre-installed go1.26.8 toolchain
set -e
cd "$(dirname "$0")/checker"
unset GOWORK
export GOFLAGS=-mod=mod GOPROXY=off GOSUMDB=off GOTOOLCHAIN=local PATH=/opt/veriftools/go1.26.8/bin:$PATH
go build -o ../bin/tfcheck ./cmd/tfcheck
