# Each mutant: id, props (checks that must fire / stay silent), edits [(file, old, new)], expect
# expect: 'SILENT' for benign edits, otherwise '&&'-separated substrings that must appear in the report.
CP = 'internal/transfer/controlproto.go'
MUTANTS = [
 dict(id='C18-swap-fields-writer', props=['C18'], expect='R-CODEC/record/controlTypeFileResumeInfo',
      edits=[(CP, 'if err := writeUint64Control(s, msg.StreamID, "stream id"); err != nil {\n\t\treturn fmt.Errorf("failed to write stream id: %w", err)\n\t}\n\tif err := writeUint32Control(s, msg.TotalChunks, "total chunks"); err != nil {\n\t\treturn fmt.Errorf("failed to write total chunks: %w", err)\n\t}\n\tbitmapLen',
              'if err := writeUint32Control(s, msg.TotalChunks, "total chunks"); err != nil {\n\t\treturn fmt.Errorf("failed to write total chunks: %w", err)\n\t}\n\tif err := writeUint64Control(s, msg.StreamID, "stream id"); err != nil {\n\t\treturn fmt.Errorf("failed to write stream id: %w", err)\n\t}\n\tbitmapLen')]),
 dict(id='C18-reader-width', props=['C18'], expect='R-CODEC/record/controlTypeFileDone',
      edits=[(CP, 'errLen, err := readUint16Control(s, "err length")', 'errLen, err := readUint32Control(s, "err length")')]),
 dict(id='C18-cond-mismatch', props=['C18'], expect='R-CODEC/record/controlTypeFileResumeInfo',
      edits=[(CP, 'if bitmapLen > 0 {\n\t\tif err := writeFullControl(s, msg.Bitmap', 'if bitmapLen > 1 {\n\t\tif err := writeFullControl(s, msg.Bitmap')]),
 dict(id='C18-default-removed', props=['C18'], expect='R-CODEC/type-table/default',
      edits=[(CP, 'default:\n\t\treturn msgType[0], nil, ErrInvalidRecordType', 'default:\n\t\treturn msgType[0], nil, nil')]),
 dict(id='C18-wrong-dispatch', props=['C18'], expect='R-CODEC/record/',
      edits=[(CP, 'case controlTypeFileEnd:\n\t\tmsg, err := readFileEnd(s)', 'case controlTypeFileEnd:\n\t\tmsg, err := readCredit(s)')]),
 dict(id='C18-value-tweak', props=['C18'], expect='R-CODEC/record/controlTypeFileEnd',
      edits=[(CP, 'writeUint32Control(s, msg.CRC32, "crc32")', 'writeUint32Control(s, msg.CRC32+1, "crc32")')]),
 dict(id='C18-little-endian', props=['C18'], expect='R-CODEC/',
      edits=[(CP, 'if err := binary.Write(s, binary.BigEndian, msg.StripeStart); err != nil {', 'if err := binary.Write(s, binary.LittleEndian, msg.StripeStart); err != nil {')]),
 dict(id='C18-wrong-len-var', props=['C18'], expect='R-CODEC/record/controlTypeResumeRequest',
      edits=[(CP, 'fileIDLen := uint16(len(fileIDBytes))\n\tif err := writeUint16Control(s, fileIDLen, "file id length"); err != nil {\n\t\treturn fmt.Errorf("failed to write file id length: %w", err)\n\t}\n\tif err := writeFullControl(s, fileIDBytes, "file id"); err != nil {\n\t\treturn fmt.Errorf("failed to write file id: %w", err)\n\t}\n\tif err := writeUint64Control(s, msg.StreamID, "stream id"); err != nil {\n\t\treturn fmt.Errorf("failed to write stream id: %w", err)\n\t}\n\treturn nil',
              'fileIDLen := uint16(len(fileIDBytes) + 1)\n\tif err := writeUint16Control(s, fileIDLen, "file id length"); err != nil {\n\t\treturn fmt.Errorf("failed to write file id length: %w", err)\n\t}\n\tif err := writeFullControl(s, fileIDBytes, "file id"); err != nil {\n\t\treturn fmt.Errorf("failed to write file id: %w", err)\n\t}\n\tif err := writeUint64Control(s, msg.StreamID, "stream id"); err != nil {\n\t\treturn fmt.Errorf("failed to write stream id: %w", err)\n\t}\n\treturn nil')]),
 dict(id='C18-benign-bool-decode', props=['C18'], expect='SILENT',
      edits=[(CP, 'msg.OK = okBuf[0] == 1', 'msg.OK = okBuf[0] != 0')]),
 dict(id='C18-benign-rename', props=['C18'], expect='SILENT',
      edits=[(CP, 'crc32Value, err := readUint32Control(s, "crc32")\n\tif err != nil {\n\t\treturn msg, fmt.Errorf("failed to read crc32: %w", err)\n\t}\n\tmsg.CRC32 = crc32Value', 'sum, err := readUint32Control(s, "crc32")\n\tif err != nil {\n\t\treturn msg, fmt.Errorf("failed to read crc32: %w", err)\n\t}\n\tmsg.CRC32 = sum')]),
]
