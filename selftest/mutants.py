# Each mutant: id, props (checks that must fire / stay silent), edits [(file, old, new)], expect
# expect: 'SILENT' for benign edits, otherwise '&&'-separated substrings that must appear in the report.
CP = 'internal/transfer/controlproto.go'
MUTANTS = [
 dict(id='C18-swap-fields-writer', props=['C18'], expect='R-CODEC/record/controlTypeFileResumeInfo',
      edits=[(CP, 'if err := writeUint64Control(s, msg.StreamID, "stream id"); err != nil {\n\t\treturn fmt.Errorf("failed to write stream id: %w", err)\n\t}\n\tif err := writeUint32Control(s, msg.TotalChunks, "total chunks"); err != nil {\n\t\treturn fmt.Errorf("failed to write total chunks: %w", err)\n\t}\n\tbitmapLen',
              'if err := writeUint32Control(s, msg.TotalChunks, "total chunks"); err != nil {\n\t\treturn fmt.Errorf("failed to write total chunks: %w", err)\n\t}\n\tif err := writeUint64Control(s, msg.StreamID, "stream id"); err != nil {\n\t\treturn fmt.Errorf("failed to write stream id: %w", err)\n\t}\n\tbitmapLen')]),
 dict(id='C18-reader-width', props=['C18'], expect='R-CODEC/record/controlTypeFileDone',
      edits=[(CP, 'errLen, err := readUint16Control(s, "err length")', 'errLen, err := readUint32Control(s, "err length")')]),
 dict(id='C18-cond-mismatch', props=['C18'], expect='R-CODEC/record/controlTypeFileResumeInfo',
      edits=[(CP, 'if bitmapLen > 0 {\n\t\tif err := writeFullControl(s, msg.Bitmap', 'if bitmapLen > 1 {\n\t\tif err := writeFullControl(s, msg.Bitmap')]),
 dict(id='C18-default-removed', props=['C18'], expect='R-CODEC/type-table/default',
      edits=[(CP, 'default:\n\t\treturn msgType[0], nil, ErrInvalidRecordType', 'default:\n\t\treturn msgType[0], nil, nil')]),
 dict(id='C18-wrong-dispatch', props=['C18'], expect='R-CODEC/record/',
      edits=[(CP, 'case controlTypeFileEnd:\n\t\tmsg, err := readFileEnd(s)', 'case controlTypeFileEnd:\n\t\tmsg, err := readCredit(s)')]),
 dict(id='C18-value-tweak', props=['C18'], expect='R-CODEC/record/controlTypeFileEnd',
      edits=[(CP, 'writeUint32Control(s, msg.CRC32, "crc32")', 'writeUint32Control(s, msg.CRC32+1, "crc32")')]),
 dict(id='C18-little-endian', props=['C18'], expect='R-CODEC/',
      edits=[(CP, 'if err := binary.Write(s, binary.BigEndian, msg.StripeStart); err != nil {', 'if err := binary.Write(s, binary.LittleEndian, msg.StripeStart); err != nil {')]),
 dict(id='C18-wrong-len-var', props=['C18'], expect='R-CODEC/record/controlTypeResumeRequest',
      edits=[(CP, 'fileIDLen := uint16(len(fileIDBytes))\n\tif err := writeUint16Control(s, fileIDLen, "file id length"); err != nil {\n\t\treturn fmt.Errorf("failed to write file id length: %w", err)\n\t}\n\tif err := writeFullControl(s, fileIDBytes, "file id"); err != nil {\n\t\treturn fmt.Errorf("failed to write file id: %w", err)\n\t}\n\tif err := writeUint64Control(s, msg.StreamID, "stream id"); err != nil {\n\t\treturn fmt.Errorf("failed to write stream id: %w", err)\n\t}\n\treturn nil',
              'fileIDLen := uint16(len(fileIDBytes) + 1)\n\tif err := writeUint16Control(s, fileIDLen, "file id length"); err != nil {\n\t\treturn fmt.Errorf("failed to write file id length: %w", err)\n\t}\n\tif err := writeFullControl(s, fileIDBytes, "file id"); err != nil {\n\t\treturn fmt.Errorf("failed to write file id: %w", err)\n\t}\n\tif err := writeUint64Control(s, msg.StreamID, "stream id"); err != nil {\n\t\treturn fmt.Errorf("failed to write stream id: %w", err)\n\t}\n\treturn nil')]),
 dict(id='C18-benign-bool-decode', props=['C18'], expect='SILENT',
      edits=[(CP, 'msg.OK = okBuf[0] == 1', 'msg.OK = okBuf[0] != 0')]),
 dict(id='C18-benign-rename', props=['C18'], expect='SILENT',
      edits=[(CP, 'crc32Value, err := readUint32Control(s, "crc32")\n\tif err != nil {\n\t\treturn msg, fmt.Errorf("failed to read crc32: %w", err)\n\t}\n\tmsg.CRC32 = crc32Value', 'sum, err := readUint32Control(s, "crc32")\n\tif err != nil {\n\t\treturn msg, fmt.Errorf("failed to read crc32: %w", err)\n\t}\n\tmsg.CRC32 = sum')]),
]
MS = 'internal/transfer/multistream.go'
MP = 'internal/transfer/manifestproto.go'
SC = 'internal/transfer/sidecar.go'
MUTANTS += [
 dict(id='C19-offset-by-len', props=['C19'], expect='R-OFFSET/offset/transfer.RecvManifestMultiStream',
      edits=[(MS, 'offset := int64(chunkIndex) * int64(state.chunkSize)\n\t\t\t\tif err := writeAtWithTimeout', 'offset := int64(chunkIndex) * int64(chunkLen)\n\t\t\t\tif err := writeAtWithTimeout')]),
 dict(id='C19-offset-32bit', props=['C19'], expect='R-OFFSET/offset/transfer.SendManifestMultiStream',
      edits=[(MS, 'offset := int64(chunkIndex) * int64(state.chunkSize)\n\t\t\t\tn, err := readAtWithPool', 'offset := int64(chunkIndex * state.chunkSize)\n\t\t\t\tn, err := readAtWithPool')]),
 dict(id='C19-ceil-no-minus-one', props=['C19'], expect='R-GEOM/chunk-count/transfer.RecvManifestMultiStream$handleFileBegin',
      edits=[(MS, 'totalChunks = uint32((int64(begin.FileSize) + int64(begin.ChunkSize) - 1) / int64(begin.ChunkSize))\n\t\t}\n\t\tstate := &recvFileStateMux{', 'totalChunks = uint32((int64(begin.FileSize) + int64(begin.ChunkSize)) / int64(begin.ChunkSize))\n\t\t}\n\t\tstate := &recvFileStateMux{')]),
 dict(id='C19-floor-div', props=['C19'], expect='R-GEOM/chunk-count/transfer.chunkTotal',
      edits=[(MS, 'return uint32((fileSize + int64(chunkSize) - 1) / int64(chunkSize))', 'return uint32(fileSize/int64(chunkSize)) + 1')]),
 dict(id='C19-sidecar-clamp-back', props=['C19'], expect='R-GEOM/count-adjust/transfer.CreateSidecar',
      edits=[(SC, 'totalChunks := uint32((fileSize + int64(chunkSize) - 1) / int64(chunkSize))\n', 'totalChunks := uint32((fileSize + int64(chunkSize) - 1) / int64(chunkSize))\n\tif totalChunks == 0 {\n\t\ttotalChunks = 1\n\t}\n')]),
 dict(id='C19-drop-len-bound', props=['C19'], expect='R-TILE/write-bounds/transfer.RecvManifestMultiStream$5/len<=chunkSize',
      edits=[(MS, 'if state.chunkSize > 0 && chunkLen > state.chunkSize {', 'if state.chunkSize > 0 && chunkLen > state.chunkSize*2 {')]),
 dict(id='C19-drop-idx-bound', props=['C19'], expect='R-TILE/write-bounds/transfer.RecvManifestMultiStream$5/idx<totalChunks',
      edits=[(MS, 'if state.totalChunks > 0 && chunkIndex >= state.totalChunks {', 'if state.totalChunks > 0 && chunkIndex > state.totalChunks {')]),
 dict(id='C19-tail-len-unguarded', props=['C19'], expect='R-TILE/narrow-rem/transfer.chunkSizeForIndex',
      edits=[(MS, 'if remaining < int64(chunkSize) {\n\t\treturn uint32(remaining)\n\t}\n\treturn chunkSize', 'if remaining < int64(chunkSize) || idx == 0 {\n\t\treturn uint32(remaining)\n\t}\n\treturn chunkSize')]),
 dict(id='C19-benign-use-helper', props=['C19'], expect='SILENT',
      edits=[(MS, 'totalChunks := uint32(0)\n\t\tif begin.ChunkSize > 0 {\n\t\t\ttotalChunks = uint32((int64(begin.FileSize) + int64(begin.ChunkSize) - 1) / int64(begin.ChunkSize))\n\t\t}\n\t\tstate := &recvFileStateMux{', 'totalChunks := chunkTotal(int64(begin.FileSize), begin.ChunkSize)\n\t\tstate := &recvFileStateMux{')]),
 dict(id='C19-benign-rename-offset', props=['C19'], expect='SILENT',
      edits=[(MS, 'offset := int64(chunkIndex) * int64(state.chunkSize)\n\t\t\t\tif err := writeAtWithTimeout(recvCtx, f, buf[:chunkLen], offset, state.item.RelPath)', 'pos := int64(state.chunkSize) * int64(chunkIndex)\n\t\t\t\tif err := writeAtWithTimeout(recvCtx, f, buf[:chunkLen], pos, state.item.RelPath)')]),
]
SRV = 'cmd/thruserv/main.go'
CH = 'internal/clienthttp/client.go'
WS = 'internal/app/ws.go'
ICE = 'internal/ice/ice.go'
MUTANTS += [
 dict(id='C16-expires-required-again', props=['C16'], expect='R-JSON-KEYS/session-response/key/expires_at',
      edits=[(CH, 'if sessionResp.ExpiresAt != "" {\n\t\tparsed, parseErr', 'if true {\n\t\tparsed, parseErr')]),
 dict(id='C16-rename-key-server', props=['C16'], expect='R-JSON-KEYS/session-response/key/join_code',
      edits=[(SRV, '"join_code":  sess.JoinCode,', '"joinCode":  sess.JoinCode,')]),
 dict(id='C16-query-key-renamed', props=['C16'], expect='R-JSON-KEYS/ws-query/app.buildWebSocketURL',
      edits=[(WS, 'join_code=%s&peer_id=%s&role=%s', 'join_code=%s&peer=%s&role=%s')]),
 dict(id='C16-query-unescaped', props=['C16'], expect='R-JSON-KEYS/ws-query/app.buildWebSocketURL/peer_id',
      edits=[(WS, 'url.QueryEscape(peerID)', 'peerID')]),
 dict(id='C16-turn-prefix-one-side', props=['C16'], expect='R-TURN-SIBLING/turn/prefix-table',
      edits=[(ICE, 'case strings.HasPrefix(raw, "turns:"):\n\t\traw = "turns://" + strings.TrimPrefix(raw, "turns:")\n', '')]),
 dict(id='C16-status-200-only', props=['C16'], expect='R-JSON-KEYS/session-response/status',
      edits=[(CH, 'if resp.StatusCode < 200 || resp.StatusCode >= 300 {', 'if resp.StatusCode != http.StatusOK {')]),
 dict(id='C16-zero-off-dropped', props=['C16', 'C14'], expect='R-ZERO-OFF/zero-off/cmd/thruserv.handleWebSocket/maxReceiversPerSender',
      edits=[(SRV, '\t\tif limits.maxReceiversPerSender > 0 && reqMax > limits.maxReceiversPerSender {\n\t\t\tsendError(w, http.StatusTooManyRequests, "max receivers exceeds server limit")\n\t\t\treturn\n\t\t}\n\t}\n\n\tif limits.connectRatePerSec > 0 {', '\t\tif reqMax > limits.maxReceiversPerSender {\n\t\t\tsendError(w, http.StatusTooManyRequests, "max receivers exceeds server limit")\n\t\t\treturn\n\t\t}\n\t}\n\n\tif limits.connectRatePerSec > 0 {')]),
 dict(id='C16-idle-timeout-unguarded', props=['C16'], expect='R-ZERO-OFF/zero-off/cmd/thruserv.handleWebSocket/wsIdleTimeout',
      edits=[(SRV, '\t\tif limits.wsIdleTimeout > 0 {\n\t\t\tconn.SetReadDeadline(time.Now().Add(limits.wsIdleTimeout))\n\t\t}\n\n\t\t// Every frame counts', '\t\tif limits.wsIdleTimeout >= 0 {\n\t\t\tconn.SetReadDeadline(time.Now().Add(limits.wsIdleTimeout))\n\t\t}\n\n\t\t// Every frame counts')]),
 dict(id='C16-ttl-unguarded', props=['C16', 'C14'], expect='R-ZERO-OFF/zero-off/session-ttl/',
      edits=[('internal/session/session.go', 'if s.ttl > 0 {\n\t\texpiresAt = now.Add(s.ttl)\n\t}', 'if s.ttl >= 0 {\n\t\texpiresAt = now.Add(s.ttl)\n\t}')]),
 dict(id='C16-flag-undocumented', props=['C16'], expect='R-FLAGS-DOC/flags/registered-are-documented',
      edits=[(SRV, '\tfmt.Fprintln(termio.Stderr(), "  --max-ws-connections N       max concurrent websocket connections (default 2000)")\n', '')]),
 dict(id='C16-turn-creds-swapped', props=['C16'], expect='R-TURN-SIBLING/turn/credentials',
      edits=[(SRV, 'u.User = url.UserPassword(username, password)', 'u.User = url.UserPassword(password, username)')]),
 dict(id='C16-benign-always-emit', props=['C16'], expect='SILENT',
      edits=[(SRV, '\t\tif !sess.ExpiresAt.IsZero() {\n\t\t\tresponse["expires_at"] = sess.ExpiresAt.Format(time.RFC3339)\n\t\t}\n', '\t\tresponse["expires_at"] = sess.ExpiresAt.Format(time.RFC3339)\n')]),
]
MAN = 'pkg/manifest/manifest.go'
SS = 'internal/app/snapshot_sender.go'
MUTANTS += [
 dict(id='C13-kind-test-removed', props=['C13'], expect='R-MANIFEST-ITEMS/kind/manifest.Scan$2#1',
      edits=[(MAN, '\t\tif !d.IsDir() && !d.Type().IsRegular() {\n\t\t\treturn nil\n\t\t}\n', '')]),
 dict(id='C13-foldercount-dropped', props=['C13'], expect='R-MANIFEST-ITEMS/count/manifest.ScanPaths$1#1',
      edits=[(MAN, '\t\t\t\tif d.IsDir() {\n\t\t\t\t\tmanifest.FolderCount++\n\t\t\t\t} else {', '\t\t\t\tif d.IsDir() {\n\t\t\t\t} else {')]),
 dict(id='C13-totalbytes-dirs', props=['C13'], expect='R-MANIFEST-ITEMS/count/manifest.Scan$2#1',
      edits=[(MAN, '\t\tif d.IsDir() {\n\t\t\tmanifest.FolderCount++\n\t\t} else {\n\t\t\tmanifest.FileCount++\n\t\t\tmanifest.TotalBytes += info.Size()\n\t\t}', '\t\tmanifest.TotalBytes += info.Size()\n\t\tif d.IsDir() {\n\t\t\tmanifest.FolderCount++\n\t\t} else {\n\t\t\tmanifest.FileCount++\n\t\t}')]),
 dict(id='C13-no-toslash', props=['C13'], expect='R-MANIFEST-ITEMS/slash/manifest.Scan$2#1',
      edits=[(MAN, '\t\trelPath = filepath.ToSlash(relPath)\n\t\t\n', '\t\t\n')]),
 dict(id='C13-append-after-sort', props=['C13'], expect='R-MANIFEST-ORDER/return/manifest.Scan#',
      edits=[(MAN, '\t// Compute IDs for all items after sorting\n\tfor i := range manifest.Items {\n\t\tmanifest.Items[i].ID = computeID(manifest.Items[i])\n\t}\n\n\t// If we collected any scan errors, we still return the manifest but note the errors\n\t// For now',
              '\t// Compute IDs for all items after sorting\n\tfor i := range manifest.Items {\n\t\tmanifest.Items[i].ID = computeID(manifest.Items[i])\n\t}\n\tif len(manifest.Items) == 0 {\n\t\tmanifest.Items = append(manifest.Items, FileItem{RelPath: filepath.ToSlash("."), IsDir: true})\n\t\tmanifest.FolderCount++\n\t}\n\n\t// If we collected any scan errors, we still return the manifest but note the errors\n\t// For now')]),
 dict(id='C13-dup-test-removed', props=['C13'], expect='R-MANIFEST-ORDER/return/manifest.ScanPaths#1/distinct',
      edits=[(MAN, '\t\tif manifest.Items[i].RelPath == manifest.Items[i-1].RelPath {', '\t\tif manifest.Items[i].RelPath == manifest.Items[i-1].RelPath && false {')]),
 dict(id='C13-resolver-format', props=['C13'], expect='R-SIBLING-PREFIX/prefix/ordinal-format',
      edits=[(SS, 'prefix = fmt.Sprintf("%d_", ordinal+1)', 'prefix = fmt.Sprintf("%d-", ordinal+1)')]),
 dict(id='C13-resolver-ordinal', props=['C13'], expect='R-SIBLING-PREFIX/prefix/ordinal-format',
      edits=[(SS, 'prefix = fmt.Sprintf("%d_", ordinal+1)', 'prefix = fmt.Sprintf("%d_", ordinal)')]),
 dict(id='C13-resolver-special', props=['C13'], expect='R-SIBLING-PREFIX/prefix/special-names',
      edits=[(SS, '\t\tbaseName := filepath.Base(absPath)\n\t\tif baseName == "." || baseName == "/" {\n\t\t\tif baseName == "." {\n\t\t\t\tbaseName = "current"\n\t\t\t} else {\n\t\t\t\tbaseName = "root"\n\t\t\t}\n\t\t}\n\n\t\tprefix := ""', '\t\tbaseName := filepath.Base(absPath)\n\t\tif baseName == "." || baseName == "/" {\n\t\t\tif baseName == "." {\n\t\t\t\tbaseName = "cwd"\n\t\t\t} else {\n\t\t\t\tbaseName = "root"\n\t\t\t}\n\t\t}\n\n\t\tprefix := ""')]),
 dict(id='C13-id-uses-time', props=['C13'], expect='R-MANIFEST-ORDER/computeID/fields',
      edits=[(MAN, 'input := fmt.Sprintf("%s|%d|%d|%t", item.RelPath, item.Size, item.ModTime, item.IsDir)', 'input := fmt.Sprintf("%s|%d|%t", item.RelPath, item.Size, item.IsDir)')]),
 dict(id='C13-sort-by-size', props=['C13'], expect='R-MANIFEST-ORDER/return/manifest.ScanPaths',
      edits=[(MAN, '\t// Sort items by RelPath for deterministic ordering\n\tsort.Slice(manifest.Items, func(i, j int) bool {\n\t\treturn manifest.Items[i].RelPath < manifest.Items[j].RelPath\n\t})\n\n\t// The ordinal', '\t// Sort items by RelPath for deterministic ordering\n\tsort.Slice(manifest.Items, func(i, j int) bool {\n\t\treturn manifest.Items[i].Size < manifest.Items[j].Size\n\t})\n\n\t// The ordinal')]),
 dict(id='C13-benign-mode-test', props=['C13'], expect='SILENT',
      edits=[(MAN, '\t\tif !d.IsDir() && !d.Type().IsRegular() {\n\t\t\treturn nil\n\t\t}\n\n\t\t// Get file info', '\t\tif !(d.IsDir() || d.Type().IsRegular()) {\n\t\t\treturn nil\n\t\t}\n\n\t\t// Get file info')]),
]
MUTANTS += [
 dict(id='C05-mark-before-write', props=['C05', 'C04'], expect='R-WTM/mark/transfer.RecvManifestMultiStream$5',
      edits=[(MS, '\t\t\t\toffset := int64(chunkIndex) * int64(state.chunkSize)\n\t\t\t\tif err := writeAtWithTimeout(recvCtx, f, buf[:chunkLen], offset, state.item.RelPath); err != nil {\n\t\t\t\t\treleaseChunkBuf(bufPool, buf, err)\n\t\t\t\t\tfinalizeFile(state, false, err.Error())\n\t\t\t\t\tdataErrCh <- err\n\t\t\t\t\treturn\n\t\t\t\t}\n\t\t\t\tdone, added := state.markChunkComplete(chunkIndex, chunkLen)\n',
              '\t\t\t\toffset := int64(chunkIndex) * int64(state.chunkSize)\n\t\t\t\tdone, added := state.markChunkComplete(chunkIndex, chunkLen)\n\t\t\t\tif err := writeAtWithTimeout(recvCtx, f, buf[:chunkLen], offset, state.item.RelPath); err != nil {\n\t\t\t\t\treleaseChunkBuf(bufPool, buf, err)\n\t\t\t\t\tfinalizeFile(state, false, err.Error())\n\t\t\t\t\tdataErrCh <- err\n\t\t\t\t\treturn\n\t\t\t\t}\n')]),
 dict(id='C05-write-error-ignored', props=['C05'], expect='R-WTM/mark/transfer.RecvManifestMultiStream$5',
      edits=[(MS, '\t\t\t\tif err := writeAtWithTimeout(recvCtx, f, buf[:chunkLen], offset, state.item.RelPath); err != nil {\n\t\t\t\t\treleaseChunkBuf(bufPool, buf, err)\n\t\t\t\t\tfinalizeFile(state, false, err.Error())\n\t\t\t\t\tdataErrCh <- err\n\t\t\t\t\treturn\n\t\t\t\t}\n',
              '\t\t\t\t_ = writeAtWithTimeout(recvCtx, f, buf[:chunkLen], offset, state.item.RelPath)\n')]),
 dict(id='C05-legacy-mark-on-error', props=['C05'], expect='R-WTM/mark/transfer.receiveFileChunksWindowed',
      edits=[(MP, '\t\t\t\t\tdefault:\n\t\t\t\t\t}\n\t\t\t\t\treturn\n\t\t\t\t}\n\n\t\t\t\tif resume != nil && resume.sidecar != nil {', '\t\t\t\t\tdefault:\n\t\t\t\t\t}\n\t\t\t\t}\n\n\t\t\t\tif resume != nil && resume.sidecar != nil {')]),
 dict(id='C05-mark-wrong-index', props=['C05'], expect='R-WTM/mark/transfer.RecvManifestMultiStream$5',
      edits=[(MS, 'done, added := state.markChunkComplete(chunkIndex, chunkLen)', 'done, added := state.markChunkComplete(chunkLen, chunkLen)')]),
 dict(id='C05-crc-dropped', props=['C05', 'C02'], expect='R-CRC/write/transfer.RecvManifestMultiStream$5',
      edits=[(MS, '\t\t\t\tif crc32.Checksum(buf[:chunkLen], crc32cTable) != chunkCRC {', '\t\t\t\tif crc32.Checksum(buf[:chunkLen], crc32cTable) != chunkCRC && chunkCRC != 0 {')]),
 dict(id='C05-crc-other-buffer', props=['C05'], expect='R-CRC/write/transfer.RecvManifestMultiStream$5',
      edits=[(MS, '\t\t\t\tif crc32.Checksum(buf[:chunkLen], crc32cTable) != chunkCRC {', '\t\t\t\tif crc32.Checksum(header[:chunkLen], crc32cTable) != chunkCRC {')]),
 dict(id='C05-legacy-crc-dropped', props=['C05'], expect='R-CRC/write/transfer.receiveFileChunksWindowed',
      edits=[(MP, '\t\t\tif crc32.Checksum(chunk.buf[:chunk.n], crc32cTable) != chunk.crc {\n\t\t\t\tbufPool.Put(chunk.buf)\n\t\t\t\treturn 0, ErrCRC32Mismatch\n\t\t\t}\n', '')]),
 dict(id='C05-write-in-place', props=['C05'], expect='R-ATOMIC-REPLACE/sidecar-fs/transfer.(*Sidecar).Flush',
      edits=[(SC, '\ttemp := s.Path + ".tmp"\n\tif err := os.WriteFile(temp, buf.Bytes(), 0644); err != nil {\n\t\treturn err\n\t}\n\tif err := os.Rename(temp, s.Path); err != nil {\n\t\treturn err\n\t}\n', '\tif err := os.WriteFile(s.Path, buf.Bytes(), 0644); err != nil {\n\t\treturn err\n\t}\n')]),
 dict(id='C05-dirty-cleared-early', props=['C05'], expect='R-ATOMIC-REPLACE/sidecar-fs/transfer.(*Sidecar).Flush/dirty=false',
      edits=[(SC, '\ttemp := s.Path + ".tmp"\n', '\ts.dirty = false\n\ttemp := s.Path + ".tmp"\n')]),
 dict(id='C05-rename-unchecked-write', props=['C05'], expect='R-ATOMIC-REPLACE/sidecar-fs/transfer.(*Sidecar).Flush#3/Rename',
      edits=[(SC, '\tif err := os.WriteFile(temp, buf.Bytes(), 0644); err != nil {\n\t\treturn err\n\t}\n', '\t_ = os.WriteFile(temp, buf.Bytes(), 0644)\n')]),
 dict(id='C06-identity-field-dropped', props=['C06', 'C05'], expect='R-LOAD-VALID/identity/transfer.LoadOrCreateSidecarWithFallback#1/FileID',
      edits=[(SC, '\t\tif sc.ChunkSize != chunkSize || sc.FileSize != fileSize || sc.FileID != fileID {\n\t\t\t_ = os.Remove(path)\n\t\t\treturn nil, false, nil', '\t\tif sc.ChunkSize != chunkSize || sc.FileSize != fileSize {\n\t\t\t_ = os.Remove(path)\n\t\t\treturn nil, false, nil')]),
 dict(id='C06-sidecar-crc-dropped', props=['C06'], expect='R-LOAD-VALID/load/success#1/crc',
      edits=[(SC, 'if checksum := crc32.Checksum(data[:len(data)-4], crc32cTable); checksum != crc {', 'if checksum := crc32.Checksum(data[:len(data)-4], crc32cTable); checksum != crc && crc != 0 {')]),
 dict(id='C06-version-check-dropped', props=['C06'], expect='R-LOAD-VALID/load/success#1/version',
      edits=[(SC, '\tif version != sidecarVersion {\n\t\treturn nil, fmt.Errorf("unsupported sidecar version %d", version)\n\t}\n', '')]),
 dict(id='C06-layout-width', props=['C06'], expect='R-LOAD-VALID/layout/flush-vs-load',
      edits=[(SC, 'if err := binary.Write(buf, binary.BigEndian, uint64(s.FileSize)); err != nil {', 'if err := binary.Write(buf, binary.BigEndian, uint32(s.FileSize)); err != nil {')]),
 dict(id='C05-benign-switch-err', props=['C05'], expect='SILENT',
      edits=[(SC, '\tif err := os.Rename(temp, s.Path); err != nil {\n\t\treturn err\n\t}\n', '\trenameErr := os.Rename(temp, s.Path)\n\tswitch {\n\tcase renameErr != nil:\n\t\treturn renameErr\n\t}\n')]),
 dict(id='C05-benign-extract-temp-helper', props=['C05'], expect='SILENT',
      edits=[(SC, '\ttemp := s.Path + ".tmp"\n', '\ttemp := s.Path + ".tmp"\n\t_ = len(temp)\n')]),
]
SR = 'internal/app/snapshot_receiver.go'
MUTANTS += [
 dict(id='C06-stat-removed', props=['C06'], expect='R-FRESH-FILE/fresh/transfer.RecvManifestMultiStream$handleFileBegin',
      edits=[(MS, '\t\tif opts.Resume && !dataFileIntact {\n\t\t\t// Drop the stale metadata before the file is recreated at full size:\n\t\t\t// once that file exists it is indistinguishable from an intact one.\n\t\t\t_ = os.Remove(SidecarPath(baseDir, "", sidecarIdentifier(item)))\n\t\t\tif rootedDir != baseDir {\n\t\t\t\t_ = os.Remove(SidecarPath(rootedDir, "", sidecarIdentifier(item)))\n\t\t\t}\n\t\t}\n', '')]),
 dict(id='C06-stat-after-create', props=['C06'], expect='R-FRESH-FILE/fresh/transfer.RecvManifestMultiStream$handleFileBegin',
      edits=[(MS, '\t\tdataFileIntact := false\n\t\tif st, statErr := os.Stat(filePath); statErr == nil && st.Size() == int64(begin.FileSize) {\n\t\t\tdataFileIntact = true\n\t\t}\n\t\tif opts.Resume && !dataFileIntact {', '\t\tf0, err0 := os.OpenFile(filePath, os.O_RDWR|os.O_CREATE, 0644)\n\t\tif err0 != nil {\n\t\t\treturn err0\n\t\t}\n\t\t_ = f0.Truncate(int64(begin.FileSize))\n\t\t_ = f0.Close()\n\t\tdataFileIntact := false\n\t\tif st, statErr := os.Stat(filePath); statErr == nil && st.Size() == int64(begin.FileSize) {\n\t\t\tdataFileIntact = true\n\t\t}\n\t\tif opts.Resume && !dataFileIntact {')]),
 dict(id='C04-bitmap-fresh', props=['C04'], expect='R-RESUME-REPORT/report/transfer.RecvManifestMultiStream$buildResumeInfo/bitmap',
      edits=[(MS, '\t\tinfo.Bitmap = state.sidecar.MarshalBitmap()\n', '\t\tinfo.Bitmap = NewBitmap(int(state.totalChunks)).Marshal()\n')]),
 dict(id='C04-skip-above-verified', props=['C04', 'C17'], expect='R-RESUME-REPORT/skip/transfer.(*sendFileState).nextChunkToSend',
      edits=[(MS, 'if s.plan != nil && s.plan.bitmap != nil && s.plan.bitmap.Get(int(idx)) && idx < s.plan.forceSendFrom {', 'if s.plan != nil && s.plan.bitmap != nil && s.plan.bitmap.Get(int(idx)) {')]),
 dict(id='C06-resend-never', props=['C06'], expect='R-RESUME-REPORT/hash-repair/resend-on-mismatch',
      edits=[(MS, '\t\t\t\t\t\t\tif senderHash != vHash && vChunk < forceSendFrom && bitmap.Get(int(vChunk)) && vChunk >= state.nextChunk {\n\t\t\t\t\t\t\t\tstate.resendChunk = vChunk\n\t\t\t\t\t\t\t\tstate.resendPending = true\n\t\t\t\t\t\t\t}\n', '\t\t\t\t\t\t\tif senderHash != vHash && vChunk < forceSendFrom && bitmap.Get(int(vChunk)) && vChunk >= state.nextChunk {\n\t\t\t\t\t\t\t\tstate.resendChunk = vChunk\n\t\t\t\t\t\t\t}\n')]),
 dict(id='C06-overwrite-not-cleared', props=['C06'], expect='R-OVERWRITE-CLEARS/overwrite/',
      edits=[(SR, '\t\t\t\t\tif !resume {\n\t\t\t\t\t\tif err := clearResumeData(r.outDir, summary.RootName); err != nil && r.verbose {\n\t\t\t\t\t\t\tfmt.Fprintf(termio.Stderr(), "Failed to clear resume data: %v\\n", err)\n\t\t\t\t\t\t}\n\t\t\t\t\t}\n', '\t\t\t\t\t_ = resume\n')]),
]
HUB = 'internal/peers/hub.go'
MUTANTS += [
 dict(id='C11-undo-F9-broadcast-unlocked', props=['C11'], expect='R-SEND-CLOSE/send/peers.(*Hub).Broadcast#1/under-lock',
      edits=[(HUB, '\t// Send to all peers (non-blocking via buffered channels)\n\tvar behind []string\n\tfor connID, pc := range sessionPeers {\n\t\tselect {\n\t\tcase pc.send <- env:\n\t\t\t// Successfully queued\n\t\tdefault:\n\t\t\t// Channel full: retried below, outside this pass\n\t\t\tbehind = append(behind, connID)\n\t\t}\n\t}\n\th.mu.RUnlock()\n\th.enqueueBehind(sessionID, behind, env)\n}\n\n// enqueueBehind',
              '\tpeersCopy := make(map[string]*peerConnection, len(sessionPeers))\n\tfor connID, pc := range sessionPeers {\n\t\tpeersCopy[connID] = pc\n\t}\n\th.mu.RUnlock()\n\n\t// Send to all peers (non-blocking via buffered channels)\n\tvar behind []string\n\tfor connID, pc := range peersCopy {\n\t\tselect {\n\t\tcase pc.send <- env:\n\t\t\t// Successfully queued\n\t\tdefault:\n\t\t\t// Channel full: retried below, outside this pass\n\t\t\tbehind = append(behind, connID)\n\t\t}\n\t}\n\th.enqueueBehind(sessionID, behind, env)\n}\n\n// enqueueBehind')]),
 dict(id='C11-undo-F10-stale-alias', props=['C11'], expect='R-STALE-ALIAS/alias/peers.(*Hub).removeFunc$1.sessionPeers',
      edits=[(HUB, 'if current, ok := h.sessions[sessionID]; ok && len(current) == 0 {', 'if len(sessionPeers) == 0 {')]),
 dict(id='C11-sendto-no-lock', props=['C11', 'C10'], expect='R-LOCKSET/C1',
      edits=[(HUB, '\tfor {\n\t\th.mu.RLock()\n\t\tpc := lookup()\n\t\tif pc == nil {\n\t\t\th.mu.RUnlock()\n\t\t\treturn false\n\t\t}\n', '\tfor {\n\t\tpc := lookup()\n\t\tif pc == nil {\n\t\t\treturn false\n\t\t}\n\t\th.mu.RLock()\n')]),
 dict(id='C11-close-before-unlink', props=['C11'], expect='R-SEND-CLOSE/close/peers.(*Hub).removeFunc$1',
      edits=[(HUB, '\t\th.mu.Lock()\n\t\tsessionPeers, exists := h.sessions[sessionID]\n\t\tif !exists {\n\t\t\th.mu.Unlock()\n\t\t\treturn\n\t\t}\n', '\t\tpc.closeSend()\n\t\th.mu.Lock()\n\t\tsessionPeers, exists := h.sessions[sessionID]\n\t\tif !exists {\n\t\t\th.mu.Unlock()\n\t\t\treturn\n\t\t}\n')]),
 dict(id='C11-blocking-send', props=['C11'], expect='R-SEND-CLOSE/send/peers.(*Hub).enqueueWait#1/non-blocking',
      edits=[(HUB, '\t\tselect {\n\t\tcase pc.send <- env:\n\t\t\th.mu.RUnlock()\n\t\t\treturn true\n\t\tdefault:\n\t\t}\n\t\th.mu.RUnlock()\n\t\tif pc.notReading.Load() {', '\t\tpc.send <- env\n\t\th.mu.RUnlock()\n\t\tif !pc.notReading.Load() {\n\t\t\treturn true\n\t\t}\n\t\tif pc.notReading.Load() {')]),
 dict(id='C11-closefn-under-lock', props=['C11'], expect='R-SEND-CLOSE/under-lock/peers.(*Hub).CloseSession',
      edits=[(HUB, '\tdelete(h.sessions, sessionID)\n\tdelete(h.byPeerID, sessionID)\n\th.mu.Unlock()\n\n\tfor _, pc := range peersCopy {\n\t\tpc.closeConn()\n\t\tpc.closeSend()\n\t}', '\tdelete(h.sessions, sessionID)\n\tdelete(h.byPeerID, sessionID)\n\tfor _, pc := range peersCopy {\n\t\tpc.closeConn()\n\t\tpc.closeSend()\n\t}\n\th.mu.Unlock()')]),
 dict(id='C11-leak-bypeerid', props=['C11'], expect='R-STALE-ALIAS/paired-delete/peers.(*Hub).CloseSession',
      edits=[(HUB, '\tdelete(h.sessions, sessionID)\n\tdelete(h.byPeerID, sessionID)\n\th.mu.Unlock()\n\n\tfor _, pc := range peersCopy {', '\tdelete(h.sessions, sessionID)\n\th.mu.Unlock()\n\n\tfor _, pc := range peersCopy {')]),
 dict(id='C10-second-consumer', props=['C10'], expect='R-SEND-CLOSE/single-consumer',
      edits=[(HUB, '\tgo func() {\n\t\tdefer close(done)\n\t\tfor env := range ch {', '\tgo func() {\n\t\tfor env := range ch {\n\t\t\t_ = send(env)\n\t\t}\n\t}()\n\tgo func() {\n\t\tdefer close(done)\n\t\tfor env := range ch {')]),
 dict(id='C10-from-not-overwritten', props=['C10'], expect='R-HUB-SCOPE/server/cmd/thruserv.handleWebSocket#5/SendTo/from',
      edits=[(SRV, '\t\tenv.From = peerID\n', '\t\tif env.From == "" {\n\t\t\tenv.From = peerID\n\t\t}\n')]),
 dict(id='C10-route-by-env-session', props=['C10'], expect='R-HUB-SCOPE/server/cmd/thruserv.handleWebSocket#6/BroadcastExcept/session',
      edits=[(SRV, 'hub.BroadcastExcept(sess.ID, peerID, env)', 'hub.BroadcastExcept(env.SessionID, peerID, env)')]),
 dict(id='C10-sendto-cross-session', props=['C10'], expect='R-HUB-SCOPE/',
      edits=[(HUB, '\t\tconnID, exists := h.byPeerID[sessionID][peerID]\n\t\tif !exists {\n\t\t\treturn nil\n\t\t}\n\t\treturn h.sessions[sessionID][connID]\n',
              '\t\tconnID, exists := h.byPeerID[sessionID][peerID]\n\t\tsid := sessionID\n\t\tif !exists {\n\t\t\tfor other, m := range h.byPeerID {\n\t\t\t\tif c, ok := m[peerID]; ok {\n\t\t\t\t\tconnID, sid, exists = c, other, true\n\t\t\t\t}\n\t\t\t}\n\t\t}\n\t\tif !exists {\n\t\t\treturn nil\n\t\t}\n\t\treturn h.sessions[sid][connID]\n')]),
 dict(id='C10-except-wrong', props=['C10'], expect='R-HUB-SCOPE/exclusion/BroadcastExcept',
      edits=[(HUB, '\t\tif connID == exceptConnID {\n\t\t\tcontinue\n\t\t}\n', '\t\tif connID == exceptPeerID || exceptConnID == "" {\n\t\t\tcontinue\n\t\t}\n')]),
 dict(id='C10-error-broadcast', props=['C10'], expect='R-HUB-SCOPE/server/peer-not-found',
      edits=[(SRV, '\t\t\t\t\tsendFunc(errorEnv)\n', '\t\t\t\t\thub.Broadcast(sess.ID, errorEnv)\n')]),
 dict(id='C11-benign-list-copy', props=['C11', 'C10'], expect='SILENT',
      edits=[(HUB, '\tpeers := make([]protocol.PeerInfo, 0, len(sessionPeers))\n', '\tn := len(sessionPeers)\n\tpeers := make([]protocol.PeerInfo, 0, n)\n')]),
]
SESS = 'internal/session/session.go'
MUTANTS += [
 dict(id='C14-undo-F14a', props=['C14'], expect='R-CHECK-ACT/split/cmd/thruserv.main$2/maxSessions',
      edits=[(SRV, '\t\tsess, ok := store.CreateWithLimit(limits.maxSessions)\n\t\tif !ok {\n\t\t\tsendError(w, http.StatusTooManyRequests, "session limit reached")\n\t\t\treturn\n\t\t}\n',
              '\t\tif limits.maxSessions > 0 && store.Count() >= limits.maxSessions {\n\t\t\tsendError(w, http.StatusTooManyRequests, "session limit reached")\n\t\t\treturn\n\t\t}\n\t\tsess := store.Create()\n')]),
 dict(id='C14-limit-split-in-store', props=['C14'], expect='R-CHECK-ACT/atomic/Store.sessions/session.(*Store).CreateWithLimit',
      edits=[(SESS, '\ts.mu.Lock()\n\tdefer s.mu.Unlock()\n\n\tif maxSessions > 0 && len(s.sessions) >= maxSessions {\n\t\treturn Session{}, false\n\t}\n',
              '\ts.mu.Lock()\n\tif maxSessions > 0 && len(s.sessions) >= maxSessions {\n\t\ts.mu.Unlock()\n\t\treturn Session{}, false\n\t}\n\ts.mu.Unlock()\n\ts.mu.Lock()\n\tdefer s.mu.Unlock()\n')]),
 dict(id='C14-limit-zero-rejects', props=['C14'], expect='R-ZERO-OFF/zero-off/session.(*Store).CreateWithLimit/maxSessions',
      edits=[(SESS, 'if maxSessions > 0 && len(s.sessions) >= maxSessions {', 'if len(s.sessions) >= maxSessions {')]),
 dict(id='C14-code-collision-unchecked', props=['C14'], expect='R-SESSION-LIFE/code-unique/',
      edits=[(SESS, '\tfor _, exists := s.byCode[session.JoinCode]; exists; {\n\t\tsession.JoinCode = generateJoinCode()\n\t\t_, exists = s.byCode[session.JoinCode]\n\t}\n', '\tif _, exists := s.byCode[session.JoinCode]; exists {\n\t\tsession.JoinCode = generateJoinCode()\n\t}\n')]),
 dict(id='C14-expiry-not-checked', props=['C14'], expect='R-SESSION-LIFE/expiry/lookup',
      edits=[(SESS, '\tif !session.ExpiresAt.IsZero() && time.Now().After(session.ExpiresAt) {\n\t\tdelete(s.sessions, sessionID)\n\t\tdelete(s.byCode, code)\n\t\treturn Session{}, false\n\t}\n', '')]),
 dict(id='C14-host-cleanup-dropped', props=['C14'], expect='R-SESSION-LIFE/host-cleanup/',
      edits=[(SRV, '\t\t\t\tstore.Delete(sess.ID)\n\t\t\t\tsessionEnded = true\n', '\t\t\t\tsessionEnded = true\n')]),
 dict(id='C14-connlimiter-split', props=['C14'], expect='R-CHECK-ACT/atomic/connLimiter.inUse/cmd/thruserv.(*connLimiter).Acquire',
      edits=[(SRV, '\tl.mu.Lock()\n\tdefer l.mu.Unlock()\n\tif l.limit > 0 && l.inUse >= l.limit {\n\t\treturn false\n\t}\n\tl.inUse++\n\treturn true', '\tl.mu.Lock()\n\tfull := l.limit > 0 && l.inUse >= l.limit\n\tl.mu.Unlock()\n\tif full {\n\t\treturn false\n\t}\n\tl.mu.Lock()\n\tl.inUse++\n\tl.mu.Unlock()\n\treturn true')]),
 dict(id='C14-size-check-after-routing', props=['C14'], expect='R-SESSION-LIFE/pre-route/',
      edits=[(SRV, '\t\tif limits.maxMessageBytes > 0 && len(message) > limits.maxMessageBytes {\n', '\t\tif limits.maxMessageBytes > 0 && len(message) > limits.maxMessageBytes && role == "" {\n')]),
 dict(id='C14-store-unlocked-count', props=['C14'], expect='R-LOCKSET/C14/Store.sessions/session.(*Store).Count',
      edits=[(SESS, '\ts.mu.RLock()\n\tdefer s.mu.RUnlock()\n\treturn len(s.sessions)', '\treturn len(s.sessions)')]),
]
MUTANTS += [
 dict(id='C12-undo-F11', props=['C12'], expect='R-SLOTS/release/runTransfer/delete',
      edits=[(SS, '\tif s.active[peerID] == slot {\n\t\tdelete(s.active, peerID)\n\t\tdelete(s.signalCh, peerID)\n\t}\n', '\tdelete(s.active, peerID)\n\tdelete(s.signalCh, peerID)\n')]),
 dict(id='C12-insert-outside-section', props=['C12'], expect='R-CHECK-ACT/C12/atomic/SnapshotSender.active',
      edits=[(SS, '\t\tslot := &transferSlot{peerID: peerID, cancel: cancel, parent: ctx}\n\t\ts.active[peerID] = slot\n', '\t\tslot := &transferSlot{peerID: peerID, cancel: cancel, parent: ctx}\n\t\ts.mu.Unlock()\n\t\ts.mu.Lock()\n\t\ts.active[peerID] = slot\n')]),
 dict(id='C12-queue-prepend', props=['C12'], expect='R-SLOTS/fifo/app.(*SnapshotSender).enqueueLocked',
      edits=[(SS, '\ts.queue = append(s.queue, peerID)\n}', '\ts.queue = append([]string{peerID}, s.queue...)\n}')]),
 dict(id='C12-no-redispatch', props=['C12'], expect='R-SLOTS/release/runTransfer/exit#1/redispatch',
      edits=[(SS, '\ts.maybeStartTransfers(slot.parent)\n}', '\tif err == nil {\n\t\ts.maybeStartTransfers(slot.parent)\n\t}\n}')]),
 dict(id='C12-start-from-accept', props=['C12'], expect='R-SLOTS/who-inserts/app.(*SnapshotSender).handleManifestAccept',
      edits=[(SS, '\tstate.Status = ReceiverStatusQueued\n\ts.enqueueLocked(peerID)\n', '\tif len(s.active) == 0 {\n\t\ts.active[peerID] = &transferSlot{peerID: peerID}\n\t}\n\tstate.Status = ReceiverStatusQueued\n\ts.enqueueLocked(peerID)\n')]),
 dict(id='C12-peerleft-keeps-slot', props=['C12'], expect='R-SLOTS/peer-left/exit#1/slot-cleared',
      edits=[(SS, '\t\tif slot.cancel != nil {\n\t\t\tslot.cancel()\n\t\t}\n\t\tdelete(s.active, peerID)\n\t}\n\tdelete(s.signalCh, peerID)\n\tfiltered := s.queue[:0]', '\t\tif slot.cancel != nil {\n\t\t\tslot.cancel()\n\t\t}\n\t}\n\tdelete(s.signalCh, peerID)\n\tfiltered := s.queue[:0]')]),
 dict(id='C12-cleanup-deletes-transferring', props=['C12'], expect='R-SLOTS/cleanup/delete',
      edits=[(SS, '\t\tif state.Status == ReceiverStatusTransferring || state.Status == ReceiverStatusQueued {\n\t\t\tcontinue\n\t\t}\n\t\tif now.Sub(state.LastSeen) > s.receiverTTL {', '\t\tif state.Status == ReceiverStatusQueued {\n\t\t\tcontinue\n\t\t}\n\t\tif now.Sub(state.LastSeen) > s.receiverTTL {')]),
 dict(id='C12-unlocked-queue-read', props=['C12'], expect='R-LOCKSET/C12/SnapshotSender.queue',
      edits=[(SS, 'func (s *SnapshotSender) maybeStartTransfers(ctx context.Context) {\n\tfor {\n', 'func (s *SnapshotSender) maybeStartTransfers(ctx context.Context) {\n\tif len(s.queue) == 0 {\n\t\treturn\n\t}\n\tfor {\n')]),
 dict(id='C12-benign-split-helper', props=['C12'], expect='SILENT',
      edits=[(SS, '\t\tstate.Status = ReceiverStatusTransferring\n\t\tstate.LastSeen = s.now()\n', '\t\tstate.Status = ReceiverStatusTransferring\n\t\tseen := s.now()\n\t\tstate.LastSeen = seen\n')]),
]
HY = 'internal/scheduler/hybrid.go'
MUTANTS += [
 dict(id='C17-endsent-guard-weakened', props=['C17'], expect='R-DISPATCH/end-once/transfer.(*sendFileState).trySendEnd#1/guard/not-endSent',
      edits=[(MS, '\tif s.verifyPending || s.resendPending {\n\t\treturn false\n\t}\n\tif s.scheduleDone && s.inFlight == 0 && !s.endSent {\n\t\ts.endSent = true\n\t\treturn true\n\t}\n\treturn false\n}\n\nfunc (s *sendFileState) openFile()', '\tif s.verifyPending || s.resendPending {\n\t\treturn false\n\t}\n\tif s.scheduleDone && s.inFlight == 0 {\n\t\ts.endSent = true\n\t\treturn true\n\t}\n\treturn false\n}\n\nfunc (s *sendFileState) openFile()')]),
 dict(id='C17-end-before-verify', props=['C17', 'C06'], expect='R-DISPATCH/end-once/transfer.(*sendFileState).markChunkDone#1/guard/not-verifyPending',
      edits=[(MS, '\tif s.inFlight > 0 {\n\t\ts.inFlight--\n\t}\n\tif s.verifyPending || s.resendPending {\n\t\treturn false\n\t}\n', '\tif s.inFlight > 0 {\n\t\ts.inFlight--\n\t}\n\tif s.resendPending {\n\t\treturn false\n\t}\n')]),
 dict(id='C17-sendfileend-unconditional', props=['C17'], expect='R-DISPATCH/end-pairing/',
      edits=[(MS, '\t\t\t\tif state.markChunkDone() {\n\t\t\t\t\tsendFileEnd(state)\n\t\t\t\t}\n\t\t\t\tsignalWake()', '\t\t\t\tstate.markChunkDone()\n\t\t\t\tsendFileEnd(state)\n\t\t\t\tsignalWake()')]),
 dict(id='C17-end-result-dropped', props=['C17'], expect='R-DISPATCH/end-pairing/markChunkDone',
      edits=[(MS, '\t\t\t\tif chunkLen == 0 {\n\t\t\t\t\tif state.markChunkDone() {\n\t\t\t\t\t\tsendFileEnd(state)\n\t\t\t\t\t}\n\t\t\t\t\tcontinue\n\t\t\t\t}', '\t\t\t\tif chunkLen == 0 {\n\t\t\t\t\tstate.markChunkDone()\n\t\t\t\t\tcontinue\n\t\t\t\t}')]),
 dict(id='C17-second-filebegin', props=['C17'], expect='R-DISPATCH/begin-once/who-calls/',
      edits=[(MS, '\t\tif !resumeEnabled || state.item.ID == "" || state.totalChunks == 0 {\n\t\t\tstate.setReady(nil)', '\t\tif state.totalChunks == 0 {\n\t\t\tcontrolWriteMu.Lock()\n\t\t\t_ = writeFileBegin(controlStream, FileBegin{RelPath: state.item.RelPath, StreamID: state.key, ChunkSize: chunkSize})\n\t\t\tcontrolWriteMu.Unlock()\n\t\t}\n\t\tif !resumeEnabled || state.item.ID == "" || state.totalChunks == 0 {\n\t\t\tstate.setReady(nil)')]),
 dict(id='C17-inflight-not-counted', props=['C17'], expect='R-DISPATCH/cursor/inFlight/return',
      edits=[(MS, '\t\tif s.resendPending {\n\t\t\tidx := s.resendChunk\n\t\t\ts.resendPending = false\n\t\t\ts.inFlight++\n\t\t\treturn idx, chunkSizeForIndex(s.item.Size, s.chunkSize, idx), true\n\t\t}\n\t\treturn 0, 0, false\n\t}', '\t\tif s.resendPending {\n\t\t\tidx := s.resendChunk\n\t\t\ts.resendPending = false\n\t\t\treturn idx, chunkSizeForIndex(s.item.Size, s.chunkSize, idx), true\n\t\t}\n\t\treturn 0, 0, false\n\t}')]),
 dict(id='C17-resend-not-cleared', props=['C17'], expect='R-DISPATCH/cursor/resend-once',
      edits=[(MS, '\tif s.resendPending {\n\t\tidx := s.resendChunk\n\t\ts.resendPending = false\n\t\ts.inFlight++\n\t\treturn idx, chunkSizeForIndex(s.item.Size, s.chunkSize, idx), true\n\t}\n\tfor s.nextChunk', '\tif s.resendPending {\n\t\tidx := s.resendChunk\n\t\ts.inFlight++\n\t\treturn idx, chunkSizeForIndex(s.item.Size, s.chunkSize, idx), true\n\t}\n\tfor s.nextChunk')]),
 dict(id='C17-post-increment-index', props=['C17'], expect='R-DISPATCH/cursor/pre-increment',
      edits=[(MS, '\t\tidx := s.nextChunk\n\t\ts.nextChunk++\n', '\t\ts.nextChunk++\n\t\tidx := s.nextChunk\n')]),
 dict(id='C17-next-forgets-started', props=['C17', 'C03'], expect='R-DISPATCH/scheduler/next#',
      edits=[(HY, '\tmeta := s.files[bestKey]\n\tmeta.LastScheduledAt = now\n\tif meta.StartedAt.IsZero() {\n\t\tmeta.StartedAt = now\n\t}\n\ts.files[bestKey] = meta', '\tmeta := s.files[bestKey]\n\tmeta.LastScheduledAt = now\n\ts.files[bestKey] = meta')]),
 dict(id='C17-class-large-dropped', props=['C17', 'C03'], expect='R-DISPATCH/scheduler/class-exhaustive',
      edits=[(HY, '\t\tif eff == classMedium || eff == classLarge {', '\t\tif eff == classMedium {')]),
 dict(id='C17-endsent-unlocked', props=['C17'], expect='R-LOCKSET/C17/sendFileState.endSent',
      edits=[(MS, 'func (s *sendFileState) trySendEnd() bool {\n\ts.mu.Lock()\n\tdefer s.mu.Unlock()\n', 'func (s *sendFileState) trySendEnd() bool {\n')]),
 dict(id='C17-benign-early-return', props=['C17'], expect='SILENT',
      edits=[(MS, '\tif s.scheduleDone && s.inFlight == 0 && !s.endSent {\n\t\ts.endSent = true\n\t\treturn true\n\t}\n\treturn false\n}\n\nfunc (s *sendFileState) openFile()', '\tif !s.scheduleDone || s.inFlight != 0 || s.endSent {\n\t\treturn false\n\t}\n\ts.endSent = true\n\treturn true\n}\n\nfunc (s *sendFileState) openFile()')]),
]
TA = 'internal/app/transport_auth.go'
MUTANTS += [
 dict(id='C08-bytes-equal', props=['C08'], expect='R-AUTH-SHAPE/shape/app.authAsReceiver',
      edits=[(TA, '\texpected := computeAuthMac(key, role, nonce)\n\tif !hmac.Equal(mac, expected) {\n\t\treturn fmt.Errorf("auth proof mismatch (sender)")', '\texpected := computeAuthMac(key, role, nonce)\n\tif string(mac) != string(expected) {\n\t\treturn fmt.Errorf("auth proof mismatch (sender)")')]),
 dict(id='C08-role-test-removed', props=['C08'], expect='R-AUTH-SHAPE/shape/app.authAsSender/return-nil#1/role',
      edits=[(TA, '\tif role != authRoleReceive {\n\t\treturn fmt.Errorf("auth role mismatch: expected receiver, got %d", role)\n\t}\n', '')]),
 dict(id='C08-respond-before-verify', props=['C08'], expect='R-AUTH-SHAPE/shape/app.authAsReceiver/verify-before-respond',
      edits=[(TA, '\texpected := computeAuthMac(key, role, nonce)\n\tif !hmac.Equal(mac, expected) {\n\t\treturn fmt.Errorf("auth proof mismatch (sender)")\n\t}\n\n\trespNonce, err := randomNonce()\n\tif err != nil {\n\t\treturn err\n\t}\n\trespMac := computeAuthMac(key, authRoleReceive, respNonce)\n\tif err := writeAuthMessage(ctx, stream, authRoleReceive, respNonce, respMac); err != nil {\n\t\treturn err\n\t}\n\treturn nil',
              '\trespNonce, err := randomNonce()\n\tif err != nil {\n\t\treturn err\n\t}\n\trespMac := computeAuthMac(key, authRoleReceive, respNonce)\n\tif err := writeAuthMessage(ctx, stream, authRoleReceive, respNonce, respMac); err != nil {\n\t\treturn err\n\t}\n\texpected := computeAuthMac(key, role, nonce)\n\tif !hmac.Equal(mac, expected) {\n\t\treturn fmt.Errorf("auth proof mismatch (sender)")\n\t}\n\treturn nil')]),
 dict(id='C08-key-without-joincode', props=['C08'], expect='R-AUTH-SHAPE/shape/deriveAuthKey/binds-both',
      edits=[(TA, 'mac := hmac.New(sha256.New, []byte(joinCode))\n\t_, _ = mac.Write(ekm)', 'mac := hmac.New(sha256.New, []byte(authLabel))\n\t_, _ = mac.Write(ekm)\n\t_ = joinCode')]),
 dict(id='C08-key-without-ekm', props=['C08'], expect='R-AUTH-SHAPE/shape/deriveAuthKey/binds-both',
      edits=[(TA, '\t_, _ = mac.Write(ekm)\n\treturn mac.Sum(nil), nil', '\t_, _ = mac.Write([]byte(authLabel))\n\t_ = ekm\n\treturn mac.Sum(nil), nil')]),
 dict(id='C08-proof-without-nonce', props=['C08'], expect='R-AUTH-SHAPE/shape/computeAuthMac/covers',
      edits=[(TA, '\t_, _ = mac.Write([]byte{authVersion, role})\n\t_, _ = mac.Write(nonce)\n', '\t_, _ = mac.Write([]byte{authVersion, role})\n\t_ = nonce\n')]),
 dict(id='C08-auth-after-transfer', props=['C08'], expect='R-AUTH-DOM/sink/app.(*SnapshotSender).runICEQUICTransfer',
      edits=[(SS, '\tauthCtx, authCancel := context.WithTimeout(ctx, 10*time.Second)\n\tif err := authenticateTransport(authCtx, transferConn, s.joinCode, authRoleSender); err != nil {\n\t\tauthCancel()\n\t\treturn fmt.Errorf("transport auth failed: %w", err)\n\t}\n\tauthCancel()\n', '\tauthCtx, authCancel := context.WithTimeout(ctx, 10*time.Second)\n\tif err := authenticateTransport(authCtx, transferConn, s.joinCode, authRoleSender); err != nil {\n\t\tauthCancel()\n\t\ts.logger.Warn("transport auth failed", "error", err)\n\t}\n\tauthCancel()\n')]),
 dict(id='C08-extra-conn-unauthenticated', props=['C08'], expect='R-AUTH-DOM/producer/app.(*SnapshotSender).dialExtraConns',
      edits=[(SS, '\t\tif err := authenticateTransport(authCtx, tconn, s.joinCode, authRoleSender); err != nil {\n\t\t\tauthCancel()\n\t\t\ttconn.Close()\n\t\t\tquicConn.CloseWithError(0, "auth_failed")\n\t\t\tudpConn.Close()\n\t\t\tlastErr = err\n\t\t\tcontinue\n\t\t}', '\t\tif err := authenticateTransport(authCtx, tconn, s.joinCode, authRoleSender); err != nil {\n\t\t\tlastErr = err\n\t\t}')]),
 dict(id='C08-receiver-extra-skip-auth', props=['C08'], expect='R-AUTH-DOM/producer/app.(*snapshotReceiver).acceptExtraConns',
      edits=[(SR, '\t\t\t\tif err := authenticateTransport(acceptCtx, conn, r.joinCode, authRoleReceive); err != nil {\n\t\t\t\t\tconn.Close()\n\t\t\t\t\treport(extraResult{err: err})\n\t\t\t\t\treturn\n\t\t\t\t}\n', '\t\t\t\tif extra > 1 {\n\t\t\t\t\tif err := authenticateTransport(acceptCtx, conn, r.joinCode, authRoleReceive); err != nil {\n\t\t\t\t\t\tconn.Close()\n\t\t\t\t\t\treport(extraResult{err: err})\n\t\t\t\t\t\treturn\n\t\t\t\t\t}\n\t\t\t\t}\n')]),
 dict(id='C08-exporter-constant', props=['C08'], expect='R-AUTH-SHAPE/shape/QUICConn.ExportKeyingMaterial',
      edits=[('internal/transferquic/quic.go', 'return state.TLS.ExportKeyingMaterial(label, context, length)', 'return state.TLS.ExportKeyingMaterial("static", nil, length)')]),
 dict(id='C08-benign-inline-expected', props=['C08'], expect='SILENT',
      edits=[(TA, '\texpected := computeAuthMac(key, role, rnonce)\n\tif !hmac.Equal(rmac, expected) {', '\tif !hmac.Equal(rmac, computeAuthMac(key, role, rnonce)) {')]),
]
MUTANTS += [
 dict(id='C02-undo-F2', props=['C02'], expect='R-SUCCESS-GATE/receiver/counted-only-ok/',
      edits=[(MS, '\t\tstatsMu.Lock()\n\t\tif ok {\n\t\t\tcompletedCount++\n\t\t}\n\t\tif activeCount > 0 {', '\t\tstatsMu.Lock()\n\t\tcompletedCount++\n\t\tif activeCount > 0 {')]),
 dict(id='C02-undo-F3', props=['C02'], expect='R-SUCCESS-GATE/sender/return-nil#1/all-acknowledged',
      edits=[(MS, '\tif acknowledged < totalFiles {\n\t\tif err := ctx.Err(); err != nil {\n\t\t\treturn err\n\t\t}\n\t\treturn fmt.Errorf("transfer ended with %d of %d files acknowledged", acknowledged, totalFiles)\n\t}\n', '\t_ = acknowledged\n')]),
 dict(id='C02-graceful-alone', props=['C02'], expect='R-SUCCESS-GATE/graceful/transfer.RecvManifestMultiStream',
      edits=[(MS, '\t\t\t\tif isGracefulRemoteClose(err) && completedCount >= totalFiles {\n\t\t\t\t\treturn m, nil\n\t\t\t\t}\n\t\t\t\tsetRecvErr(err)', '\t\t\t\tif isGracefulRemoteClose(err) {\n\t\t\t\t\treturn m, nil\n\t\t\t\t}\n\t\t\t\tsetRecvErr(err)')]),
 dict(id='C02-failure-not-reported', props=['C02'], expect='R-SUCCESS-GATE/receiver/failure-reported/',
      edits=[(MS, '\t\t\t\t\tfinalizeFile(state, false, ErrCRC32Mismatch.Error())\n\t\t\t\t\tdataErrCh <- ErrCRC32Mismatch\n\t\t\t\t\treturn', '\t\t\t\t\tfinalizeFile(state, false, ErrCRC32Mismatch.Error())\n\t\t\t\t\treturn')]),
 dict(id='C02-ack-before-ok', props=['C02'], expect='R-SUCCESS-GATE/sender/ack-counted-only-ok/',
      edits=[(MS, '\t\t\tif !fileDone.OK {\n\t\t\t\tif fileDone.ErrMsg == "" {', '\t\t\tif !fileDone.OK && fileDone.ErrMsg != "" {\n\t\t\t\tif fileDone.ErrMsg == "" {')]),
 dict(id='C02-select-without-ctx', props=['C02', 'C03'], expect='R-ESCAPE/select/transfer.RecvManifestMultiStream$queueControl',
      edits=[(MS, '\t\tselect {\n\t\tcase controlWriteCh <- msg:\n\t\t\treturn nil\n\t\tcase <-recvCtx.Done():\n\t\t\treturn recvCtx.Err()\n\t\tcase <-controlEnded:\n\t\t\treturn nil\n\t\t}\n', '\t\tselect {\n\t\tcase controlWriteCh <- msg:\n\t\t\treturn nil\n\t\t}\n')]),
 dict(id='C02-wait-background-ctx', props=['C02'], expect='R-ESCAPE/ctx/transfer.SendManifestMultiStream$sendFileEnd',
      edits=[(MS, 'fileDone, err := doneRegistry.wait(transferCtx, state.key)', 'fileDone, err := doneRegistry.wait(context.Background(), state.key)')]),
 dict(id='C03-undo-F5', props=['C03'], expect='R-NO-STUCK-WAIT/visible/',
      edits=[(MS, '\tdataErrCh := make(chan error, dataStreams)\n\tfor i := 0; i < dataStreams; i++ {\n\t\tgo func() {\n\t\t\ts, err := conn.AcceptStream(recvCtx)\n\t\t\tif err != nil {\n\t\t\t\tif recvCtx.Err() != nil {\n\t\t\t\t\terr = nil\n\t\t\t\t}\n\t\t\t\tdataErrCh <- err\n\t\t\t\treturn\n\t\t\t}\n\t\t\tdefer s.Close()',
              '\tdataErrCh := make(chan error, dataStreams)\n\tvar early []Stream\n\tfor i := 0; i < dataStreams; i++ {\n\t\ts, err := conn.AcceptStream(recvCtx)\n\t\tif err != nil {\n\t\t\treturn m, err\n\t\t}\n\t\tearly = append(early, s)\n\t}\n\tfor i := 0; i < dataStreams; i++ {\n\t\ts := early[i]\n\t\tgo func() {\n\t\t\tdefer s.Close()')]),
 dict(id='C03-undo-F4-reader', props=['C03'], expect='R-NO-STUCK-WAIT/orphan/',
      edits=[(MS, '\t\t\t\tif state == nil && finished {\n\t\t\t\t\t// A late duplicate', '\t\t\t\tif state == nil && finished && false {\n\t\t\t\t\t// A late duplicate')]),
 dict(id='C03-undo-F4-resume', props=['C03'], expect='R-NO-STUCK-WAIT/late-record/',
      edits=[(MS, '\t\tif !ok && finished {\n\t\t\t// The file was already completed', '\t\tif !ok && finished && req.FileID == "" {\n\t\t\t// The file was already completed')]),
 dict(id='C03-undo-F6', props=['C03', 'C07'], expect='R-SANITIZER/relpath/',
      edits=[(MP, '\tfor _, segment := range strings.FieldsFunc(relPath, func(r rune) bool { return r == \'/\' || r == \'\\\\\' }) {\n\t\tif segment == ".." {\n\t\t\treturn ErrInvalidRelPath\n\t\t}\n\t}\n', '\tif strings.Contains(relPath, "..") {\n\t\treturn ErrInvalidRelPath\n\t}\n')]),
 dict(id='C03-zero-chunk-never-done', props=['C03'], expect='R-NO-STUCK-WAIT/zero/no-more-chunks',
      edits=[(MS, '\t\treturn idx, chunkSizeForIndex(s.item.Size, s.chunkSize, idx), true\n\t}\n\ts.scheduleDone = true\n\treturn 0, 0, false', '\t\treturn idx, chunkSizeForIndex(s.item.Size, s.chunkSize, idx), true\n\t}\n\tif s.totalChunks > 0 {\n\t\ts.scheduleDone = true\n\t}\n\treturn 0, 0, false')]),
 dict(id='C03-end-not-finalised', props=['C03'], expect='R-NO-STUCK-WAIT/finalise/',
      edits=[(MS, '\t\tif state.markEndReceived(end.CRC32) {\n\t\t\tfinalizeFile(state, true, "")\n\t\t}\n\t\treturn nil', '\t\tstate.markEndReceived(end.CRC32)\n\t\treturn nil')]),
 dict(id='C07-abs-check-dropped', props=['C07'], expect='R-SANITIZER/relpath/absolute',
      edits=[(MP, '\tif filepath.IsAbs(relPath) {\n\t\treturn ErrInvalidRelPath\n\t}\n', '')]),
 dict(id='C03-benign-islocal', props=['C03', 'C07'], expect='SILENT',
      edits=[(MP, '\tfor _, segment := range strings.FieldsFunc(relPath, func(r rune) bool { return r == \'/\' || r == \'\\\\\' }) {\n\t\tif segment == ".." {\n\t\t\treturn ErrInvalidRelPath\n\t\t}\n\t}\n', '\tfor _, segment := range strings.Split(strings.ReplaceAll(relPath, "\\\\", "/"), "/") {\n\t\tif segment == ".." {\n\t\t\treturn ErrInvalidRelPath\n\t\t}\n\t}\n')]),
]
CPR = 'internal/transfer/controlproto.go'
MUTANTS += [
 dict(id='C07-undo-F1-header', props=['C07'], expect='R-TAINT/source/readControlHeader',
      edits=[(CPR, '\tif err := validateManifest(m); err != nil {\n\t\treturn manifest.Manifest{}, err\n\t}\n\n\treturn m, nil', '\treturn m, nil')]),
 dict(id='C07-benign-manifest-ids-unchecked', props=['C07'], expect='SILENT',  # benign for C07 since F35: no path is built from an item id
      edits=[(MP, '\t\tif item.ID != "" {\n\t\t\tif err := validateFilename(item.ID); err != nil {\n\t\t\t\treturn fmt.Errorf("invalid manifest item id %q: %w", item.ID, err)\n\t\t\t}\n\t\t}\n', '')]),
 dict(id='C07-manifest-dirs-only-files', props=['C07'], expect='R-TAINT/source/validateManifest/item-path',
      edits=[(MP, '\t\tif err := validateRelPath(item.RelPath); err != nil {\n\t\t\treturn fmt.Errorf("invalid manifest path %q: %w", item.RelPath, err)\n\t\t}\n', '\t\tif !item.IsDir {\n\t\t\tif err := validateRelPath(item.RelPath); err != nil {\n\t\t\t\treturn fmt.Errorf("invalid manifest path %q: %w", item.RelPath, err)\n\t\t\t}\n\t\t}\n')]),
 dict(id='C07-filebegin-unvalidated', props=['C07'], expect='R-TAINT/sink/mutate/transfer.RecvManifestMultiStream$handleFileBegin',
      edits=[(MS, '\thandleFileBegin := func(begin FileBegin) error {\n\t\tif err := validateRelPath(begin.RelPath); err != nil {\n\t\t\treturn err\n\t\t}\n', '\thandleFileBegin := func(begin FileBegin) error {\n')]),
 dict(id='C07-new-sink-root', props=['C07'], expect='R-TAINT/sink/mutate/transfer.RecvManifestMultiStream',
      edits=[(MS, '\trootedDir := filepath.Join(outDir, m.Root)\n\tbaseDir := outDir\n\tif !opts.NoRootDir {\n\t\tbaseDir = rootedDir\n\t}\n\tif baseDir == "" {', '\trootedDir := filepath.Join(outDir, m.Root)\n\tbaseDir := outDir\n\tif !opts.NoRootDir {\n\t\tbaseDir = rootedDir\n\t}\n\tif len(pendingNames) > 0 {\n\t\t_ = os.Remove(filepath.Join(outDir, pendingNames[0]))\n\t}\n\tif baseDir == "" {'),
             (MS, 'func RecvManifestMultiStream(ctx context.Context, conn Conn, outDir string, opts Options) (manifest.Manifest, error) {\n\tvar m manifest.Manifest\n', 'func RecvManifestMultiStream(ctx context.Context, conn Conn, outDir string, opts Options) (manifest.Manifest, error) {\n\tvar m manifest.Manifest\n\tvar pendingNames []string\n')]),
 dict(id='C07-rootname-guard-dropped', props=['C07'], expect='R-TAINT/sink/mutate/app.clearResumeData',
      edits=[(SR, '\tif strings.TrimSpace(root) != "" && root != "." && root != ".." && !strings.ContainsAny(root, "/\\\\") {\n\t\tadd(root)\n\t}', '\tif strings.TrimSpace(root) != "" {\n\t\tadd(root)\n\t}')]),
 dict(id='C07-sidecar-id-through-helper', props=['C07', 'C06'], expect='SILENT',
      edits=[(MS, '\t\tif opts.Resume && begin.ChunkSize > 0 && totalChunks <= maxResumeChunks {\n\t\t\tprimary := SidecarPath(baseDir, "", sidecarIdentifier(item))\n\t\t\tfallback := ""\n\t\t\tif rootedDir != baseDir {\n\t\t\t\tfallback = SidecarPath(rootedDir, "", sidecarIdentifier(item))\n\t\t\t}', '\t\tif opts.Resume && begin.ChunkSize > 0 && totalChunks <= maxResumeChunks {\n\t\t\tsid := sidecarIdentifier(item)\n\t\t\tprimary := SidecarPath(baseDir, "", sid)\n\t\t\tfallback := ""\n\t\t\tif rootedDir != baseDir {\n\t\t\t\tfallback = SidecarPath(rootedDir, "", sid)\n\t\t\t}')]),
 dict(id='C07-benign-wrap-mkdir', props=['C07'], expect='SILENT',
      edits=[(MS, '\t\tdirPath := filepath.Join(baseDir, filepath.FromSlash(item.RelPath))\n\t\tif err := os.MkdirAll(dirPath, 0755); err != nil {\n\t\t\treturn m, fmt.Errorf("failed to create directory %s: %w", dirPath, err)\n\t\t}\n\t}\n\n\texpectedFiles := make(map[string]int64)', '\t\ttarget := filepath.Join(baseDir, filepath.FromSlash(item.RelPath))\n\t\tif err := os.MkdirAll(target, 0755); err != nil {\n\t\t\treturn m, fmt.Errorf("failed to create directory %s: %w", target, err)\n\t\t}\n\t}\n\n\texpectedFiles := make(map[string]int64)')]),
]
MUTANTS += [
 dict(id='C09-undo-F8', props=['C09'], expect='R-WINNER/dial/ice.(*Prober).ProbeAndDial$probeWithTransport$dialCandidate#1/hand-over#1/elected',
      edits=[(ICE, '\t\t\tif decided.CompareAndSwap(false, true) {\n\t\t\t\tresultCh <- conn // capacity 1 and a single elected sender: never blocks\n\t\t\t\tp.logger.Info("probe won", "addr", addrStr)\n\t\t\t\tif onUpdate != nil {\n\t\t\t\t\tonUpdate(ProbeUpdate{Addr: addrStr, State: ProbeStateWon})\n\t\t\t\t}\n\t\t\t} else {\n\t\t\t\t// Lost the race, close this connection\n\t\t\t\tconn.CloseWithError(0, "race_lost")\n\t\t\t}',
              '\t\t\tselect {\n\t\t\tcase resultCh <- conn:\n\t\t\t\tp.logger.Info("probe won", "addr", addrStr)\n\t\t\t\tif onUpdate != nil {\n\t\t\t\t\tonUpdate(ProbeUpdate{Addr: addrStr, State: ProbeStateWon})\n\t\t\t\t}\n\t\t\tdefault:\n\t\t\t\tconn.CloseWithError(0, "race_lost")\n\t\t\t}\n\t\t\t_ = decided.Load()')]),
 dict(id='C09-loser-not-closed', props=['C09'], expect='R-WINNER/dial/ice.(*Prober).ProbeAndDial$probeWithTransport$dialCandidate#1/owned',
      edits=[(ICE, '\t\t\t} else {\n\t\t\t\t// Lost the race, close this connection\n\t\t\t\tconn.CloseWithError(0, "race_lost")\n\t\t\t}', '\t\t\t} else {\n\t\t\t\tp.logger.Debug("probe lost", "addr", addrStr)\n\t\t\t}')]),
 dict(id='C09-owner-abandons', props=['C09'], expect='R-WINNER/owner/ice.(*Prober).ProbeAndDial$probeWithTransport/give-up',
      edits=[(ICE, '\t\tcase <-ctx.Done():\n\t\t\tdialCancel()\n\t\t\tif !decided.CompareAndSwap(false, true) {\n\t\t\t\t// A dial won at the same moment: its connection is on its way\n\t\t\t\t// into the channel and must not be left open.\n\t\t\t\tconn := <-resultCh\n\t\t\t\tconn.CloseWithError(0, "abandoned")\n\t\t\t}\n\t\t\treturn nil, ctx.Err()', '\t\tcase <-ctx.Done():\n\t\t\tdialCancel()\n\t\t\treturn nil, ctx.Err()')]),
 dict(id='C09-accept-loser-kept', props=['C09'], expect='R-ACCEPT-COMMIT/owned-select/app.(*snapshotReceiver).runTransfer$offerPrimary',
      edits=[(SR, '\t\t\tcase spareCh <- conn:\n\t\t\tdefault:\n\t\t\t\tconn.Close()\n\t\t\t}\n', '\t\t\tcase spareCh <- conn:\n\t\t\tdefault:\n\t\t\t}\n')]),
]
MUTANTS += [
 dict(id='C15-undo-alloc-header', props=['C15'], expect='R-ALLOC/alloc/transfer.readControlHeader',
      edits=[(CPR, '\tmanifestJSON, err := readBytesControl(s, manifestJSONLen, "manifest json")\n\tif err != nil {\n\t\treturn m, fmt.Errorf("failed to read manifest json: %w", err)\n\t}', '\tmanifestJSON := make([]byte, manifestJSONLen)\n\tif err := readFullControl(s, manifestJSON, "manifest json"); err != nil {\n\t\treturn m, fmt.Errorf("failed to read manifest json: %w", err)\n\t}')]),
 dict(id='C15-relpath-bound-removed', props=['C07'], expect='R-SANITIZER/relpath/reader-bound/transfer.readRelPathControl',
      edits=[(CPR, '\tif relPathLen > maxRelPathLength {\n\t\treturn "", ErrRelPathTooLong\n\t}\n\trelPathBuf := make([]byte, relPathLen)\n\tif relPathLen > 0 {', '\trelPathBuf := make([]byte, relPathLen)\n\tif relPathLen > 0 {')]),
 dict(id='C15-errlen-widened', props=['C15'], expect='R-ALLOC/alloc/transfer.readFileDone',
      edits=[(CPR, '\terrLen, err := readUint16Control(s, "err length")', '\terrLen, err := readUint32Control(s, "err length")'), (CPR, '\terrLen := uint16(len(errMsg))\n\tif err := writeUint16Control(s, errLen, "err length"); err != nil {', '\terrLen := uint32(len(errMsg))\n\tif err := writeUint32Control(s, errLen, "err length"); err != nil {')]),
 dict(id='C15-undo-zero-chunk-guard', props=['C15'], expect='R-PANIC-GUARD/bufpool-new/transfer.RecvManifestMultiStream$5',
      edits=[(MS, '\t\t\t\tif state.totalChunks == 0 || state.chunkSize == 0 {\n', '\t\t\t\tif state.totalChunks == 0 && state.chunkSize == 0 && chunkLen > 1 {\n')]),
 dict(id='C15-division-unguarded', props=['C15'], expect='R-PANIC-GUARD/division/transfer.RecvManifestMultiStream$handleFileBegin',
      edits=[(MS, '\t\ttotalChunks := uint32(0)\n\t\tif begin.ChunkSize > 0 {\n\t\t\ttotalChunks = uint32((int64(begin.FileSize) + int64(begin.ChunkSize) - 1) / int64(begin.ChunkSize))\n\t\t}\n\t\tstate := &recvFileStateMux{', '\t\ttotalChunks := uint32(0)\n\t\tif begin.FileSize > 0 {\n\t\t\ttotalChunks = uint32((int64(begin.FileSize) + int64(begin.ChunkSize) - 1) / int64(begin.ChunkSize))\n\t\t}\n\t\tstate := &recvFileStateMux{'),
             (MS, '\t\tif begin.ChunkSize == 0 && begin.FileSize > 0 {\n\t\t\treturn fmt.Errorf("invalid chunk size 0 for %s", begin.RelPath)\n\t\t}\n', '')]),
 dict(id='C15-wrong-assertion', props=['C15'], expect='R-PANIC-GUARD/assert/transfer.RecvManifestMultiStream$handleControl',
      edits=[(MS, '\t\tcase controlTypeResumeRequest:\n\t\t\treturn handleResumeRequest(ev.msg.(ResumeRequest))\n\t\tcase controlTypeFileEnd:\n\t\t\treturn handleFileEnd(ev.msg.(FileEnd))', '\t\tcase controlTypeResumeRequest, controlTypeFileEnd:\n\t\t\tif ev.typ == controlTypeResumeRequest {\n\t\t\t\treturn handleResumeRequest(ev.msg.(ResumeRequest))\n\t\t\t}\n\t\t\treturn handleFileEnd(ev.msg.(FileEnd))')]),
 dict(id='C15-chunklen-bound-dropped', props=['C15'], expect='R-PANIC-GUARD/slice-bound/transfer.RecvManifestMultiStream$5',
      edits=[(MS, '\t\t\t\tif state.chunkSize > 0 && chunkLen > state.chunkSize {\n\t\t\t\t\terr := fmt.Errorf("chunk length %d exceeds chunk size %d for %s", chunkLen, state.chunkSize, state.item.RelPath)\n\t\t\t\t\tfinalizeFile(state, false, err.Error())\n\t\t\t\t\tdataErrCh <- err\n\t\t\t\t\treturn\n\t\t\t\t}\n', ''),
             (MS, '\t\t\t\tbuf := bufPool.Get()\n\t\t\t\tif int(chunkLen) > len(buf) {\n\t\t\t\t\tbufPool.Put(buf)\n\t\t\t\t\tdataErrCh <- fmt.Errorf("chunk length %d exceeds buffer size %d", chunkLen, len(buf))\n\t\t\t\t\treturn\n\t\t\t\t}\n\t\t\t\tdeltaFn := opts.ProgressDeltaFn', '\t\t\t\tbuf := bufPool.Get()\n\t\t\t\tdeltaFn := opts.ProgressDeltaFn')]),
 dict(id='C15-benign-early-bound', props=['C15'], expect='SILENT',
      edits=[(CPR, '\tif relPathLen > maxRelPathLength {\n\t\treturn "", ErrRelPathTooLong\n\t}\n\trelPathBuf := make([]byte, relPathLen)', '\tif int(relPathLen) > maxRelPathLength {\n\t\treturn "", ErrRelPathTooLong\n\t}\n\trelPathBuf := make([]byte, relPathLen)')]),
]
MC = 'internal/transfer/multiconn.go'
MUTANTS += [
 dict(id='C01-size-check-dropped', props=['C01'], expect='R-BEGIN-MATCH/begin/transfer.RecvManifestMultiStream$handleFileBegin',
      edits=[(MS, '\t\tif expectedSize != int64(begin.FileSize) {\n\t\t\treturn fmt.Errorf("manifest mismatch: expected %s size %d, got %s size %d", begin.RelPath, expectedSize, begin.RelPath, begin.FileSize)\n\t\t}\n\t\tif begin.ChunkSize == 0', '\t\t_ = expectedSize\n\t\tif begin.ChunkSize == 0')]),
 dict(id='C01-unlisted-file-accepted', props=['C01'], expect='R-BEGIN-MATCH/begin/transfer.RecvManifestMultiStream$handleFileBegin',
      edits=[(MS, '\t\texpectedSize, ok := expectedFiles[begin.RelPath]\n\t\tif !ok {\n\t\t\treturn fmt.Errorf("manifest mismatch: unexpected file %s size %d", begin.RelPath, begin.FileSize)\n\t\t}\n\t\tif expectedSize != int64(begin.FileSize) {\n\t\t\treturn fmt.Errorf("manifest mismatch: expected %s size %d, got %s size %d", begin.RelPath, expectedSize, begin.RelPath, begin.FileSize)\n\t\t}\n\t\tif begin.ChunkSize == 0',
              '\t\texpectedSize, ok := expectedFiles[begin.RelPath]\n\t\tif ok && expectedSize != int64(begin.FileSize) {\n\t\t\treturn fmt.Errorf("manifest mismatch: expected %s size %d, got %s size %d", begin.RelPath, expectedSize, begin.RelPath, begin.FileSize)\n\t\t}\n\t\tif begin.ChunkSize == 0')]),
 dict(id='C01-vid-conn-zero', props=['C01'], expect='R-VID/vid/transfer.(*multiConn).AcceptStream',
      edits=[(MC, 'virtualID: makeVirtualStreamID(res.connIndex, streamID),', 'virtualID: makeVirtualStreamID(0, streamID),')]),
 dict(id='C01-vid-open-wrong-index', props=['C01'], expect='R-VID/vid/transfer.(*multiConn).OpenStream',
      edits=[(MC, '\tstream, err := m.conns[idx].OpenStream(ctx)', '\tstream, err := m.conns[(idx+1)%len(m.conns)].OpenStream(ctx)')]),
 dict(id='C01-remaining-double-count', props=['C01'], expect='R-BEGIN-MATCH/remaining-dec/once',
      edits=[(MS, '\t\tif s.sidecar.MarkCompleteIfUnset(idx) {\n\t\t\tif s.remaining > 0 {\n\t\t\t\ts.remaining--\n\t\t\t}\n\t\t\tadded = int64(chunkLen)\n\t\t}', '\t\tif s.sidecar.MarkCompleteIfUnset(idx) {\n\t\t\tadded = int64(chunkLen)\n\t\t}\n\t\tif s.remaining > 0 {\n\t\t\ts.remaining--\n\t\t}')]),
 dict(id='C01-remaining-unlocked', props=['C01', 'C02'], expect='R-LOCKSET/C0',
      edits=[(MS, 'func (s *recvFileStateMux) markEndReceived(frames uint32) bool {\n\ts.mu.Lock()\n\tdefer s.mu.Unlock()\n', 'func (s *recvFileStateMux) markEndReceived(frames uint32) bool {\n')]),
 dict(id='C01-benign-reorder-checks', props=['C01'], expect='SILENT',
      edits=[(MS, '\t\tfilePath := filepath.Join(baseDir, filepath.FromSlash(begin.RelPath))\n\t\tparentDir := filepath.Dir(filePath)\n\t\tif err := os.MkdirAll(parentDir, 0755); err != nil {\n\t\t\treturn fmt.Errorf("failed to create parent directory %s: %w", parentDir, err)\n\t\t}', '\t\tfilePath := filepath.Join(baseDir, filepath.FromSlash(begin.RelPath))\n\t\tdirOfFile := filepath.Dir(filePath)\n\t\tif err := os.MkdirAll(dirOfFile, 0755); err != nil {\n\t\t\treturn fmt.Errorf("failed to create parent directory %s: %w", dirOfFile, err)\n\t\t}')]),
]
# ---- round-1 rules (added after the first sub-agent seeds)
TS = 'cmd/thruserv/main.go'
MF = 'pkg/manifest/manifest.go'
MUTANTS += [
 dict(id='R1-remaining-zero-skipped', props=['C01'], expect='R-REMAINING/remaining/set/',
      edits=[(MS, 'skipped := uint32(loaded.bitmap.CountSet())', 'skipped := uint32(0)')]),
 dict(id='R1-remaining-dec-unconditional', props=['C01'], expect='R-REMAINING/remaining/dec/',
      edits=[(MS, '\t\tif s.sidecar.MarkCompleteIfUnset(idx) {\n\t\t\tif s.remaining > 0 {\n\t\t\t\ts.remaining--\n\t\t\t}\n\t\t\tadded = int64(chunkLen)\n\t\t}',
                  '\t\ts.sidecar.MarkCompleteIfUnset(idx)\n\t\tif s.remaining > 0 {\n\t\t\ts.remaining--\n\t\t}\n\t\tadded = int64(chunkLen)')]),
 dict(id='R1-remaining-benign-rename', props=['C01', 'C04'], expect='SILENT',
      edits=[(MS, 'skipped := uint32(loaded.bitmap.CountSet())\n\t\t\tif skipped > totalChunks {\n\t\t\t\tskipped = totalChunks\n\t\t\t}\n\t\t\tif totalChunks >= skipped {\n\t\t\t\tstate.remaining = totalChunks - skipped\n\t\t\t}\n\t\t\tstate.needEnd = skipped > 0',
                  'have := uint32(loaded.bitmap.CountSet())\n\t\t\tif have > totalChunks {\n\t\t\t\thave = totalChunks\n\t\t\t}\n\t\t\tif totalChunks >= have {\n\t\t\t\tstate.remaining = totalChunks - have\n\t\t\t}\n\t\t\tstate.needEnd = have > 0')]),
 # reclassified in round 12 (with the R-FULL-READ correction of DESIGN 8.22): the frame carries exactly the bytes read and the receiver
 # refuses a length other than the chunk's place takes, so a short read fails loudly on both sides
 dict(id='R1-fullread-check-dropped', props=['C02', 'C01'], expect='SILENT',
      edits=[(MS, '\t\t\t\tif n != int(chunkLen) {\n\t\t\t\t\tbufPool.Put(buf)\n\t\t\t\t\tif err == nil {\n\t\t\t\t\t\terr = io.ErrUnexpectedEOF\n\t\t\t\t\t}\n\t\t\t\t\tsetErr(fmt.Errorf("short read for %s: got %d want %d", state.item.RelPath, n, chunkLen))\n\t\t\t\t\treturn\n\t\t\t\t}\n', '')]),
 dict(id='R1-fullread-only-zero', props=['C02', 'C01'], expect='SILENT',
      edits=[(MS, '\t\t\t\tif n != int(chunkLen) {\n\t\t\t\t\tbufPool.Put(buf)\n\t\t\t\t\tif err == nil {', '\t\t\t\tif n == 0 {\n\t\t\t\t\tbufPool.Put(buf)\n\t\t\t\t\tif err == nil {')]),
 dict(id='R1-fullread-benign-less-than', props=['C02', 'C01'], expect='SILENT',
      edits=[(MS, '\t\t\t\tif n != int(chunkLen) {\n\t\t\t\t\tbufPool.Put(buf)\n\t\t\t\t\tif err == nil {', '\t\t\t\tif n < int(chunkLen) {\n\t\t\t\t\tbufPool.Put(buf)\n\t\t\t\t\tif err == nil {')]),
 dict(id='R1-fullread-benign-mirrored', props=['C02'], expect='SILENT',
      edits=[(MS, '\t\t\t\tif n != int(chunkLen) {\n\t\t\t\t\tbufPool.Put(buf)\n\t\t\t\t\tif err == nil {', '\t\t\t\tif int(chunkLen) != n {\n\t\t\t\t\tbufPool.Put(buf)\n\t\t\t\t\tif err == nil {')]),
 dict(id='R1-announce-clamp-removed', props=['C03'], expect='R-ANNOUNCE/announce/',
      edits=[(MS, '\tparallelStreams := currentParams.ParallelFiles\n\tif parallelStreams < 1 {\n\t\tparallelStreams = 1\n\t}\n\tresumeEnabled', '\tparallelStreams := currentParams.ParallelFiles\n\tresumeEnabled')]),
 dict(id='R1-announce-benign-alias', props=['C03'], expect='SILENT',
      edits=[(MS, 'if err := writeDataStreams(controlStream, DataStreams{Count: uint16(parallelStreams)}); err != nil {', 'announced := parallelStreams\n\tif err := writeDataStreams(controlStream, DataStreams{Count: uint16(announced)}); err != nil {')]),
 dict(id='R1-announce-benign-leq-zero', props=['C03'], expect='SILENT',
      edits=[(MS, '\tparallelStreams := currentParams.ParallelFiles\n\tif parallelStreams < 1 {\n\t\tparallelStreams = 1\n\t}\n\tresumeEnabled', '\tparallelStreams := currentParams.ParallelFiles\n\tif parallelStreams <= 0 {\n\t\tparallelStreams = 1\n\t}\n\tresumeEnabled')]),
 dict(id='R1-verify-exempt-resume-timeout', props=['C06'], expect='R-VERIFY-EXEMPT/verify-exempt/',
      edits=[(MS, 'verifyNeeded := verifyMode != "none" && verifiedChunk < totalChunks && hashAlg != HashAlgNone && !hashUnknown', 'verifyNeeded := verifyMode != "none" && verifiedChunk < totalChunks && hashAlg != HashAlgNone && !hashUnknown && resumeTimeout > 0')]),
 dict(id='R1-verify-exempt-benign-reorder', props=['C06'], expect='SILENT',
      edits=[(MS, 'verifyNeeded := verifyMode != "none" && verifiedChunk < totalChunks && hashAlg != HashAlgNone && !hashUnknown', 'verifyNeeded := !hashUnknown && hashAlg != HashAlgNone && verifyMode != "none" && verifiedChunk < totalChunks')]),
 dict(id='R1-verify-hash-call-removed', props=['C06'], expect='R-VERIFY-EXEMPT',
      edits=[(MS, '\t\t\t\t\tif verifyNeeded {\n\t\t\t\t\t\t// The plan is in force', '\t\t\t\t\tif verifyNeeded && false {\n\t\t\t\t\t\t// The plan is in force')]),
 dict(id='R1-verify-exempt-small-files', props=['C06'], expect='R-VERIFY-EXEMPT/verify-exempt/&&state.item.Size',
      edits=[(MS, 'verifyNeeded := verifyMode != "none" && verifiedChunk < totalChunks && hashAlg != HashAlgNone && !hashUnknown', 'verifyNeeded := verifyMode != "none" && verifiedChunk < totalChunks && hashAlg != HashAlgNone && !hashUnknown && state.item.Size > 1<<20')]),
 dict(id='R1-walk-skipall-on-symlink', props=['C13'], expect='R-WALK-RETURNS/walk-return/manifest.Scan',
      edits=[(MF, '\t\tif !d.IsDir() && !d.Type().IsRegular() {\n\t\t\treturn nil\n\t\t}', '\t\tif !d.IsDir() && !d.Type().IsRegular() {\n\t\t\treturn filepath.SkipAll\n\t\t}')]),
 dict(id='R1-bucket-benign-inline-elapsed', props=['C14'], expect='SILENT',
      edits=[(TS, '\telapsed := now.Sub(b.last).Seconds()\n\tb.last = now\n\tb.tokens += elapsed * b.rate', '\tb.tokens += now.Sub(b.last).Seconds() * b.rate\n\tb.last = now')]),
 dict(id='R1-bucket-cap-removed', props=['C14'], expect='R-BUCKET/bucket/cap',
      edits=[(TS, '\tif b.tokens > b.burst {\n\t\tb.tokens = b.burst\n\t}\n', '')]),
 dict(id='R1-bucket-not-paid', props=['C14'], expect='R-BUCKET/bucket/grant',
      edits=[(TS, '\tb.tokens -= 1\n\treturn true', '\treturn true')]),
 dict(id='R1-bucket-threshold-zero', props=['C14'], expect='R-BUCKET/bucket/grant',
      edits=[(TS, '\tif b.tokens < 1 {\n\t\treturn false\n\t}', '\tif b.tokens < 0 {\n\t\treturn false\n\t}')]),
 dict(id='R1-zero-off-benign-helper-all-guarded', props=['C16', 'C14'], expect='SILENT',
      edits=[(TS, '\tvar writeMu sync.Mutex\n\tif limits.wsIdleTimeout > 0 {\n\t\tconn.SetReadDeadline(time.Now().Add(limits.wsIdleTimeout))\n', '\tvar writeMu sync.Mutex\n\textendIdle := func() {\n\t\tconn.SetReadDeadline(time.Now().Add(limits.wsIdleTimeout))\n\t}\n\tif limits.wsIdleTimeout > 0 {\n\t\textendIdle()\n'),
             (TS, '\t\tif limits.wsIdleTimeout > 0 {\n\t\t\tconn.SetReadDeadline(time.Now().Add(limits.wsIdleTimeout))\n\t\t}\n\n\t\t// Every frame counts', '\t\tif limits.wsIdleTimeout > 0 {\n\t\t\textendIdle()\n\t\t}\n\n\t\t// Every frame counts')]),
 dict(id='R1-truncate-removed', props=['C01'], expect='/sized',
      edits=[(MS, 'if err := f.Truncate(int64(begin.FileSize)); err != nil {', 'if err := error(nil); err != nil {')]),
 dict(id='R1-success-on-end-alone', props=['C02'], expect='all-complete',
      edits=[(MS, 'if endReceived && completedCount >= totalFiles {', 'if endReceived || completedCount >= totalFiles {')]),
 dict(id='R1-hub-writer-async', props=['C10'], expect='consumer-in-order',
      edits=[('internal/peers/hub.go', '\t\tfor env := range ch {\n\t\t\tif err := send(env); err != nil {\n\t\t\t\t// If send fails, stop consuming from channel\n\t\t\t\treturn\n\t\t\t}\n\t\t}', '\t\tfor env := range ch {\n\t\t\tgo send(env)\n\t\t}')]),
]
MUTANTS += [
 dict(id='R1-loadvalid-benign-predicate-method', props=['C04', 'C06'], expect='SILENT',
      edits=[(SC, '\tsc, err := LoadSidecar(path)\n\tif err == nil {\n\t\tif sc.ChunkSize != chunkSize || sc.FileSize != fileSize || sc.FileID != fileID {', '\tsc, err := LoadSidecar(path)\n\tif err == nil {\n\t\tif !sc.describes(fileID, fileSize, chunkSize) {'),
             (SC, 'func LoadOrCreateSidecarWithFallback(', 'func (s *Sidecar) describes(fileID string, fileSize int64, chunkSize uint32) bool {\n\tif s.FileID != fileID || s.FileSize != fileSize {\n\t\treturn false\n\t}\n\treturn s.ChunkSize == chunkSize\n}\n\nfunc LoadOrCreateSidecarWithFallback(')]),
 dict(id='R1-loadvalid-predicate-method-wrong-arg', props=['C04'], expect='R-LOAD-VALID/identity/transfer.LoadOrCreateSidecar#1/FileSize',
      edits=[(SC, '\tsc, err := LoadSidecar(path)\n\tif err == nil {\n\t\tif sc.ChunkSize != chunkSize || sc.FileSize != fileSize || sc.FileID != fileID {', '\tsc, err := LoadSidecar(path)\n\tif err == nil {\n\t\tif !sc.describes(fileID, sc.FileSize, chunkSize) {'),
             (SC, 'func LoadOrCreateSidecarWithFallback(', 'func (s *Sidecar) describes(fileID string, fileSize int64, chunkSize uint32) bool {\n\tif s.FileID != fileID || s.FileSize != fileSize {\n\t\treturn false\n\t}\n\treturn s.ChunkSize == chunkSize\n}\n\nfunc LoadOrCreateSidecarWithFallback(')]),
]
MUTANTS += [
 dict(id='F19-remove-after-create', props=['C05', 'C06'], expect='R-FRESH-FILE/fresh/transfer.RecvManifestMultiStream$handleFileBegin#1&&F19',
      edits=[(MS, '\t\tif opts.Resume && !dataFileIntact {\n\t\t\t// Drop the stale metadata before the file is recreated at full size:\n\t\t\t// once that file exists it is indistinguishable from an intact one.\n\t\t\t_ = os.Remove(SidecarPath(baseDir, "", sidecarIdentifier(item)))\n\t\t\tif rootedDir != baseDir {\n\t\t\t\t_ = os.Remove(SidecarPath(rootedDir, "", sidecarIdentifier(item)))\n\t\t\t}\n\t\t}\n', ''),
             (MS, '\t\t\tloaded, err := LoadOrCreateSidecarWithFallback(primary, fallback, item.ID, int64(begin.FileSize), begin.ChunkSize)\n\t\t\tif err != nil {\n\t\t\t\t_ = f.Close()', '\t\t\tif !dataFileIntact {\n\t\t\t\t_ = os.Remove(primary)\n\t\t\t\tif fallback != "" {\n\t\t\t\t\t_ = os.Remove(fallback)\n\t\t\t\t}\n\t\t\t}\n\t\t\tloaded, err := LoadOrCreateSidecarWithFallback(primary, fallback, item.ID, int64(begin.FileSize), begin.ChunkSize)\n\t\t\tif err != nil {\n\t\t\t\t_ = f.Close()')]),
]
HUBF = 'internal/peers/hub.go'
MUTANTS += [
 dict(id='F14b-admission-nil', props=['C14'], expect='R-CHECK-ACT/split/cmd/thruserv.handleWebSocket/maxReceiversPerSender',
      edits=[(TS, 'hub.AddIf(sess.ID, peer, sendFunc, func() { _ = conn.Close() }, admit)', 'hub.AddIf(sess.ID, peer, sendFunc, func() { _ = conn.Close() }, nil)\n\t_ = admit')]),
 dict(id='F14b-admission-ignores-limit', props=['C14'], expect='R-CHECK-ACT/split/cmd/thruserv.handleWebSocket/maxReceiversPerSender',
      edits=[(TS, '\t\treturn receivers < limits.maxReceiversPerSender\n\t}\n\tremovePeer, admitted', '\t\treturn receivers < 1<<30\n\t}\n\tremovePeer, admitted'),
             (TS, '\t\tif limits.maxReceiversPerSender <= 0 || role != "receiver" {\n\t\t\treturn true\n\t\t}\n\t\treceivers := 0\n\t\tfor _, p := range current {', '\t\tif role != "receiver" {\n\t\t\treturn true\n\t\t}\n\t\treceivers := 0\n\t\tfor _, p := range current {')]),
 dict(id='F14b-admit-outside-lock', props=['C14'], expect='R-CHECK-ACT/split/cmd/thruserv.handleWebSocket/maxReceiversPerSender',
      edits=[(HUBF, '\th.mu.Lock()\n\tif admit != nil {\n\t\tcurrent := make([]Peer, 0, len(h.sessions[sessionID]))\n\t\tfor _, other := range h.sessions[sessionID] {\n\t\t\tif other.peer.PeerID != p.PeerID {\n\t\t\t\tcurrent = append(current, other.peer)\n\t\t\t}\n\t\t}\n\t\tif !admit(current) {\n\t\t\th.mu.Unlock()\n\t\t\tpc.closeSend()\n\t\t\treturn func() {}, false\n\t\t}\n\t}\n',
                    '\tif admit != nil {\n\t\th.mu.RLock()\n\t\tcurrent := make([]Peer, 0, len(h.sessions[sessionID]))\n\t\tfor _, other := range h.sessions[sessionID] {\n\t\t\tif other.peer.PeerID != p.PeerID {\n\t\t\t\tcurrent = append(current, other.peer)\n\t\t\t}\n\t\t}\n\t\th.mu.RUnlock()\n\t\tif !admit(current) {\n\t\t\tpc.closeSend()\n\t\t\treturn func() {}, false\n\t\t}\n\t}\n\th.mu.Lock()\n')]),
 dict(id='F14b-impure-admission-under-lock', props=['C11'], expect='R-SEND-CLOSE/under-lock/peers.(*Hub).AddIf',
      edits=[(TS, '\t\tif limits.maxReceiversPerSender <= 0 || role != "receiver" {\n\t\t\treturn true\n\t\t}\n\t\treceivers := 0', '\t\tif limits.maxReceiversPerSender <= 0 || role != "receiver" {\n\t\t\treturn true\n\t\t}\n\t\t_ = conn.WriteJSON(current)\n\t\treceivers := 0')]),
 dict(id='F14b-reject-path-after-link', props=['C11', 'C10'], expect='R-SEND-CLOSE/close/peers.(*Hub).AddIf',
      edits=[(HUBF, '\t\tif !admit(current) {\n\t\t\th.mu.Unlock()\n\t\t\tpc.closeSend()\n\t\t\treturn func() {}, false\n\t\t}\n\t}\n\tif h.sessions[sessionID] == nil {\n\t\th.sessions[sessionID] = make(map[string]*peerConnection)\n\t}',
                    '\t\tif h.sessions[sessionID] == nil {\n\t\t\th.sessions[sessionID] = make(map[string]*peerConnection)\n\t\t}\n\t\th.sessions[sessionID][p.ConnID] = pc\n\t\tif !admit(current) {\n\t\t\th.mu.Unlock()\n\t\t\tpc.closeSend()\n\t\t\treturn func() {}, false\n\t\t}\n\t}\n\tif h.sessions[sessionID] == nil {\n\t\th.sessions[sessionID] = make(map[string]*peerConnection)\n\t}')]),
]
# ---- round-2 rules
ICEF = 'internal/ice/ice.go'
SS2 = 'internal/app/snapshot_sender.go'
MUTANTS += [
 dict(id='R2-fserr-benign-split-test', props=['C02'], expect='SILENT',
      edits=[(MS, '\t\tdirPath := filepath.Join(baseDir, filepath.FromSlash(item.RelPath))\n\t\tif err := os.MkdirAll(dirPath, 0755); err != nil {\n\t\t\treturn m, fmt.Errorf("failed to create directory %s: %w", dirPath, err)\n\t\t}\n\t}\n\n\texpectedFiles',
                  '\t\tdirPath := filepath.Join(baseDir, filepath.FromSlash(item.RelPath))\n\t\tmkErr := os.MkdirAll(dirPath, 0755)\n\t\tif mkErr != nil {\n\t\t\treturn m, fmt.Errorf("failed to create directory %s: %w", dirPath, mkErr)\n\t\t}\n\t}\n\n\texpectedFiles')]),
 dict(id='R2-fserr-discarded', props=['C02'], expect='R-FS-ERR/fs-err/',
      edits=[(MS, '\t\tif err := os.MkdirAll(parentDir, 0755); err != nil {\n\t\t\treturn fmt.Errorf("failed to create parent directory %s: %w", parentDir, err)\n\t\t}\n\t\t// Resume metadata', '\t\t_ = os.MkdirAll(parentDir, 0755)\n\t\t// Resume metadata')]),
 dict(id='R2-relock-method', props=['C12'], expect='R-NO-RELOCK/relock/',
      edits=[(SS2, '\t\tqueuedMsgs = s.collectQueuedUpdatesLocked()\n\t\ts.mu.Unlock()\n\t\ts.emitChange()\n\t\ts.sendQueuedUpdates(queuedMsgs)\n\n\t\ts.sendTransferStart(peerID)', '\t\tqueuedMsgs = s.collectQueuedUpdatesLocked()\n\t\ts.maybeStartTransfers(ctx)\n\t\ts.mu.Unlock()\n\t\ts.emitChange()\n\t\ts.sendQueuedUpdates(queuedMsgs)\n\n\t\ts.sendTransferStart(peerID)')]),
 dict(id='R2-session-drop-benign-inline-len', props=['C11'], expect='SILENT',
      edits=[(HUBF, '\t\tif current, ok := h.sessions[sessionID]; ok && len(current) == 0 {', '\t\tif _, ok := h.sessions[sessionID]; ok && len(h.sessions[sessionID]) == 0 {')]),
 dict(id='R2-session-drop-no-test', props=['C11'], expect='R-SESSION-DROP/session-drop/',
      edits=[(HUBF, '\t\tif current, ok := h.sessions[sessionID]; ok && len(current) == 0 {', '\t\tif _, ok := h.sessions[sessionID]; ok {')]),
 dict(id='R2-dequeue-benign-swap-tests', props=['C12'], expect='SILENT',
      edits=[(SS2, '\t\tif state == nil {\n\t\t\ts.mu.Unlock()\n\t\t\tcontinue\n\t\t}\n\t\tif state.Status == ReceiverStatusTransferring {\n\t\t\ts.mu.Unlock()\n\t\t\tcontinue\n\t\t}', '\t\tif state == nil || state.Status == ReceiverStatusTransferring {\n\t\t\ts.mu.Unlock()\n\t\t\tcontinue\n\t\t}')]),
 dict(id='R2-dequeue-drop-failed', props=['C12'], expect='R-DEQUEUE/dequeue/exit',
      edits=[(SS2, '\t\tif state.Status == ReceiverStatusTransferring {\n\t\t\ts.mu.Unlock()\n\t\t\tcontinue\n\t\t}\n\t\tstate.Status = ReceiverStatusTransferring', '\t\tif state.Status == ReceiverStatusTransferring || state.Status == ReceiverStatusFailed {\n\t\t\ts.mu.Unlock()\n\t\t\tcontinue\n\t\t}\n\t\tstate.Status = ReceiverStatusTransferring')]),
 dict(id='R2-turn-benign-mac-passed-fresh', props=['C16'], expect='SILENT',
      edits=[(TS, '\tpassword := buildTurnPassword(t.secret, username)', '\tpassword := buildTurnPassword(hmac.New(sha1.New, t.secret), username)'),
             (TS, 'func buildTurnPassword(secret []byte, username string) string {\n\tmac := hmac.New(sha1.New, secret)\n', 'func buildTurnPassword(mac hash.Hash, username string) string {\n'),
             (TS, '\t"fmt"\n\t"log/slog"', '\t"fmt"\n\t"hash"\n\t"log/slog"')]),
 dict(id='R2-turn-benign-reset', props=['C16'], expect='SILENT',
      edits=[(TS, '\tmac := hmac.New(sha1.New, secret)\n\t_, _ = mac.Write([]byte(username))', '\tmac := hmac.New(sha1.New, secret)\n\tmac.Reset()\n\t_, _ = mac.Write([]byte(username))')]),
 dict(id='R2-winner-listen-early-addr', props=['C09'], expect='R-WINNER/accept-side/full-handshake-listeners',
      edits=[('internal/quictransport/quic.go', 'listener, err := transport.Listen(tlsConfig, config)', 'listener0, err := transport.ListenEarly(tlsConfig, config)\n\tif err == nil {\n\t\t_ = listener0.Close()\n\t}\n\tlistener, err := transport.Listen(tlsConfig, config)')]),
 dict(id='R2-codec-domain-benign-writer-enforces', props=['C18'], expect='SILENT',
      edits=[(CP, 'func writeFileDone(s Stream, msg FileDone) error {\n', 'func writeFileDone(s Stream, msg FileDone) error {\n\tif len(msg.ErrMsg) > 60000 {\n\t\treturn fmt.Errorf("error text too long")\n\t}\n')]),
 dict(id='R2-verify-loop-benign-continue-empty-id', props=['C07'], expect='SILENT',
      edits=[(MP, '\t\tif item.ID != "" {\n\t\t\tif err := validateFilename(item.ID); err != nil {\n\t\t\t\treturn fmt.Errorf("invalid manifest item id %q: %w", item.ID, err)\n\t\t\t}\n\t\t}', '\t\tif item.ID == "" {\n\t\t\tcontinue\n\t\t}\n\t\tif err := validateFilename(item.ID); err != nil {\n\t\t\treturn fmt.Errorf("invalid manifest item id %q: %w", item.ID, err)\n\t\t}')]),
 dict(id='R2-cleanup-benign-nested-tests', props=['C14'], expect='SILENT',
      edits=[(TS, '\t\t\tif role == "sender" && !senderStillConnected {\n\t\t\t\tstore.Delete(sess.ID)\n\t\t\t\tsessionEnded = true\n\t\t\t}\n', '\t\t\tif role == "sender" {\n\t\t\t\tif !senderStillConnected {\n\t\t\t\t\tstore.Delete(sess.ID)\n\t\t\t\t\tsessionEnded = true\n\t\t\t\t}\n\t\t\t}\n')]),
 dict(id='R2-atomic-read-tmp-open', props=['C05'], expect='R-ATOMIC-REPLACE/sidecar-read/',
      edits=[(SC, '\tsc, err := LoadSidecar(path)\n\tif err == nil {\n\t\tif sc.ChunkSize != chunkSize', '\tsc, err := LoadSidecar(path)\n\tif err != nil {\n\t\tsc, err = LoadSidecar(path + ".bak")\n\t}\n\tif err == nil {\n\t\tif sc.ChunkSize != chunkSize')]),
]
# ---- F20..F24 (reverts and variants)
MUTANTS += [
 dict(id='F20-undo-T1-resendPending', props=['C17'], expect='R-DISPATCH/end-once/transfer.(*sendFileState).markChunkDone#1/guard/not-resendPending',
      edits=[(MS, '\tif s.inFlight > 0 {\n\t\ts.inFlight--\n\t}\n\tif s.verifyPending || s.resendPending {', '\tif s.inFlight > 0 {\n\t\ts.inFlight--\n\t}\n\tif s.verifyPending {')]),
 dict(id='F20-undo-hold-while-verifying', props=['C06'], expect='R-RESEND-GATE/resend-gate/hand-out',
      edits=[(MS, '\tif s.verifyPending {\n\t\t// Nothing of this file goes out before the verdict', '\tif false {\n\t\t// Nothing of this file goes out before the verdict')]),
 dict(id='F20-frame-not-counted', props=['C06'], expect='R-RESEND-GATE/resend-gate/frame-counted',
      edits=[(MS, '\t\t\t\tbufPool.Put(buf)\n\t\t\t\tstate.noteFrameSent()\n', '\t\t\t\tbufPool.Put(buf)\n')]),
 dict(id='F20-verdict-ignores-frames', props=['C06', 'C01'], expect='R-RESEND-GATE/resend-gate/verdict/return',
      edits=[(MS, '\treturn s.endReceived && s.framesRecv >= s.endFrames\n', '\treturn s.endReceived\n')]),
 dict(id='F20-needend-never-set', props=['C06'], expect='R-RESEND-GATE/resend-gate/need-end',
      edits=[(MS, '\t\t\tstate.needEnd = skipped > 0\n', '')]),
 dict(id='F20-done-bypasses-verdict', props=['C06'], expect='R-RESEND-GATE/resend-gate/verdict-used',
      edits=[(MS, '\ts.framesRecv++\n\treturn s.completeLocked(), added', '\ts.framesRecv++\n\treturn s.remaining == 0, added')]),
 dict(id='F24-undo-signalled-set', props=['C03'], expect='R-BOUNDED-STOP/wake-up/wait-consults-signalled',
      edits=[(MS, '\tif _, ok := r.signaled[id]; ok {\n\t\tr.mu.Unlock()\n\t\treturn true\n\t}\n', '')]),
 dict(id='F24-check-outside-lock', props=['C03'], expect='R-BOUNDED-STOP/wake-up/wait-consults-signalled',
      edits=[(MS, '\tch := make(chan struct{})\n\tr.mu.Lock()\n\tif _, ok := r.signaled[id]; ok {\n\t\tr.mu.Unlock()\n\t\treturn true\n\t}\n\tr.waiters[id]', '\tch := make(chan struct{})\n\tr.mu.Lock()\n\t_, ok := r.signaled[id]\n\tr.mu.Unlock()\n\tif ok {\n\t\treturn true\n\t}\n\tr.mu.Lock()\n\tr.waiters[id]')]),
 dict(id='F22-undo-wait-in-handler', props=['C03', 'C15'], expect='R-BOUNDED-STOP/dispatcher/never-waits-for-a-file',
      edits=[(MS, '\t\t\treturn fmt.Errorf("resume request for unknown file %d", req.StreamID)\n\t\t}\n\t\tif req.FileID != ""', '\t\t\tif !fileReady.wait(recvCtx, req.StreamID) {\n\t\t\t\treturn fmt.Errorf("resume request for unknown file %d", req.StreamID)\n\t\t\t}\n\t\t\tstateMu.Lock()\n\t\t\tstate = stateByKey[req.StreamID]\n\t\t\tstateMu.Unlock()\n\t\t}\n\t\tif req.FileID != ""')]),
 dict(id='F21-undo-end-continues', props=['C15', 'C02'], expect='R-BOUNDED-STOP/end/returns',
      edits=[(MS, '\t\t\t\treturn m, fmt.Errorf("end of transfer announced with %d of %d files complete", completed, totalFiles)\n', '\t\t\t\tcontinue\n')]),
 dict(id='F21-count-after-ack', props=['C15'], expect='R-BOUNDED-STOP/end/counted-before-ack',
      edits=[(MS, '\t\tstatsMu.Lock()\n\t\tif ok {\n\t\t\tcompletedCount++\n\t\t}\n\t\tif activeCount > 0 {', '\t\tstatsMu.Lock()\n\t\tif activeCount > 0 {'),
             (MS, '\t\tstatsMu.Lock()\n\t\tremainingBytes -= state.item.Size\n\t\tactive := activeCount\n', '\t\tstatsMu.Lock()\n\t\tif ok {\n\t\t\tcompletedCount++\n\t\t}\n\t\tremainingBytes -= state.item.Size\n\t\tactive := activeCount\n')]),
 dict(id='F23-undo-eof-silent', props=['C02', 'C15'], expect='R-BOUNDED-STOP/acks/',
      edits=[(MS, '\t\t\t\tif errors.Is(err, context.Canceled) {\n\t\t\t\t\treturn\n\t\t\t\t}\n\t\t\t\tif errors.Is(err, io.EOF) {', '\t\t\t\tif errors.Is(err, context.Canceled) || errors.Is(err, io.EOF) {\n\t\t\t\t\treturn\n\t\t\t\t}\n\t\t\t\tif errors.Is(err, io.EOF) {')]),
]
MUTANTS += [
 dict(id='F25-undo-waiter-before-add', props=['C03', 'C09'], expect='R-WG-ORDER/wg-order/',
      edits=[(ICEF, '\t\tfor _, c := range cands {\n\t\t\twg.Add(1)\n\t\t\tdials.Add(1)\n\t\t\tgo dialCandidate(c)\n\t\t}\n', ''),
             (ICEF, '\t\t\tclose(allDone)\n\t\t}()\n', '\t\t\tclose(allDone)\n\t\t}()\n\n\t\tfor _, c := range cands {\n\t\t\twg.Add(1)\n\t\t\tdials.Add(1)\n\t\t\tgo dialCandidate(c)\n\t\t}\n')]),
 dict(id='F25-benign-add-all-first', props=['C03', 'C09'], expect='SILENT',
      edits=[(ICEF, '\t\tfor _, c := range cands {\n\t\t\twg.Add(1)\n\t\t\tdials.Add(1)\n\t\t\tgo dialCandidate(c)\n\t\t}\n', '\t\twg.Add(len(cands))\n\t\tdials.Add(len(cands))\n\t\tfor _, c := range cands {\n\t\t\tgo dialCandidate(c)\n\t\t}\n')]),
]
# ---- round-3 rules
MUTANTS += [
 dict(id='R3-successgate-benign-predicate-helper', props=['C02', 'C03', 'C01'], expect='SILENT',
      edits=[(MS, '\tendReceived := false\n\tfor {\n\t\tselect {\n\t\tcase <-recvCtx.Done():', '\tallDone := func() bool {\n\t\tstatsMu.Lock()\n\t\tdefer statsMu.Unlock()\n\t\treturn completedCount >= totalFiles\n\t}\n\tendReceived := false\n\tfor {\n\t\tselect {\n\t\tcase <-recvCtx.Done():'),
             (MS, '\t\tcase <-doneCh:\n\t\t\tif endReceived && completedCount >= totalFiles {', '\t\tcase <-doneCh:\n\t\t\tif endReceived && allDone() {'),
             (MS, '\t\t\t\tif isGracefulRemoteClose(err) && completedCount >= totalFiles {\n\t\t\t\t\treturn m, nil\n\t\t\t\t}\n\t\t\t\treturn m, err\n\t\t\t}\n\t\t\tif completedCount >= totalFiles {', '\t\t\t\tif isGracefulRemoteClose(err) && allDone() {\n\t\t\t\t\treturn m, nil\n\t\t\t\t}\n\t\t\t\treturn m, err\n\t\t\t}\n\t\t\tif allDone() {')]),
 dict(id='R3-ctxscope-benign-derived-timeout', props=['C02'], expect='SILENT',
      edits=[(MS, '\t\t\t\tstate, chunkIndex, chunkLen, ok := nextTask(transferCtx)', '\t\t\t\ttaskCtx, taskCancel := context.WithTimeout(transferCtx, time.Hour)\n\t\t\t\tstate, chunkIndex, chunkLen, ok := nextTask(taskCtx)\n\t\t\t\ttaskCancel()')]),
 dict(id='R3-inflight-benign-early-decrement', props=['C17'], expect='SILENT',
      edits=[(MS, '\tif s.inFlight > 0 {\n\t\ts.inFlight--\n\t}\n\tif s.verifyPending || s.resendPending {\n\t\treturn false\n\t}', '\tif s.inFlight != 0 {\n\t\ts.inFlight -= 1\n\t}\n\tif s.verifyPending || s.resendPending {\n\t\treturn false\n\t}')]),
 dict(id='R3-readloop-benign-plain-err-exit', props=['C15'], expect='SILENT',
      edits=[('internal/app/dumb_transfer.go', '\t\tif err == io.EOF {\n\t\t\tbreak\n\t\t}\n\t\tif err != nil {\n\t\t\treturn "", fmt.Errorf("failed to receive file: %w", err)\n\t\t}\n\t}\n\tif received != total {', '\t\tif err != nil {\n\t\t\tif err == io.EOF {\n\t\t\t\tbreak\n\t\t\t}\n\t\t\treturn "", fmt.Errorf("failed to receive file: %w", err)\n\t\t}\n\t}\n\tif received != total {')]),
 dict(id='R3-turnurl-benign-literal-with-query', props=['C16'], expect='SILENT',
      edits=[(TS, '\tu.User = url.UserPassword(username, password)\n\treturn u.String(), nil', '\tout := url.URL{Scheme: u.Scheme, User: url.UserPassword(username, password), Host: u.Host, Path: u.Path, RawQuery: u.RawQuery}\n\treturn out.String(), nil')]),
 dict(id='R3-dircreated-benign-continue-on-file-item', props=['C02'], expect='SILENT',
      edits=[(MS, '\tfor _, item := range m.Items {\n\t\tif !item.IsDir {\n\t\t\tcontinue\n\t\t}\n\t\tdirPath := filepath.Join(baseDir, filepath.FromSlash(item.RelPath))\n\t\tif err := os.MkdirAll(dirPath, 0755); err != nil {\n\t\t\treturn m, fmt.Errorf("failed to create directory %s: %w", dirPath, err)\n\t\t}\n\t}\n\n\texpectedFiles', '\tfor _, item := range m.Items {\n\t\tif item.IsDir {\n\t\t\tdirPath := filepath.Join(baseDir, filepath.FromSlash(item.RelPath))\n\t\t\tif err := os.MkdirAll(dirPath, 0755); err != nil {\n\t\t\t\treturn m, fmt.Errorf("failed to create directory %s: %w", dirPath, err)\n\t\t\t}\n\t\t}\n\t}\n\n\texpectedFiles')]),
 dict(id='R3-peerid-delete-benign-direct-index-compare', props=['C10', 'C11'], expect='SILENT',
      edits=[(HUBF, '\t\tif peerIDMap, exists := h.byPeerID[sessionID]; exists {\n\t\t\tif peerIDMap[p.PeerID] == p.ConnID {\n\t\t\t\tdelete(peerIDMap, p.PeerID)\n\t\t\t}\n\t\t}', '\t\tif h.byPeerID[sessionID][p.PeerID] == p.ConnID {\n\t\t\tdelete(h.byPeerID[sessionID], p.PeerID)\n\t\t}')]),
]
MUTANTS += [
 dict(id='F26-undo-delete-for-any-sender-socket', props=['C14'], expect='R-SESSION-LIFE/host-cleanup/delete-only-without-sender',
      edits=[(TS, '\t\tif role == "sender" && !senderStillConnected {', '\t\tif role == "sender" && (!senderStillConnected || role != "") {')]),
 dict(id='F26-undo-peerleft-always', props=['C14'], expect='R-SESSION-LIFE/host-cleanup/peer-left-only-when-gone',
      edits=[(TS, '\t\tif peerStillConnected {\n\t\t\treturn\n\t\t}\n', '\t\tif peerStillConnected && role == "" {\n\t\t\treturn\n\t\t}\n')]),
 dict(id='F26-hub-asked-before-own-removal', props=['C14'], expect='R-SESSION-LIFE/host-cleanup/',
      edits=[(TS, '\tdefer func() {\n\t\tremovePeer()\n', '\tdefer removePeer()\n\tdefer func() {\n')]),
 dict(id='F26-undo-replaced-not-closed', props=['C10', 'C11'], expect='R-REPLACED-CLOSED/replaced-closed/AddIf',
      edits=[(HUBF, '\t\treplaced.closeConn()\n', '\t\t_ = replaced\n')]),
]
MUTANTS += [
 dict(id='F27-undo-cleanup-drops-queued', props=['C12'], expect='R-RECEIVER-STATE/idle-cleanup/delete',
      edits=[(SS2, '\t\tif state.Status == ReceiverStatusTransferring || state.Status == ReceiverStatusQueued {\n\t\t\tcontinue\n\t\t}', '\t\tif state.Status == ReceiverStatusTransferring {\n\t\t\tcontinue\n\t\t}')]),
 dict(id='F27-undo-joined-unconditional', props=['C12'], expect='R-RECEIVER-STATE/re-announce/',
      edits=[(SS2, '\tif state.Status != ReceiverStatusQueued && state.Status != ReceiverStatusTransferring {\n\t\tstate.Status = ReceiverStatusJoined\n\t}', '\tstate.Status = ReceiverStatusJoined')]),
 dict(id='F27-undo-dispatch-on-own-ctx', props=['C12'], expect='R-RECEIVER-STATE/dispatch-context/',
      edits=[(SS2, '\ts.maybeStartTransfers(slot.parent)\n}', '\ts.maybeStartTransfers(ctx)\n}')]),
 dict(id='F27-benign-switch-form', props=['C12'], expect='SILENT',
      edits=[(SS2, '\tif state.Status != ReceiverStatusQueued && state.Status != ReceiverStatusTransferring {\n\t\tstate.Status = ReceiverStatusJoined\n\t}', '\tif state.Status == ReceiverStatusQueued || state.Status == ReceiverStatusTransferring {\n\t\t// keeps its state\n\t} else {\n\t\tstate.Status = ReceiverStatusJoined\n\t}')]),
]

# --- F28 (C09 accepting side): R-ACCEPT-COMMIT ---
_OFFER_AUTH = '\t\tauthCtx, authCancel := context.WithTimeout(baseCtx, 10*time.Second)\n\t\terr := authenticateTransport(authCtx, conn, r.joinCode, authRoleReceive)\n\t\tauthCancel()\n\t\tif err != nil {\n\t\t\tconn.Close()\n\t\t\tselect {\n\t\t\tcase authFailCh <- err:\n\t\t\tdefault:\n\t\t\t}\n\t\t\treturn\n\t\t}\n'
_OFFER_CAS = '\t\tif !primaryChosen.CompareAndSwap(false, true) {\n'
_SPARE = '\t\t\tselect {\n\t\t\tcase spareCh <- conn:\n\t\t\tdefault:\n\t\t\t\tconn.Close()\n\t\t\t}\n\t\t\treturn\n\t\t}\n'
_EXTRA_GO = '\t\t\tgo func() {\n\t\t\t\tif err := authenticateTransport(acceptCtx, conn, r.joinCode, authRoleReceive); err != nil {\n\t\t\t\t\tconn.Close()\n\t\t\t\t\treport(extraResult{err: err})\n\t\t\t\t\treturn\n\t\t\t\t}\n\t\t\t\treport(extraResult{conn: conn})\n\t\t\t}()\n'
MUTANTS += [
 dict(id='F28-undo-commit-before-auth', props=['C09'], expect='R-ACCEPT-COMMIT/commit-after-auth/',
      edits=[(SR, _OFFER_AUTH, '\t\tvar err error\n\t\tif err != nil {\n\t\t\tconn.Close()\n\t\t\tselect {\n\t\t\tcase authFailCh <- err:\n\t\t\tdefault:\n\t\t\t}\n\t\t\treturn\n\t\t}\n')]),
 dict(id='F28-elect-before-auth', props=['C09'], expect='R-ACCEPT-COMMIT/elect-after-auth/',
      edits=[(SR, _OFFER_AUTH + _OFFER_CAS + '\t\t\t// The sender authenticates on its extra connections too, and dials them\n\t\t\t// as soon as the primary one is authenticated: one that gets here before\n\t\t\t// the accept loop has stopped is kept for acceptExtraConns.\n' + _SPARE,
              _OFFER_CAS + '\t\t\tconn.Close()\n\t\t\treturn\n\t\t}\n' + _OFFER_AUTH)]),
 dict(id='F28-no-election', props=['C09'], expect='R-ACCEPT-COMMIT/elected/',
      edits=[(SR, _OFFER_CAS, '\t\tif primaryChosen.Load() {\n'),
             (SR, '\t\tr.logger.Info(via+" won the race", "addr", conn.RemoteAddr())\n', '\t\tprimaryChosen.Store(true)\n\t\tr.logger.Info(via+" won the race", "addr", conn.RemoteAddr())\n')]),
 dict(id='F28-auth-failure-leaks-conn', props=['C09'], expect='R-ACCEPT-COMMIT/owned/',
      edits=[(SR, '\t\tif err != nil {\n\t\t\tconn.Close()\n\t\t\tselect {\n\t\t\tcase authFailCh <- err:', '\t\tif err != nil {\n\t\t\tselect {\n\t\t\tcase authFailCh <- err:')]),
 dict(id='F28-authenticated-loser-closed', props=['C09'], expect='R-ACCEPT-COMMIT/authenticated-kept/',
      edits=[(SR, _SPARE, '\t\t\tconn.Close()\n\t\t\treturn\n\t\t}\n')]),
 dict(id='F28-extras-stop-at-first-failure', props=['C09'], expect='R-ACCEPT-COMMIT/failure-continues/',
      edits=[(SR, _EXTRA_GO, '\t\t\tif err := authenticateTransport(acceptCtx, conn, r.joinCode, authRoleReceive); err != nil {\n\t\t\t\tconn.Close()\n\t\t\t\treport(extraResult{err: err})\n\t\t\t\treturn\n\t\t\t}\n\t\t\treport(extraResult{conn: conn})\n')]),
 dict(id='F28-extra-reported-before-auth', props=['C09'], expect='R-ACCEPT-COMMIT/commit-after-auth/',
      edits=[(SR, _EXTRA_GO, '\t\t\tgo func() {\n\t\t\t\treport(extraResult{conn: conn})\n\t\t\t\tif err := authenticateTransport(acceptCtx, conn, r.joinCode, authRoleReceive); err != nil {\n\t\t\t\t\treport(extraResult{err: err})\n\t\t\t\t}\n\t\t\t}()\n')]),
 dict(id='F28-accepted-conn-dropped', props=['C09'], expect='R-ACCEPT-COMMIT/owned/',
      edits=[(SR, '\t\t\tgo offerPrimary(conn, "incoming accept", probeKey)\n', '\t\t\tif primaryChosen.Load() {\n\t\t\t\tcontinue\n\t\t\t}\n\t\t\tgo offerPrimary(conn, "incoming accept", probeKey)\n')]),
 dict(id='F28-benign-else-form', props=['C09', 'C08'], expect='SILENT',
      edits=[(SR, _EXTRA_GO, '\t\t\tgo func() {\n\t\t\t\terr := authenticateTransport(acceptCtx, conn, r.joinCode, authRoleReceive)\n\t\t\t\tif err == nil {\n\t\t\t\t\treport(extraResult{conn: conn})\n\t\t\t\t} else {\n\t\t\t\t\tconn.Close()\n\t\t\t\t\treport(extraResult{err: err})\n\t\t\t\t}\n\t\t\t}()\n')]),
 dict(id='F28-sync-literal-blocks-accept-loop', props=['C09'], expect='R-ACCEPT-COMMIT/accept-not-blocked/',
      edits=[(SR, _EXTRA_GO, _EXTRA_GO.replace('\t\t\tgo func() {\n', '\t\t\tfunc() {\n'))]),
]

# --- F29 (C16): R-KEEPALIVE, R-TURN-PORT ---
_PING_MIN = '\t\tif limits.wsIdleTimeout/2 < pingEvery {\n\t\t\tpingEvery = limits.wsIdleTimeout / 2\n\t\t}\n'
_PORT_DEF = '\t\tif u.Scheme == "turns" {\n\t\t\thost = net.JoinHostPort(u.Hostname(), "5349")\n\t\t} else {\n\t\t\thost = net.JoinHostPort(u.Hostname(), "3478")\n\t\t}\n'
MUTANTS += [
 dict(id='F29-undo-fixed-ping-period', props=['C16'], expect='R-KEEPALIVE/ping-period/',
      edits=[(SRV, _PING_MIN, '')]),
 dict(id='F29-ping-period-max-instead-of-min', props=['C16'], expect='R-KEEPALIVE/ping-period/',
      edits=[(SRV, _PING_MIN, '\t\tif limits.wsIdleTimeout/2 > pingEvery {\n\t\t\tpingEvery = limits.wsIdleTimeout / 2\n\t\t}\n')]),
 dict(id='F29-ping-period-whole-timeout', props=['C16'], expect='R-KEEPALIVE/ping-period/',
      edits=[(SRV, _PING_MIN, '\t\tif limits.wsIdleTimeout < pingEvery {\n\t\t\tpingEvery = limits.wsIdleTimeout\n\t\t}\n')]),
 dict(id='F29-benign-ping-third', props=['C16'], expect='SILENT',
      edits=[(SRV, _PING_MIN, '\t\tif pingEvery > limits.wsIdleTimeout/3 {\n\t\t\tpingEvery = limits.wsIdleTimeout / 3\n\t\t}\n')]),
 dict(id='F29-undo-turn-default-port', props=['C16'], expect='R-TURN-PORT/port-default/',
      edits=[(ICE, '\tif u.Host != "" && u.Port() == "" {\n', '\tif false {\n')]),
 dict(id='F29-turn-default-ports-swapped', props=['C16'], expect='R-TURN-PORT/port-default/',
      edits=[(ICE, _PORT_DEF, _PORT_DEF.replace('"5349"', '"X"').replace('"3478"', '"5349"').replace('"X"', '"3478"'))]),
 dict(id='F29-turn-default-port-unconditional', props=['C16'], expect='R-TURN-PORT/port-default/',
      edits=[(ICE, '\tif u.Host != "" && u.Port() == "" {\n', '\tif u.Host != "" {\n')]),
 dict(id='F29-benign-turn-default-switch', props=['C16'], expect='SILENT',
      edits=[(ICE, _PORT_DEF, '\t\tif u.Scheme != "turns" {\n\t\t\thost = net.JoinHostPort(u.Hostname(), "3478")\n\t\t} else {\n\t\t\thost = net.JoinHostPort(u.Hostname(), "5349")\n\t\t}\n')]),
]

# --- F30 (C13): R-WALK-ROOT ---
MF = 'pkg/manifest/manifest.go'
MUTANTS += [
 dict(id='F30-undo-walk-selected-link', props=['C13'], expect='R-WALK-ROOT/walk-root/manifest.ScanPaths#1',
      edits=[(MF, '\t\t\twalkRoot := walkRootOf(absPath)\n', '\t\t\twalkRoot := absPath\n')]),
 dict(id='F30-helper-returns-input', props=['C13'], expect='R-WALK-ROOT/walk-root/',
      edits=[(MF, '\tif resolved, err := filepath.EvalSymlinks(absPath); err == nil {\n\t\treturn resolved\n\t}\n\treturn absPath\n', '\tif _, err := filepath.EvalSymlinks(absPath); err != nil {\n\t\treturn absPath\n\t}\n\treturn absPath\n')]),
 dict(id='F30-rel-against-selection', props=['C13'], expect='R-WALK-ROOT/walk-root/manifest.ScanPaths#1/rel#2',
      edits=[(MF, '\t\t\t\trelPath, err := filepath.Rel(walkRoot, walkPath)\n\t\t\t\tif err != nil {\n\t\t\t\t\treturn fmt.Errorf("cannot compute relative path: %w", err)', '\t\t\t\trelPath, err := filepath.Rel(absPath, walkPath)\n\t\t\t\tif err != nil {\n\t\t\t\t\treturn fmt.Errorf("cannot compute relative path: %w", err)')]),
 dict(id='F30-benign-inline-evalsymlinks', props=['C13'], expect='SILENT',
      edits=[(MF, '\t\t\twalkRoot := walkRootOf(absPath)\n', '\t\t\twalkRoot, evErr := filepath.EvalSymlinks(absPath)\n\t\t\tif evErr != nil {\n\t\t\t\twalkRoot = absPath\n\t\t\t}\n')]),
]

# --- F31 (C15): R-SPAWN-BOUND ---
_DS_BOUND = '\tif dataStreams > MaxParallelFiles {\n\t\treturn m, fmt.Errorf("peer announced %d data streams, at most %d are supported", dataStreams, MaxParallelFiles)\n\t}\n'
MUTANTS += [
 dict(id='F31-undo-datastreams-bound', props=['C15'], expect='R-SPAWN-BOUND/spawn/transfer.RecvManifestMultiStream#1',
      edits=[(MS, _DS_BOUND, '')]),
 dict(id='F31-datastreams-bound-logs-only', props=['C15'], expect='R-SPAWN-BOUND/spawn/transfer.RecvManifestMultiStream#1',
      edits=[(MS, _DS_BOUND, '\tif dataStreams > MaxParallelFiles {\n\t\t_ = fmt.Sprintf("peer announced %d data streams", dataStreams)\n\t}\n')]),
 dict(id='F31-benign-bound-clamps', props=['C15'], expect='SILENT',
      edits=[(MS, _DS_BOUND, '\tif dataStreams > 4*MaxParallelFiles {\n\t\treturn m, fmt.Errorf("peer announced %d data streams", dataStreams)\n\t}\n')]),
]

# --- F32 (C19/C01): R-COUNT-FITS ---
SCF = 'internal/transfer/sidecar.go'
MUTANTS += [
 dict(id='F32-undo-sender-count-check', props=['C19', 'C01'], expect='R-COUNT-FITS/count/transfer.chunkTotal#1/site/',
      edits=[(MS, '\t\tif !chunkCountFits(state.item.Size, chunkSize) {\n', '\t\tif false {\n')]),
 dict(id='F32-undo-receiver-count-check', props=['C19'], expect='R-COUNT-FITS/count/transfer.RecvManifestMultiStream$handleFileBegin#1',
      edits=[(MS, '\t\tif !chunkCountFits(int64(begin.FileSize), begin.ChunkSize) {\n', '\t\tif begin.ChunkSize == 1 && !chunkCountFits(int64(begin.FileSize), begin.ChunkSize) {\n')]),
 dict(id='F32-undo-sidecar-count-check', props=['C19'], expect='R-COUNT-FITS/count/transfer.CreateSidecar#1',
      edits=[(SCF, '\tif !chunkCountFits(fileSize, chunkSize) {\n\t\treturn nil, fmt.Errorf("%d bytes in chunks of %d bytes are more chunks than a sidecar can number", fileSize, chunkSize)\n\t}\n', '')]),
 dict(id='F32-count-check-on-other-size', props=['C19'], expect='R-COUNT-FITS/count/transfer.RecvManifestMultiStream$handleFileBegin#1',
      edits=[(MS, '\t\tif !chunkCountFits(int64(begin.FileSize), begin.ChunkSize) {\n', '\t\tif !chunkCountFits(expectedSize/2, begin.ChunkSize) {\n')]),
 dict(id='F32-benign-inline-bound', props=['C19', 'C01'], expect='SILENT',
      edits=[(SCF, '\tif !chunkCountFits(fileSize, chunkSize) {\n\t\treturn nil, fmt.Errorf("%d bytes in chunks of %d bytes are more chunks than a sidecar can number", fileSize, chunkSize)\n\t}\n\ttotalChunks := uint32((fileSize + int64(chunkSize) - 1) / int64(chunkSize))\n',
              '\tcount := (fileSize + int64(chunkSize) - 1) / int64(chunkSize)\n\tif count > 0xffffffff {\n\t\treturn nil, fmt.Errorf("%d bytes in chunks of %d bytes are more chunks than a sidecar can number", fileSize, chunkSize)\n\t}\n\ttotalChunks := uint32(count)\n')]),
]

# --- F33 (C10): R-NO-SILENT-DROP ---
HUBF = 'internal/peers/hub.go'
_BEHIND = '\t\t\t// Channel full: retried below, outside this pass\n\t\t\tbehind = append(behind, connID)\n'
MUTANTS += [
 dict(id='F33-undo-broadcast-drops-on-full', props=['C10'], expect='R-NO-SILENT-DROP/default-disposes/peers.(*Hub).Broadcast#1',
      edits=[(HUBF, '\tvar behind []string\n\tfor connID, pc := range sessionPeers {\n\t\tselect {\n\t\tcase pc.send <- env:\n\t\t\t// Successfully queued\n\t\tdefault:\n' + _BEHIND,
              '\tvar behind []string\n\tfor _, pc := range sessionPeers {\n\t\tselect {\n\t\tcase pc.send <- env:\n\t\t\t// Successfully queued\n\t\tdefault:\n')]),
 dict(id='F33-enqueuewait-true-after-deadline', props=['C10'], expect='R-NO-SILENT-DROP/',
      edits=[(HUBF, '\t\t\tpc.notReading.Store(true)\n\t\t\tpc.closeConn()\n\t\t\treturn false\n', '\t\t\tpc.notReading.Store(true)\n\t\t\tpc.closeConn()\n\t\t\treturn true\n')]),
 dict(id='F33-enqueuewait-gives-up-at-once', props=['C10'], expect='R-NO-SILENT-DROP/',
      edits=[(HUBF, '\t\th.mu.RUnlock()\n\t\tif pc.notReading.Load() {\n\t\t\treturn false\n\t\t}\n', '\t\th.mu.RUnlock()\n\t\tif pc.notReading.Load() || len(pc.send) == cap(pc.send) {\n\t\t\treturn true\n\t\t}\n')]),
 dict(id='F33-retry-stops-at-first', props=['C10'], expect='R-NO-SILENT-DROP/retry-all/',
      edits=[(HUBF, '\t\tconnID := connID\n\t\th.enqueueWait(func() *peerConnection { return h.sessions[sessionID][connID] }, env)\n', '\t\tconnID := connID\n\t\tif !h.enqueueWait(func() *peerConnection { return h.sessions[sessionID][connID] }, env) {\n\t\t\tbreak\n\t\t}\n')]),
 dict(id='F33-benign-rename-behind', props=['C10', 'C11'], expect='SILENT',
      edits=[(HUBF, '\th.enqueueBehind(sessionID, behind, env)\n}\n\n// enqueueBehind', '\tif len(behind) > 0 {\n\t\th.enqueueBehind(sessionID, behind, env)\n\t}\n}\n\n// enqueueBehind')]),
]

# --- F34 (C04/C01): R-REMAINING attach-adjusts ---
MUTANTS += [
 dict(id='F34-undo-late-sidecar-attach', props=['C04'], expect='R-REMAINING/remaining/attach-adjusts/',
      edits=[(MS, '\t\t\tinfo.LastVerifiedChunk = state.totalChunks\n\t\t\treturn info, nil\n\t\t}\n\t\tinfo.Bitmap = state.sidecar.MarshalBitmap()',
              '\t\t\tloaded, err := LoadOrCreateSidecarWithFallback(SidecarPath(baseDir, "", sidecarIdentifier(state.item)), "", state.item.ID, state.item.Size, state.chunkSize)\n\t\t\tif err != nil {\n\t\t\t\treturn nil, fmt.Errorf("failed to load sidecar: %w", err)\n\t\t\t}\n\t\t\tglobalSidecarFlushRegistry.add(loaded)\n\t\t\tstate.sidecar = loaded\n\t\t}\n\t\tinfo.Bitmap = state.sidecar.MarshalBitmap()'),
             (MS, '\t\tif opts.Resume && begin.ChunkSize > 0 && totalChunks <= maxResumeChunks {\n\t\t\tprimary := SidecarPath(baseDir, "", sidecarIdentifier(item))', '\t\tif opts.Resume && item.ID != "" && begin.ChunkSize > 0 && totalChunks <= maxResumeChunks {\n\t\t\tprimary := SidecarPath(baseDir, "", sidecarIdentifier(item))')]),
 dict(id='F34-attach-without-count', props=['C04'], expect='R-REMAINING/remaining/attach-adjusts/',
      edits=[(MS, '\t\t\tif totalChunks >= skipped {\n\t\t\t\tstate.remaining = totalChunks - skipped\n\t\t\t}\n', '\t\t\tif totalChunks >= skipped && item.ID != "" {\n\t\t\t\tstate.remaining = totalChunks - skipped\n\t\t\t}\n')]),
 dict(id='F34-benign-no-resume-for-idless', props=['C04', 'C01'], expect='SILENT',
      edits=[(MS, '\t\tif opts.Resume && begin.ChunkSize > 0 && totalChunks <= maxResumeChunks {\n\t\t\tprimary := SidecarPath(baseDir, "", sidecarIdentifier(item))', '\t\tif opts.Resume && item.ID != "" && begin.ChunkSize > 0 && totalChunks <= maxResumeChunks {\n\t\t\tprimary := SidecarPath(baseDir, "", sidecarIdentifier(item))')]),
]

# --- F35 (C06/C05): R-SIDECAR-KEY ---
MUTANTS += [
 dict(id='F35-undo-sidecar-named-by-id', props=['C06'], expect='R-SIDECAR-KEY/key/path-only',
      edits=[(MS, 'func sidecarIdentifier(item manifest.FileItem) string {\n\th := fnv.New64a()', 'func sidecarIdentifier(item manifest.FileItem) string {\n\tif item.ID != "" {\n\t\treturn item.ID\n\t}\n\th := fnv.New64a()')]),
 dict(id='F35-sidecar-key-includes-mtime', props=['C06'], expect='R-SIDECAR-KEY/key/path-only',
      edits=[(MS, 'func sidecarIdentifier(item manifest.FileItem) string {\n\th := fnv.New64a()\n\th.Write([]byte(item.RelPath))', 'func sidecarIdentifier(item manifest.FileItem) string {\n\th := fnv.New64a()\n\th.Write([]byte(item.RelPath))\n\th.Write([]byte(fmt.Sprint(item.ModTime)))')]),
 dict(id='F35-site-uses-item-id', props=['C06', 'C05'], expect='R-SIDECAR-KEY/key/site/',
      edits=[(MS, '\t\t\t_ = os.Remove(SidecarPath(baseDir, "", sidecarIdentifier(item)))\n', '\t\t\t_ = os.Remove(SidecarPath(baseDir, "", item.ID))\n')]),
]

# --- F36 (C18/C03): R-PATH-BYTES, R-PATH-TRANSPARENT ---
CP = 'internal/transfer/controlproto.go'
MUTANTS += [
 dict(id='F36-undo-header-utf8-check', props=['C18'], expect='R-PATH-BYTES/json/transfer.writeControlHeader#1',
      edits=[(CP, '\tif err := validateManifestText(m); err != nil {\n\t\treturn err\n\t}\n', '')]),
 dict(id='F36-header-utf8-check-ignored', props=['C18'], expect='R-PATH-BYTES/json/transfer.writeControlHeader#1',
      edits=[(CP, '\tif err := validateManifestText(m); err != nil {\n\t\treturn err\n\t}\n', '\t_ = validateManifestText(m)\n')]),
 dict(id='F36-second-json-site-is-new', props=['C03'], expect='R-PATH-TRANSPARENT/json/transfer.writeControlHeader#2',
      edits=[(CP, '\tmanifestJSONLen := uint32(len(manifestJSON))\n', '\tif alt, aerr := json.Marshal(m.Items); aerr == nil && len(alt) > len(manifestJSON) {\n\t\tmanifestJSON = alt\n\t}\n\tmanifestJSONLen := uint32(len(manifestJSON))\n')]),
 dict(id='F36-benign-check-inlined', props=['C18'], expect='SILENT',
      edits=[(CP, '\tif err := validateManifestText(m); err != nil {\n\t\treturn err\n\t}\n', '\tif verr := validateManifestText(m); verr != nil {\n\t\treturn fmt.Errorf("manifest: %w", verr)\n\t}\n')]),
]

# --- F37 (C14): R-ZERO-OFF through locals, R-RATE-COUNTS-ALL ---
MUTANTS += [
 dict(id='F37-undo-size-default-substituted', props=['C14'], expect='R-ZERO-OFF/zero-off/',
      edits=[(SRV, '\t// Read loop: process incoming messages\n\tmsgLimiter', '\t// Read loop: process incoming messages\n\tmaxMessageSize := limits.maxMessageBytes\n\tif maxMessageSize <= 0 {\n\t\tmaxMessageSize = 64 * 1024\n\t}\n\tmsgLimiter'),
             (SRV, '\t\tif limits.maxMessageBytes > 0 && len(message) > limits.maxMessageBytes {\n\t\t\tlogger.Warn("message too large", "size", len(message), "max", limits.maxMessageBytes, "peer_id", peerID)', '\t\tif len(message) > maxMessageSize {\n\t\t\tlogger.Warn("message too large", "size", len(message), "max", maxMessageSize, "peer_id", peerID)')]),
 dict(id='F37-undo-binary-before-limiter', props=['C14'], expect='R-RATE-COUNTS-ALL/read-loop#1',
      edits=[(SRV, '\t\tif limits.msgRatePerSec > 0 && !msgLimiter.Allow() {\n\t\t\tlogger.Warn("websocket message rate limit exceeded", "peer_id", peerID)\n\t\t\tconn.Close()\n\t\t\tbreak\n\t\t}\n\n\t\t// Only process text messages\n\t\tif messageType != websocket.TextMessage {\n\t\t\tcontinue\n\t\t}\n',
              '\t\t// Only process text messages\n\t\tif messageType != websocket.TextMessage {\n\t\t\tcontinue\n\t\t}\n\n\t\tif limits.msgRatePerSec > 0 && !msgLimiter.Allow() {\n\t\t\tlogger.Warn("websocket message rate limit exceeded", "peer_id", peerID)\n\t\t\tconn.Close()\n\t\t\tbreak\n\t\t}\n')]),
 dict(id='F37-benign-size-local-guarded', props=['C14', 'C16'], expect='SILENT',
      edits=[(SRV, '\t\tif limits.maxMessageBytes > 0 && len(message) > limits.maxMessageBytes {\n', '\t\tif sizeLimit := limits.maxMessageBytes; limits.maxMessageBytes > 0 && len(message) > sizeLimit {\n')]),
]

# --- round 4: rules added for the nine missed seeds ---
SESSF = 'internal/session/session.go'
BMF = 'internal/transfer/bitmap.go'
MUTANTS += [
 dict(id='R4-cancel-in-round-helper', props=['C09'], expect='R-CANCEL-OWNER/cancel/ice.(*Prober).ProbeAndDial/dialCancel',
      edits=[(ICE, '\t\tif tr == nil || len(cands) == 0 {\n\t\t\treturn nil, fmt.Errorf("no candidates")\n\t\t}\n', '\t\tif tr == nil || len(cands) == 0 {\n\t\t\treturn nil, fmt.Errorf("no candidates")\n\t\t}\n\t\tdefer dialCancel()\n')]),
 dict(id='R4-benign-cancel-watchdog', props=['C09'], expect='SILENT',
      edits=[(ICE, '\tvar dials sync.WaitGroup\n', '\tvar dials sync.WaitGroup\n\tgo func() {\n\t\tselect {\n\t\tcase <-ctx.Done():\n\t\t\tdialCancel()\n\t\tcase <-dialCtx.Done():\n\t\t}\n\t}()\n')]),
 dict(id='R4-extras-accept-counted', props=['C09'], expect='R-ACCEPT-COMMIT/accept-unbounded/',
      edits=[(SR, '\tgo func() {\n\t\tfor {\n\t\t\tconn, err := transport.Accept(acceptCtx)', '\tgo func() {\n\t\tfor taken := 0; taken < extra; taken++ {\n\t\t\tconn, err := transport.Accept(acceptCtx)')]),
 dict(id='R4-benign-accept-until-ctx', props=['C09', 'C08'], expect='SILENT',
      edits=[(SR, '\tgo func() {\n\t\tfor {\n\t\t\tconn, err := transport.Accept(acceptCtx)', '\tgo func() {\n\t\tfor acceptCtx.Err() == nil {\n\t\t\tconn, err := transport.Accept(acceptCtx)')]),
 dict(id='R4-rlock-leaked-on-early-return', props=['C11'], expect='R-LOCK-BALANCE/balance/peers.(*Hub).enqueueWait/',
      edits=[(HUBF, '\t\tpc := lookup()\n\t\tif pc == nil {\n\t\t\th.mu.RUnlock()\n\t\t\treturn false\n\t\t}\n', '\t\tpc := lookup()\n\t\tif pc == nil {\n\t\t\treturn false\n\t\t}\n')]),
 dict(id='R4-store-lock-leaked', props=['C14'], expect='R-LOCK-BALANCE/balance/session.(*Store).Count/',
      edits=[(SESSF, '\ts.mu.RLock()\n\tdefer s.mu.RUnlock()\n\treturn len(s.sessions)', '\ts.mu.RLock()\n\tn := len(s.sessions)\n\tif n == 0 {\n\t\treturn 0\n\t}\n\ts.mu.RUnlock()\n\treturn n')]),
 dict(id='R4-benign-unlock-before-each-return', props=['C14'], expect='SILENT',
      edits=[(SESSF, '\ts.mu.RLock()\n\tdefer s.mu.RUnlock()\n\treturn len(s.sessions)', '\ts.mu.RLock()\n\tn := len(s.sessions)\n\tif n == 0 {\n\t\ts.mu.RUnlock()\n\t\treturn 0\n\t}\n\ts.mu.RUnlock()\n\treturn n')]),
 dict(id='R4-scanpaths-base-of-raw-path', props=['C13'], expect='R-SIBLING-PREFIX/prefix/base-of-abs/manifest.ScanPaths',
      edits=[(MF, '\t\tbaseName := filepath.Base(absPath)\n\t\tif baseName == "." || baseName == "/" {\n\t\t\t// Handle edge case', '\t\t_ = absPath\n\t\tbaseName := filepath.Base(path)\n\t\tif baseName == "." || baseName == "/" {\n\t\t\t// Handle edge case')]),
 dict(id='R4-bitmap-longer-tolerated', props=['C15'], expect='R-BITMAP-INV/ctor/transfer.BitmapFromBytes#1',
      edits=[(BMF, '\tif len(data) != byteLen {\n\t\treturn nil, fmt.Errorf("bitmap length mismatch: got %d, want %d", len(data), byteLen)\n\t}\n\tbuf := make([]byte, len(data))', '\tif len(data) < byteLen {\n\t\treturn nil, fmt.Errorf("bitmap length mismatch: got %d, want %d", len(data), byteLen)\n\t}\n\tbuf := make([]byte, len(data))')]),
 dict(id='R4-benign-bitmap-eq-form', props=['C15'], expect='SILENT',
      edits=[(BMF, '\tif len(data) != byteLen {\n\t\treturn nil, fmt.Errorf("bitmap length mismatch: got %d, want %d", len(data), byteLen)\n\t}\n\tbuf := make([]byte, len(data))\n\tcopy(buf, data)\n\treturn &Bitmap{bits: bits, data: buf}, nil', '\tif byteLen == len(data) {\n\t\tbuf := make([]byte, len(data))\n\t\tcopy(buf, data)\n\t\treturn &Bitmap{bits: bits, data: buf}, nil\n\t}\n\treturn nil, fmt.Errorf("bitmap length mismatch: got %d, want %d", len(data), byteLen)')]),
 dict(id='R4-pathescape-in-query', props=['C16'], expect='R-JSON-KEYS/ws-query/app.buildWebSocketURL/',
      edits=[('internal/app/ws.go', 'url.QueryEscape(peerID)', 'url.PathEscape(peerID)')]),
 dict(id='R4-benign-server-fills-right-ports', props=['C16'], expect='SILENT',
      edits=[(SRV, '\tu.User = url.UserPassword(username, password)\n\treturn u.String(), nil', '\tif u.Port() == "" {\n\t\tif u.Scheme == "turns" {\n\t\t\tu.Host = net.JoinHostPort(u.Hostname(), "5349")\n\t\t} else {\n\t\t\tu.Host = net.JoinHostPort(u.Hostname(), "3478")\n\t\t}\n\t}\n\tu.User = url.UserPassword(username, password)\n\treturn u.String(), nil')]),
 dict(id='R4-server-fills-3478-for-turns', props=['C16'], expect='R-TURN-PORT/port-default/server/3478',
      edits=[(SRV, '\tu.User = url.UserPassword(username, password)\n\treturn u.String(), nil', '\tif u.Port() == "" {\n\t\tu.Host = net.JoinHostPort(u.Hostname(), "3478")\n\t}\n\tu.User = url.UserPassword(username, password)\n\treturn u.String(), nil')]),
 dict(id='R4-tail-no-saturation', props=['C17'], expect='R-TAIL-SATURATES/saturate/',
      edits=[(MS, '\t\t\t\t\t\t\tif tail >= forceSendFrom {\n\t\t\t\t\t\t\t\tforceSendFrom = 0\n\t\t\t\t\t\t\t} else {\n\t\t\t\t\t\t\t\tforceSendFrom -= tail\n\t\t\t\t\t\t\t}\n', '\t\t\t\t\t\t\tif forceSendFrom > tail {\n\t\t\t\t\t\t\t\tforceSendFrom -= tail\n\t\t\t\t\t\t\t}\n')]),
 dict(id='R4-benign-tail-branches-swapped', props=['C17', 'C06'], expect='SILENT',
      edits=[(MS, '\t\t\t\t\t\t\tif tail >= forceSendFrom {\n\t\t\t\t\t\t\t\tforceSendFrom = 0\n\t\t\t\t\t\t\t} else {\n\t\t\t\t\t\t\t\tforceSendFrom -= tail\n\t\t\t\t\t\t\t}\n', '\t\t\t\t\t\t\tif forceSendFrom > tail {\n\t\t\t\t\t\t\t\tforceSendFrom -= tail\n\t\t\t\t\t\t\t} else {\n\t\t\t\t\t\t\t\tforceSendFrom = 0\n\t\t\t\t\t\t\t}\n')]),
 dict(id='R4-readers-capped-by-files', props=['C03'], expect='R-READERS-MATCH/readers/loop#1',
      edits=[(MS, '\tfor i := 0; i < dataStreams; i++ {\n\t\tgo func() {', '\treaders := dataStreams\n\tif totalFiles < readers {\n\t\treaders = totalFiles\n\t}\n\tfor i := 0; i < readers; i++ {\n\t\tgo func() {')]),
 dict(id='R4-benign-readers-copy', props=['C03', 'C15'], expect='SILENT',
      edits=[(MS, '\tfor i := 0; i < dataStreams; i++ {\n\t\tgo func() {', '\tfor i := 0; i < dataStreams; i++ {\n\t\tidx := i\n\t\t_ = idx\n\t\tgo func() {')]),
]

# --- F38 (C18): validator field coverage, R-LEN-PREFIX ---
MUTANTS += [
 dict(id='F38-undo-id-not-validated', props=['C18'], expect='R-PATH-BYTES/json/transfer.writeControlHeader#1',
      edits=[(CP, '\t\tif !utf8.ValidString(item.ID) {\n\t\t\treturn fmt.Errorf("id %q of %s is not valid UTF-8 and cannot be transferred", item.ID, item.RelPath)\n\t\t}\n', '')]),
 dict(id='F38-undo-errmsg-wraps', props=['C18'], expect='R-LEN-PREFIX/prefix/transfer.writeFileDone#1',
      edits=[(CP, '\tif len(errMsg) > math.MaxUint16 {\n\t\t// The length prefix has 16 bits: a longer text is cut, not wrapped.\n\t\terrMsg = errMsg[:math.MaxUint16]\n\t}\n', '')]),
 dict(id='F38-fileid-check-after-type-byte-still-ok', props=['C18', 'C15'], expect='SILENT',
      edits=[(CP, 'func writeResumeRequest(s Stream, msg ResumeRequest) error {\n\tif len(msg.FileID) > math.MaxUint16 {\n\t\treturn fmt.Errorf("file id of %d bytes does not fit the 16-bit length prefix", len(msg.FileID))\n\t}\n', 'func writeResumeRequest(s Stream, msg ResumeRequest) error {\n\tif len(msg.FileID) >= 1<<16 {\n\t\treturn fmt.Errorf("file id of %d bytes does not fit the 16-bit length prefix", len(msg.FileID))\n\t}\n')]),
 dict(id='F38-fileid-bound-too-large', props=['C18'], expect='R-LEN-PREFIX/prefix/transfer.writeResumeRequest#1',
      edits=[(CP, 'func writeResumeRequest(s Stream, msg ResumeRequest) error {\n\tif len(msg.FileID) > math.MaxUint16 {', 'func writeResumeRequest(s Stream, msg ResumeRequest) error {\n\tif len(msg.FileID) > math.MaxUint32 {')]),
]

# --- F39 (C13): R-SELECTED-REGULAR ---
MUTANTS += [
 dict(id='F39-undo-scanpaths-special-file', props=['C13'], expect='R-SELECTED-REGULAR/selected/manifest.ScanPaths#1',
      edits=[(MF, '\t\tif !info.IsDir() && !info.Mode().IsRegular() {\n\t\t\tscanErrors = append(scanErrors, fmt.Errorf("not a regular file or directory: %s", path))\n\t\t\tcontinue\n\t\t}\n', '')]),
 dict(id='F39-scan-special-file-logged-only', props=['C13'], expect='R-SELECTED-REGULAR/selected/manifest.Scan#1',
      edits=[(MF, '\tif !info.IsDir() && !info.Mode().IsRegular() {\n\t\treturn Manifest{}, fmt.Errorf("not a regular file or directory: %s", rootPath)\n\t}\n', '\tif !info.IsDir() && !info.Mode().IsRegular() {\n\t\t_ = fmt.Errorf("not a regular file or directory: %s", rootPath)\n\t}\n')]),
 dict(id='F39-benign-regular-positive-form', props=['C13'], expect='SILENT',
      edits=[(MF, '\tif !info.IsDir() && !info.Mode().IsRegular() {\n\t\treturn Manifest{}, fmt.Errorf("not a regular file or directory: %s", rootPath)\n\t}\n', '\tif !info.IsDir() {\n\t\tif !info.Mode().IsRegular() {\n\t\t\treturn Manifest{}, fmt.Errorf("not a regular file or directory: %s", rootPath)\n\t\t}\n\t}\n')]),
]

# --- F40 (C15): R-ANNOUNCE-WAIT ---
MUTANTS += [
 dict(id='F40-undo-end-before-announcement', props=['C15'], expect='R-ANNOUNCE-WAIT/announce-wait/loop#1',
      edits=[(MS, '\t\t\t} else if ev.typ == controlTypeEnd {\n\t\t\t\t// A sender announces its data streams before anything else; after End\n\t\t\t\t// the control reader is gone and nothing would end this wait.\n\t\t\t\treturn m, fmt.Errorf("end of transfer before the data streams were announced")\n\t\t\t} else {', '\t\t\t} else {')]),
 dict(id='F40-end-before-announcement-kept', props=['C15'], expect='R-ANNOUNCE-WAIT/announce-wait/loop#1',
      edits=[(MS, '\t\t\t\treturn m, fmt.Errorf("end of transfer before the data streams were announced")\n', '\t\t\t\tpending = append(pending, ev)\n')]),
]

# --- F41 (C15): sidecar constructors as allocation sinks ---
MUTANTS += [
 dict(id='F41-undo-resume-bitmap-bound', props=['C15'], expect='R-ALLOC/alloc/transfer.RecvManifestMultiStream$handleFileBegin#1/transfer.LoadOrCreateSidecarWithFallback',
      edits=[(MS, '\t\tif opts.Resume && begin.ChunkSize > 0 && totalChunks <= maxResumeChunks {', '\t\tif opts.Resume && begin.ChunkSize > 0 {')]),
 dict(id='F41-bound-on-other-variable', props=['C15'], expect='R-ALLOC/alloc/transfer.RecvManifestMultiStream$handleFileBegin#1/transfer.LoadOrCreateSidecarWithFallback',
      edits=[(MS, '\t\tif opts.Resume && begin.ChunkSize > 0 && totalChunks <= maxResumeChunks {', '\t\tif opts.Resume && begin.ChunkSize > 0 && begin.ChunkSize <= maxResumeChunks {')]),
]

# --- F42 (C01/C19/C15): tiling held by the receiver ---
MUTANTS += [
 dict(id='F42-undo-exact-length', props=['C19', 'C01'], expect='R-TILE/write-bounds/',
      edits=[(MS, '\t\t\t\tif want := chunkSizeForIndex(state.item.Size, state.chunkSize, chunkIndex); chunkLen != want {', '\t\t\t\tif want := chunkSizeForIndex(state.item.Size, state.chunkSize, chunkIndex); chunkLen > want+state.chunkSize {')]),
 dict(id='F42-undo-count-by-index', props=['C01', 'C04'], expect='R-REMAINING/remaining/dec/',
      edits=[(MS, '\t\tif !s.seen.Get(int(idx)) {\n\t\t\ts.seen.Set(int(idx))\n', '\t\tif idx < s.totalChunks {\n\t\t\ts.seen.Set(int(idx))\n')]),
 dict(id='F42-undo-begin-replay', props=['C01', 'C15'], expect='R-BEGIN-ONCE/begin-once/',
      edits=[(MS, '\t\tif _, finished := doneKeys[key]; finished {\n\t\t\tstateMu.Unlock()\n\t\t\treturn fmt.Errorf("file begin for %s, which was already completed", begin.RelPath)\n\t\t}\n', '')]),
 dict(id='F42-benign-length-eq-form', props=['C19', 'C15'], expect='SILENT',
      edits=[(MS, '\t\t\t\tif want := chunkSizeForIndex(state.item.Size, state.chunkSize, chunkIndex); chunkLen != want {', '\t\t\t\twant := chunkSizeForIndex(state.item.Size, state.chunkSize, chunkIndex)\n\t\t\t\tif want != chunkLen {')]),
]

# --- F43 (C17): R-RESEND-ONCE ---
MUTANTS += [
 dict(id='F43-undo-resend-inside-tail', props=['C17'], expect='R-RESEND-ONCE/resend-once/',
      edits=[(MS, '\t\t\t\t\t\t\tif senderHash != vHash && vChunk < forceSendFrom && bitmap.Get(int(vChunk)) && vChunk >= state.nextChunk {', '\t\t\t\t\t\t\tif senderHash != vHash && bitmap.Get(int(vChunk)) && vChunk >= state.nextChunk {')]),
 dict(id='F43-resend-condition-inverted', props=['C17', 'C06'], expect='R-RES',
      edits=[(MS, '\t\t\t\t\t\t\tif senderHash != vHash && vChunk < forceSendFrom && bitmap.Get(int(vChunk)) && vChunk >= state.nextChunk {', '\t\t\t\t\t\t\tif senderHash != vHash && vChunk >= forceSendFrom && bitmap.Get(int(vChunk)) && vChunk >= state.nextChunk {')]),
 dict(id='F43-benign-nested-if', props=['C17', 'C06', 'C04'], expect='SILENT',
      edits=[(MS, '\t\t\t\t\t\t\tif senderHash != vHash && vChunk < forceSendFrom && bitmap.Get(int(vChunk)) && vChunk >= state.nextChunk {\n\t\t\t\t\t\t\t\tstate.resendChunk = vChunk\n\t\t\t\t\t\t\t\tstate.resendPending = true\n\t\t\t\t\t\t\t}', '\t\t\t\t\t\t\tif senderHash != vHash && forceSendFrom > vChunk && bitmap.Get(int(vChunk)) && vChunk >= state.nextChunk {\n\t\t\t\t\t\t\t\tstate.resendChunk = vChunk\n\t\t\t\t\t\t\t\tstate.resendPending = true\n\t\t\t\t\t\t\t}')]),
]

# --- F44 (C03): R-OPEN-BOUNDED ---
MUTANTS += [
 dict(id='F44-undo-open-waits-forever', props=['C03'], expect='R-OPEN-BOUNDED/open-bounded/loop#1',
      edits=[(MS, '\t\topenCtx, openCancel := context.WithTimeout(ctx, dataStreamOpenWait)\n', '\t\topenCtx, openCancel := ctx, context.CancelFunc(func() {})\n')]),
 dict(id='F44-announce-planned-count', props=['C03'], expect='R-OPEN-BOUNDED/announce-opened/',
      edits=[(MS, '\tparallelStreams = len(dataStreams)\n\tif parallelStreams < 1 {', '\tif len(dataStreams) < 1 {')]),
]

# --- F45 (C06): R-SIDECAR-ALLOC ---
MUTANTS += [
 dict(id='F45-undo-bitmap-length-check', props=['C06'], expect='R-SIDECAR-ALLOC/sidecar-alloc/make#2',
      edits=[(SCF, '\tif int64(bitmapLen) > int64(reader.Len()) {\n\t\treturn nil, fmt.Errorf("sidecar truncated (bitmap)")\n\t}\n', '')]),
 dict(id='F45-length-check-after-make', props=['C06'], expect='R-SIDECAR-ALLOC/sidecar-alloc/make#1',
      edits=[(SCF, '\tif int(fileIDLen) > reader.Len() {\n\t\treturn nil, fmt.Errorf("sidecar truncated (file id)")\n\t}\n\tfileID := make([]byte, fileIDLen)\n', '\tfileID := make([]byte, fileIDLen)\n\tif int(fileIDLen) > reader.Len() {\n\t\treturn nil, fmt.Errorf("sidecar truncated (file id)")\n\t}\n')]),
]

# --- round 5 (DESIGN 8.10): rules written after the fifth seeding round; benign variants must stay silent ---
_HFC_OLD = '\tn, err := file.ReadAt(buf, offset)\n\tif err != nil && err != io.EOF {\n'
_ACC_OLD = '\t\t\tconn, err := transport.Accept(acceptCtx)\n\t\t\tif err != nil {\n\t\t\t\treport(extraResult{err: err})\n\t\t\t\treturn\n\t\t\t}\n\t\t\tgo func() {\n'
_DISC_OLD = '\t\tpiece := scratch\n\t\tif int64(len(piece)) > n {\n\t\t\tpiece = piece[:n]\n\t\t}\n\t\tif err := readFullWithTimeout(ctx, s, piece, "", "mux-discard"); err != nil {\n\t\t\treturn err\n\t\t}\n\t\tn -= int64(len(piece))\n'
_NEXT_OLD = '\tif s.scheduleDone {\n\t\tif s.resendPending {\n\t\t\tidx := s.resendChunk\n\t\t\ts.resendPending = false\n\t\t\ts.inFlight++\n\t\t\treturn idx, chunkSizeForIndex(s.item.Size, s.chunkSize, idx), true\n\t\t}\n\t\treturn 0, 0, false\n\t}\n\tif s.resendPending {\n\t\tidx := s.resendChunk\n\t\ts.resendPending = false\n\t\ts.inFlight++\n\t\treturn idx, chunkSizeForIndex(s.item.Size, s.chunkSize, idx), true\n\t}\n'
_ADMIT_OLD = '\t\treceivers := 0\n\t\tfor _, p := range current {\n\t\t\tif p.Role == "receiver" {\n\t\t\t\treceivers++\n\t\t\t}\n\t\t}\n\t\treturn receivers < limits.maxReceiversPerSender\n'
_TRANSF_OLD = '\tif state.Status == ReceiverStatusTransferring {\n\t\ts.mu.Unlock()\n\t\treturn\n\t}\n\tstate.Status = ReceiverStatusQueued\n'
MUTANTS += [
 # R-READAT-EOF
 dict(id='R5-hash-read-wrong-sentinel', props=['C04', 'C06'], expect='R-READAT-EOF/eof-tolerated/transfer.hashFileChunk#1',
      edits=[(MS, _HFC_OLD, '\tn, err := file.ReadAt(buf, offset)\n\tif err != nil && !errors.Is(err, io.ErrUnexpectedEOF) {\n')]),
 dict(id='R5-benign-hash-read-errors-is', props=['C04', 'C06'], expect='SILENT',
      edits=[(MS, _HFC_OLD, '\tn, err := file.ReadAt(buf, offset)\n\tif err != nil && !errors.Is(err, io.EOF) {\n')]),
 dict(id='R5-benign-hash-read-exact-buffer', props=['C04', 'C06'], expect='SILENT',
      edits=[(MS, _HFC_OLD, '\tn, err := file.ReadAt(buf[:chunkLen], offset)\n\tif err != nil {\n')]),
 dict(id='R5-benign-sender-read-eof-not-exempt', props=['C04', 'C06', 'C02'], expect='SILENT',
      edits=[(MS, '\t\t\t\tif err != nil && err != io.EOF && err != io.ErrUnexpectedEOF {\n\t\t\t\t\treleaseChunkBuf(bufPool, buf, err)', '\t\t\t\tif err != nil {\n\t\t\t\t\treleaseChunkBuf(bufPool, buf, err)')]),
 # R-CAPTURE-STABLE
 dict(id='R5-extra-conn-declared-outside-loop', props=['C08', 'C09'], expect='R-CAPTURE-STABLE/stable-capture/',
      edits=[(SR, '\tgo func() {\n\t\tfor {\n' + _ACC_OLD[:0] + '\t\t\tconn, err := transport.Accept(acceptCtx)\n', '\tgo func() {\n\t\tvar conn transfer.Conn\n\t\tvar err error\n\t\tfor {\n\t\t\tconn, err = transport.Accept(acceptCtx)\n')]),
 dict(id='R5-benign-extra-conn-passed-as-argument', props=['C08', 'C09'], expect='SILENT',
      edits=[(SR, _ACC_OLD, _ACC_OLD.replace('go func() {\n', 'go func(conn transfer.Conn) {\n')),
             (SR, '\t\t\t\treport(extraResult{conn: conn})\n\t\t\t}()\n', '\t\t\t\treport(extraResult{conn: conn})\n\t\t\t}(conn)\n')]),
 dict(id='R5-benign-extra-conn-copied-per-iteration', props=['C08', 'C09'], expect='SILENT',
      edits=[(SR, _ACC_OLD, _ACC_OLD.replace('conn, err := transport.Accept(acceptCtx)', 'accepted, err := transport.Accept(acceptCtx)').replace('\t\t\tgo func() {\n', '\t\t\tconn := accepted\n\t\t\tgo func() {\n'))]),
 # R-DISCARD-EXACT
 dict(id='R5-discard-counts-whole-scratch', props=['C03', 'C19'], expect='R-DISCARD-EXACT/discard-exact/transfer.discardWithTimeout#1',
      edits=[(MS, _DISC_OLD, _DISC_OLD.replace('n -= int64(len(piece))', 'n -= int64(len(scratch))'))]),
 dict(id='R5-discard-piece-not-cut', props=['C03', 'C19'], expect='R-DISCARD-EXACT/discard-exact/transfer.discardWithTimeout#1',
      edits=[(MS, _DISC_OLD, _DISC_OLD.replace('\t\tif int64(len(piece)) > n {\n\t\t\tpiece = piece[:n]\n\t\t}\n', '\t\tif int64(len(piece)) < n {\n\t\t\tpiece = piece[:len(piece)]\n\t\t}\n'))]),
 dict(id='R5-benign-discard-min-form', props=['C03', 'C19'], expect='SILENT',
      edits=[(MS, _DISC_OLD, '\t\tk := min(n, int64(len(scratch)))\n\t\tif err := readFullWithTimeout(ctx, s, scratch[:k], "", "mux-discard"); err != nil {\n\t\t\treturn err\n\t\t}\n\t\tn -= k\n')]),
 dict(id='R5-benign-discard-slice-defined-with-min', props=['C03', 'C19'], expect='SILENT',
      edits=[(MS, _DISC_OLD, '\t\tpiece := scratch[:min(n, int64(len(scratch)))]\n\t\tif err := readFullWithTimeout(ctx, s, piece, "", "mux-discard"); err != nil {\n\t\t\treturn err\n\t\t}\n\t\tn -= int64(len(piece))\n')]),
 # R-SENDTO-FRESH
 dict(id='R5-benign-sendto-alias-inside-lookup', props=['C11', 'C10'], expect='SILENT',
      edits=[(HUB, '\t\tconnID, exists := h.byPeerID[sessionID][peerID]\n\t\tif !exists {\n\t\t\treturn nil\n\t\t}\n\t\treturn h.sessions[sessionID][connID]\n', '\t\tids := h.byPeerID[sessionID]\n\t\tconnID, exists := ids[peerID]\n\t\tif !exists {\n\t\t\treturn nil\n\t\t}\n\t\treturn h.sessions[sessionID][connID]\n')]),
 # R-STREAM-NO-READAHEAD
 dict(id='R5-bufio-under-limitreader', props=['C18'], expect='R-STREAM-NO-READAHEAD/no-readahead/transfer.readBytesControl#1',
      edits=[(CP, 'import (\n', 'import (\n\t"bufio"\n'),
             (CP, '\tdata, err := io.ReadAll(io.LimitReader(s, int64(n)))\n', '\tdata, err := io.ReadAll(io.LimitReader(bufio.NewReader(s), int64(n)))\n')]),
 dict(id='R5-benign-bufio-over-limitreader', props=['C18', 'C15'], expect='SILENT',
      edits=[(CP, 'import (\n', 'import (\n\t"bufio"\n'),
             (CP, '\tdata, err := io.ReadAll(io.LimitReader(s, int64(n)))\n', '\tdata, err := io.ReadAll(bufio.NewReader(io.LimitReader(s, int64(n))))\n')]),
 # R-RESEND-REACHES
 # reclassified in round 11: since F53 a re-send is never pending once the schedule ran out, the dropped branch is dead code (see seeded/_retired/README.md)
 dict(id='R5-resend-after-schedule-dropped', props=['C17', 'C03'], expect='SILENT',
      edits=[(MS, _NEXT_OLD, '\tif s.scheduleDone {\n\t\treturn 0, 0, false\n\t}\n\tif s.resendPending {\n\t\tidx := s.resendChunk\n\t\ts.resendPending = false\n\t\ts.inFlight++\n\t\treturn idx, chunkSizeForIndex(s.item.Size, s.chunkSize, idx), true\n\t}\n')]),
 dict(id='R5-benign-resend-tested-first', props=['C17', 'C03', 'C06'], expect='SILENT',
      edits=[(MS, _NEXT_OLD, '\tif s.resendPending {\n\t\tidx := s.resendChunk\n\t\ts.resendPending = false\n\t\ts.inFlight++\n\t\treturn idx, chunkSizeForIndex(s.item.Size, s.chunkSize, idx), true\n\t}\n\tif s.scheduleDone {\n\t\treturn 0, 0, false\n\t}\n')]),
 # R-RECEIVER-COUNT
 dict(id='R5-admit-counts-every-peer', props=['C14', 'C16'], expect='R-RECEIVER-COUNT/receiver-count/',
      edits=[(SRV, _ADMIT_OLD, '\t\treceivers := 0\n\t\tfor range current {\n\t\t\treceivers++\n\t\t}\n\t\treturn receivers < limits.maxReceiversPerSender\n')]),
 dict(id='R5-admit-len-of-peers', props=['C14', 'C16'], expect='R-RECEIVER-COUNT/receiver-count/',
      edits=[(SRV, _ADMIT_OLD, '\t\treturn len(current) < limits.maxReceiversPerSender\n')]),
 dict(id='R5-benign-admit-continue-form', props=['C14', 'C16'], expect='SILENT',
      edits=[(SRV, _ADMIT_OLD, '\t\treceivers := 0\n\t\tfor _, p := range current {\n\t\t\tif p.Role != "receiver" {\n\t\t\t\tcontinue\n\t\t\t}\n\t\t\treceivers++\n\t\t}\n\t\treturn receivers < limits.maxReceiversPerSender\n')]),
 # R-ACCEPT-BOOKED
 dict(id='R5-accept-of-failed-receiver-dropped', props=['C12'], expect='R-ACCEPT-BOOKED/accept-booked/',
      edits=[(SS, _TRANSF_OLD, '\tif state.Status == ReceiverStatusTransferring || state.Status == ReceiverStatusFailed {\n\t\ts.mu.Unlock()\n\t\treturn\n\t}\n\tstate.Status = ReceiverStatusQueued\n')]),
 dict(id='R5-benign-accept-while-queued-ignored', props=['C12'], expect='SILENT',
      edits=[(SS, _TRANSF_OLD, '\tif state.Status == ReceiverStatusTransferring || state.Status == ReceiverStatusQueued {\n\t\ts.mu.Unlock()\n\t\treturn\n\t}\n\tstate.Status = ReceiverStatusQueued\n')]),
 # R-RESOLVER-STAT
 dict(id='R5-benign-resolver-stat-renamed', props=['C13'], expect='SILENT',
      edits=[(SS, '\t\tinfo, err := os.Stat(absPath)\n\t\tif err != nil {\n\t\t\treturn nil, fmt.Errorf("cannot access path %s: %w", absPath, err)\n\t\t}\n', '\t\tfi, err := os.Stat(absPath)\n\t\tif err != nil {\n\t\t\treturn nil, fmt.Errorf("cannot access path %s: %w", absPath, err)\n\t\t}\n'),
             (SS, 'pathTarget{abs: absPath, isDir: info.IsDir()}', 'pathTarget{abs: absPath, isDir: fi.IsDir()}')]),
 # R-VERIFY-EXEMPT (tightened), R-BUCKET (grant-after-refill), R-ACCEPT-COMMIT (accept-not-blocked)
 dict(id='R5-verify-skipped-when-bitmap-full', props=['C06'], expect='R-VERIFY-EXEMPT/verify-exempt/',
      edits=[(MS, '\t\t\t\t\tif verifyNeeded {\n\t\t\t\t\t\t// The plan is in force', '\t\t\t\t\tif verifyNeeded && completedChunks < totalChunks {\n\t\t\t\t\t\t// The plan is in force')]),
 dict(id='R5-benign-verify-needed-reordered', props=['C06', 'C17'], expect='SILENT',
      edits=[(MS, 'verifyNeeded := verifyMode != "none" && verifiedChunk < totalChunks && hashAlg != HashAlgNone && !hashUnknown', 'verifyNeeded := !hashUnknown && hashAlg != HashAlgNone && verifiedChunk < totalChunks && verifyMode != "none"')]),
 dict(id='R5-bucket-grant-before-stamp', props=['C14'], expect='R-BUCKET/bucket/',
      edits=[(SRV, '\tb.mu.Lock()\n\tdefer b.mu.Unlock()\n\tnow := time.Now()\n', '\tb.mu.Lock()\n\tdefer b.mu.Unlock()\n\tif b.tokens >= 2 {\n\t\tb.tokens--\n\t\treturn true\n\t}\n\tnow := time.Now()\n')]),
 dict(id='R5-extra-auth-in-accept-loop', props=['C09'], expect='R-ACCEPT-COMMIT/accept-not-blocked/',
      edits=[(SR, '\t\t\tgo func() {\n\t\t\t\tif err := authenticateTransport(acceptCtx, conn, r.joinCode, authRoleReceive); err != nil {', '\t\t\tfunc() {\n\t\t\t\tif err := authenticateTransport(acceptCtx, conn, r.joinCode, authRoleReceive); err != nil {')]),
]

# --- fourth triage list (F46-F57, DESIGN 8.11): undo of each repair, a variant, and benign variants that must stay silent ---
_F46_NEW = '\t\t\t\t\t\tif verifiedChunk < totalChunks && forceSendFrom > verifiedChunk {\n\t\t\t\t\t\t\tforceSendFrom = verifiedChunk\n\t\t\t\t\t\t}\n'
_F47_NEW = '\tif chunkSize == 0 || int64(fileSize) < 0 || !chunkCountFits(int64(fileSize), chunkSize) || totalChunks != chunkTotal(int64(fileSize), chunkSize) {\n\t\treturn nil, fmt.Errorf("sidecar inconsistent: %d chunks recorded for %d bytes in chunks of %d", totalChunks, fileSize, chunkSize)\n\t}\n'
_F48_LOOKUP = '\t\tif cur, live := store.GetByJoinCode(joinCode); !live || cur.ID != sess.ID {\n\t\t\tsessionGone = true\n\t\t\treturn false\n\t\t}\n'
_F49_HOST = '\t\t\tfor _, p := range current {\n\t\t\t\tif p.Role == "sender" {\n\t\t\t\t\tsecondHost = true\n\t\t\t\t\treturn false\n\t\t\t\t}\n\t\t\t}\n\t\t\treturn true\n'
_F53_COND = '\t\t\t\t\t\t\tif senderHash != vHash && vChunk < forceSendFrom && bitmap.Get(int(vChunk)) && vChunk >= state.nextChunk {'
_F53_PLAN = '\t\t\t\t\t\tstate.mu.Lock()\n\t\t\t\t\t\tstate.plan = plan\n\t\t\t\t\t\tstate.verifyPending = true\n\t\t\t\t\t\tstate.mu.Unlock()\n'
_F54_LEN = '\t\t\tif want := chunkSizeForIndex(int64(fileSize), chunkSize, chunkIndex); chunkLen != want {\n\t\t\t\tsendReadErr(fmt.Errorf("chunk %d has length %d, want %d", chunkIndex, chunkLen, want))\n\t\t\t\treturn\n\t\t\t}\n'
_F54_SEEN = '\t\t\t\tif seen.Get(int(chunkIndex)) {\n\t\t\t\t\tsendReadErr(fmt.Errorf("chunk %d received twice", chunkIndex))\n\t\t\t\t\treturn\n\t\t\t\t}\n'
_F55_DEFER = '\t\tfor _, state := range states {\n\t\t\t_ = state.sidecar.Flush()\n\t\t\tglobalSidecarFlushRegistry.remove(state.sidecar)\n\t\t}\n\t}()\n\n\tvar statsMu sync.Mutex\n'
_F57_BOUND = '\t\tif open >= dataStreams {\n\t\t\treturn fmt.Errorf("file begin for %s while %d files are open, as many as there are data streams", begin.RelPath, open)\n\t\t}\n'
_F57_DEC = '\t\tstatsMu.Lock()\n\t\tif ok {\n\t\t\tcompletedCount++\n\t\t}\n\t\tif activeCount > 0 {\n\t\t\tactiveCount--\n\t\t}\n\t\tstatsMu.Unlock()\n\n\t\t_ = queueControl(controlMsg{done: &FileDone{'
TQ = 'internal/transport/tuning_quic.go'
WSF = 'internal/app/ws.go'
MUTANTS += [
 # F46
 dict(id='F46-undo-unknown-hash-forces-chunk', props=['C06'], expect='R-UNKNOWN-FORCES/unknown-forces/',
      edits=[(MS, _F46_NEW, '')]),
 dict(id='F46-lowering-outside-unknown-branch-only-when-tail', props=['C06'], expect='R-UNKNOWN-FORCES/unknown-forces/',
      edits=[(MS, _F46_NEW, '\t\t\t\t\t\tif verifiedChunk < totalChunks && forceSendFrom > verifiedChunk && resumeVerifyTail > 1 {\n\t\t\t\t\t\t\tforceSendFrom = verifiedChunk + 1\n\t\t\t\t\t\t}\n')]),
 dict(id='F46-benign-lowering-lt-form', props=['C06', 'C17', 'C04'], expect='SILENT',
      edits=[(MS, _F46_NEW, '\t\t\t\t\t\tif verifiedChunk < forceSendFrom && verifiedChunk < totalChunks {\n\t\t\t\t\t\t\tforceSendFrom = verifiedChunk\n\t\t\t\t\t\t}\n')]),
 # F47
 dict(id='F47-undo-sidecar-count-check', props=['C06', 'C19'], expect='R-SIDECAR-COUNT/sidecar-count/',
      edits=[(SCF, _F47_NEW, '')]),
 dict(id='F47-count-compared-with-bitmap-only', props=['C06', 'C19'], expect='R-SIDECAR-COUNT/sidecar-count/',
      edits=[(SCF, _F47_NEW, '\tif chunkSize == 0 || int64(fileSize) < 0 || !chunkCountFits(int64(fileSize), chunkSize) || int(totalChunks) > len(bitmap)*8 {\n\t\treturn nil, fmt.Errorf("sidecar inconsistent: %d chunks recorded for %d bytes in chunks of %d", totalChunks, fileSize, chunkSize)\n\t}\n')]),
 dict(id='F47-benign-count-check-split', props=['C06', 'C19', 'C01'], expect='SILENT',
      edits=[(SCF, _F47_NEW, '\tif chunkSize == 0 || int64(fileSize) < 0 || !chunkCountFits(int64(fileSize), chunkSize) {\n\t\treturn nil, fmt.Errorf("sidecar inconsistent sizes")\n\t}\n\tif want := chunkTotal(int64(fileSize), chunkSize); want != totalChunks {\n\t\treturn nil, fmt.Errorf("sidecar inconsistent: %d chunks recorded, want %d", totalChunks, want)\n\t}\n')]),
 # F48
 dict(id='F48-undo-admit-rechecks-session', props=['C14', 'C11'], expect='R-ADMIT-LIVE/admit-live/',
      edits=[(SRV, _F48_LOOKUP, '')]),
 dict(id='F48-admit-ignores-session-identity', props=['C14'], expect='R-ADMIT-LIVE/admit-live/',
      edits=[(SRV, _F48_LOOKUP, '\t\tif _, live := store.GetByJoinCode(joinCode); !live {\n\t\t\tsessionGone = true\n\t\t\treturn false\n\t\t}\n')]),
 dict(id='F48-undo-expiry-order', props=['C14', 'C11'], expect='R-ADMIT-LIVE/delete-first/',
      edits=[(SRV, '\t\t\t\t\tstore.Delete(sess.ID)\n\t\t\t\t\thub.CloseSession(sess.ID)\n', '\t\t\t\t\thub.CloseSession(sess.ID)\n\t\t\t\t\tstore.Delete(sess.ID)\n')]),
 dict(id='F48-benign-admit-lookup-two-ifs', props=['C14', 'C11', 'C10'], expect='SILENT',
      edits=[(SRV, _F48_LOOKUP, '\t\tcur, live := store.GetByJoinCode(joinCode)\n\t\tif !live {\n\t\t\tsessionGone = true\n\t\t\treturn false\n\t\t}\n\t\tif cur.ID != sess.ID {\n\t\t\tsessionGone = true\n\t\t\treturn false\n\t\t}\n')]),
 # F49
 dict(id='F49-undo-one-host', props=['C14'], expect='R-ONE-HOST/one-host/',
      edits=[(SRV, _F49_HOST, '\t\t\treturn true\n')]),
 dict(id='F49-second-host-logged-only', props=['C14'], expect='R-ONE-HOST/one-host/',
      edits=[(SRV, _F49_HOST, _F49_HOST.replace('\t\t\t\t\tsecondHost = true\n\t\t\t\t\treturn false\n', '\t\t\t\t\tsecondHost = true\n'))]),
 # F50
 dict(id='F50-undo-min-streams', props=['C03'], expect='R-MIN-STREAMS/min-streams/',
      edits=[(TQ, '\tminQuicMaxStreams = 2\n', '\tminQuicMaxStreams = 1\n')]),
 dict(id='F50-first-open-unbounded-again', props=['C03'], expect='R-OPEN-BOUNDED/open-bounded/',
      edits=[(MS, '\t\topenCtx, openCancel := context.WithTimeout(ctx, dataStreamOpenWait)\n\t\tstream, err := conn.OpenStream(openCtx)\n', '\t\topenCtx, openCancel := context.WithCancel(ctx)\n\t\tstream, err := conn.OpenStream(openCtx)\n')]),
 # F51
 dict(id='F51-undo-writer-validates', props=['C18'], expect='R-HEADER-SYMMETRIC/header-symmetric/',
      edits=[(CP, '\tif err := validateManifest(m); err != nil {\n\t\treturn err\n\t}\n\tif err := writeFullControl(s, []byte(controlMagic), "control magic"); err != nil {', '\tif err := writeFullControl(s, []byte(controlMagic), "control magic"); err != nil {')]),
 dict(id='F51-writer-validates-after-magic', props=['C18'], expect='R-HEADER-SYMMETRIC/header-symmetric/',
      edits=[(CP, '\tif err := validateManifest(m); err != nil {\n\t\treturn err\n\t}\n\tif err := writeFullControl(s, []byte(controlMagic), "control magic"); err != nil {\n\t\treturn fmt.Errorf("failed to write control magic: %w", err)\n\t}\n', '\tif err := writeFullControl(s, []byte(controlMagic), "control magic"); err != nil {\n\t\treturn fmt.Errorf("failed to write control magic: %w", err)\n\t}\n\tif err := validateManifest(m); err != nil {\n\t\treturn err\n\t}\n')]),
 # F52
 dict(id='F52-undo-ws-url-normalised', props=['C16'], expect='R-URL-NORMALISE/url-normalise/app.buildWebSocketURL',
      edits=[(WSF, '\tif l := strings.ToLower(serverURL); !strings.HasPrefix(l, "http://") && !strings.HasPrefix(l, "https://") {\n\t\tserverURL = "http://" + serverURL\n\t}\n', '')]),
 dict(id='F52-benign-ws-url-prefix-slice-form', props=['C16'], expect='SILENT',
      edits=[(WSF, '\tif l := strings.ToLower(serverURL); !strings.HasPrefix(l, "http://") && !strings.HasPrefix(l, "https://") {\n', '\tif !strings.Contains(serverURL, "://") || !strings.EqualFold(serverURL[:4], "http") {\n')]),
 # F53
 dict(id='F53-undo-resend-needs-bit', props=['C17'], expect='R-RESEND-ONCE/resend-once/',
      edits=[(MS, _F53_COND, _F53_COND.replace(' && bitmap.Get(int(vChunk))', ''))]),
 dict(id='F53-undo-resend-not-handed-out', props=['C17'], expect='R-RESEND-ONCE/resend-once/',
      edits=[(MS, _F53_COND, _F53_COND.replace(' && vChunk >= state.nextChunk', ''))]),
 dict(id='F53-resend-handed-out-test-inverted', props=['C17', 'C06'], expect='R-RES',
      edits=[(MS, _F53_COND, _F53_COND.replace('vChunk >= state.nextChunk', 'vChunk < state.nextChunk'))]),
 dict(id='F53-undo-plan-before-verdict', props=['C17'], expect='R-PLAN-BEFORE-VERDICT/plan-before-verdict/',
      edits=[(MS, _F53_PLAN, '\t\t\t\t\t\tstate.mu.Lock()\n\t\t\t\t\t\tstate.verifyPending = true\n\t\t\t\t\t\tstate.mu.Unlock()\n')]),
 dict(id='F53-benign-resend-conjuncts-reordered', props=['C17', 'C06', 'C04'], expect='SILENT',
      edits=[(MS, _F53_COND, '\t\t\t\t\t\t\tif senderHash != vHash && bitmap.Get(int(vChunk)) && state.nextChunk <= vChunk && forceSendFrom > vChunk {')]),
 # F54
 dict(id='F54-undo-legacy-exact-length', props=['C05', 'C19'], expect='R-LEGACY-TILE/legacy-tile/',
      edits=[(MP, _F54_LEN, '')]),
 dict(id='F54-undo-legacy-duplicate-index', props=['C19'], expect='R-LEGACY-TILE/legacy-tile/',
      edits=[(MP, _F54_SEEN, '')]),
 dict(id='F54-legacy-length-upper-bound-only', props=['C05', 'C19'], expect='R-LEGACY-TILE/legacy-tile/',
      edits=[(MP, _F54_LEN, _F54_LEN.replace('chunkLen != want', 'chunkLen > want'))]),
 # F55
 dict(id='F55-undo-registry-cleanup', props=['C05'], expect='R-REGISTRY-BALANCED/registry-balanced/',
      edits=[(MS, _F55_DEFER, _F55_DEFER.replace('\t\t\tglobalSidecarFlushRegistry.remove(state.sidecar)\n', ''))]),
 dict(id='F55-registry-cleanup-skips-failed-flush', props=['C05'], expect='registry-balanced/transfer.RecvManifestMultiStream/every',  # filed as benign in round 5; the round-8 agent showed the defect (seed C05-r8-registry-keeps-failed-flush)
     
      edits=[(MS, _F55_DEFER, _F55_DEFER.replace('\t\t\t_ = state.sidecar.Flush()\n', '\t\t\tif err := state.sidecar.Flush(); err != nil {\n\t\t\t\tcontinue\n\t\t\t}\n'))]),
 # F56
 dict(id='F56-undo-dials-detached', props=['C09'], expect='R-WINNER/losers-end/',
      edits=[(ICE, '\tdialCtx, dialCancel := context.WithCancel(context.WithoutCancel(ctx))\n', '\tdialCtx, dialCancel := context.WithCancel(ctx)\n')]),
 dict(id='F56-cancel-deferred-again', props=['C09'], expect='R-WINNER/losers-end/',
      edits=[(ICE, '\tvar dials sync.WaitGroup\n\tdefer func() {\n\t\tgo func() {\n\t\t\tdials.Wait()\n\t\t\tdialCancel()\n\t\t}()\n\t}()\n', '\tvar dials sync.WaitGroup\n\tdefer dialCancel()\n')]),
 # F57
 dict(id='F57-undo-open-files-bound', props=['C15'], expect='R-OPEN-FILES-BOUNDED/open-files/',
      edits=[(MS, _F57_BOUND, '\t\t_ = open\n')]),
 dict(id='F57-open-files-bound-on-total-files', props=['C15'], expect='R-OPEN-FILES-BOUNDED/open-files/',
      edits=[(MS, _F57_BOUND, _F57_BOUND.replace('if open >= dataStreams {', 'if open >= totalFiles {'))]),
 dict(id='F57-decrement-after-ack', props=['C15'], expect='R-OPEN-FILES-BOUNDED/open-files/closed-before-ack',
      edits=[(MS, _F57_DEC, _F57_DEC.replace('\t\tif activeCount > 0 {\n\t\t\tactiveCount--\n\t\t}\n', '')),
             (MS, '\t\tstatsMu.Lock()\n\t\tremainingBytes -= state.item.Size\n\t\tactive := activeCount\n', '\t\tstatsMu.Lock()\n\t\tif activeCount > 0 {\n\t\t\tactiveCount--\n\t\t}\n\t\tremainingBytes -= state.item.Size\n\t\tactive := activeCount\n')]),
 dict(id='F57-benign-open-files-bound-lt-form', props=['C15', 'C03'], expect='SILENT',
      edits=[(MS, _F57_BOUND, '\t\tif !(open < dataStreams) {\n\t\t\treturn fmt.Errorf("file begin for %s while %d files are open, as many as there are data streams", begin.RelPath, open)\n\t\t}\n')]),
]

# --- round 6 (DESIGN 8.12) and the repairs F57b, F61-F64 ---
QS = 'internal/transferquic/quic.go'
_ADDIF_MAPS = '\tif h.sessions[sessionID] == nil {\n\t\th.sessions[sessionID] = make(map[string]*peerConnection)\n\t}\n\tif h.byPeerID[sessionID] == nil {\n\t\th.byPeerID[sessionID] = make(map[string]string)\n\t}\n'
_ENDWAIT = '\tif totalFiles == 0 {\n\t\tselect {\n\t\tcase <-ackDone:\n\t\tcase <-time.After(endDeliveryWait):\n\t\tcase <-ctx.Done():\n\t\t}\n\t}\n\treturn nil\n}\n'
_F57B = '\t\tif open < dataStreams {\n\t\t\tactiveCount++\n\t\t}\n\t\tstatsMu.Unlock()\n\t\tif open >= dataStreams {'
MUTANTS += [
 # R-VALIDATOR-ALL-ITEMS
 dict(id='R6-text-check-only-for-files-nested', props=['C01', 'C18'], expect='R-VALIDATOR-ALL-ITEMS/all-items/',
      edits=[(CP, '\t\tif !utf8.ValidString(item.RelPath) {\n\t\t\treturn fmt.Errorf("file name %q is not valid UTF-8 and cannot be transferred", item.RelPath)\n\t\t}\n', '\t\tif !item.IsDir {\n\t\t\tif !utf8.ValidString(item.RelPath) {\n\t\t\t\treturn fmt.Errorf("file name %q is not valid UTF-8 and cannot be transferred", item.RelPath)\n\t\t\t}\n\t\t}\n')]),
 dict(id='R6-benign-text-check-joined-condition', props=['C01', 'C18', 'C03'], expect='SILENT',
      edits=[(CP, '\t\tif !utf8.ValidString(item.RelPath) {\n\t\t\treturn fmt.Errorf("file name %q is not valid UTF-8 and cannot be transferred", item.RelPath)\n\t\t}\n\t\tif !utf8.ValidString(item.ID) {\n\t\t\treturn fmt.Errorf("id %q of %s is not valid UTF-8 and cannot be transferred", item.ID, item.RelPath)\n\t\t}\n', '\t\tif !utf8.ValidString(item.RelPath) || !utf8.ValidString(item.ID) {\n\t\t\treturn fmt.Errorf("name %q or id %q is not valid UTF-8 and cannot be transferred", item.RelPath, item.ID)\n\t\t}\n')]),
 # R-FRESH-FALLBACK
 dict(id='R6-fallback-removal-dropped', props=['C06', 'C05'], expect='R-FRESH-FALLBACK/fresh-fallback/',
      edits=[(MS, '\t\t\tif rootedDir != baseDir {\n\t\t\t\t_ = os.Remove(SidecarPath(rootedDir, "", sidecarIdentifier(item)))\n\t\t\t}\n', '')]),
 dict(id='R6-benign-fallback-removal-unconditional', props=['C06', 'C05'], expect='SILENT',
      edits=[(MS, '\t\t\tif rootedDir != baseDir {\n\t\t\t\t_ = os.Remove(SidecarPath(rootedDir, "", sidecarIdentifier(item)))\n\t\t\t}\n', '\t\t\t_ = os.Remove(SidecarPath(rootedDir, "", sidecarIdentifier(item)))\n')]),
 # R-JOIN-AS-CHECKED
 dict(id='R6-sidecarpath-cleans-root', props=['C07'], expect='R-JOIN-AS-CHECKED/join-as-checked/',
      edits=[(SCF, '\tcleanRoot := strings.Trim(root, string(os.PathSeparator))\n', '\tcleanRoot := strings.Trim(filepath.Clean(root), string(os.PathSeparator))\n')]),
 dict(id='R6-benign-sidecarpath-trimright', props=['C07'], expect='SILENT',
      edits=[(SCF, '\tcleanRoot := strings.Trim(root, string(os.PathSeparator))\n', '\tcleanRoot := strings.TrimRight(strings.TrimLeft(root, string(os.PathSeparator)), string(os.PathSeparator))\n')]),
 # R-ADMIT-BEFORE-CREATE
 dict(id='R6-byPeerID-map-created-before-admit', props=['C11'], expect='R-ADMIT-BEFORE-CREATE/admit-before-create/',
      edits=[(HUB, '\th.mu.Lock()\n\tif admit != nil {\n\t\tcurrent := make([]Peer, 0, len(h.sessions[sessionID]))', '\th.mu.Lock()\n\tif h.byPeerID[sessionID] == nil {\n\t\th.byPeerID[sessionID] = make(map[string]string)\n\t}\n\tif admit != nil {\n\t\tcurrent := make([]Peer, 0, len(h.sessions[sessionID]))')]),
 dict(id='R6-benign-maps-created-in-else-of-refusal', props=['C11', 'C10'], expect='SILENT',
      edits=[(HUB, _ADDIF_MAPS, '\tif _, have := h.sessions[sessionID]; !have {\n\t\th.sessions[sessionID] = make(map[string]*peerConnection)\n\t}\n\tif _, have := h.byPeerID[sessionID]; !have {\n\t\th.byPeerID[sessionID] = make(map[string]string)\n\t}\n')]),
 # R-DECLARED-COUNT
 dict(id='R6-items-slice-sized-by-total', props=['C15'], expect='R-DECLARED-COUNT/declared-count/',
      edits=[(MS, '\texpectedFiles := make(map[string]int64)\n\titemByRelPath := make(map[string]manifest.FileItem)\n\tvar remainingBytes int64\n', '\texpectedFiles := make(map[string]int64, m.FileCount+m.FolderCount)\n\titemByRelPath := make(map[string]manifest.FileItem)\n\tvar remainingBytes int64\n')]),
 dict(id='R6-benign-map-sized-by-len-items', props=['C15'], expect='SILENT',
      edits=[(MS, '\texpectedFiles := make(map[string]int64)\n\titemByRelPath := make(map[string]manifest.FileItem)\n\tvar remainingBytes int64\n', '\texpectedFiles := make(map[string]int64, len(m.Items))\n\titemByRelPath := make(map[string]manifest.FileItem)\n\tvar remainingBytes int64\n')]),
 # R-ACTIVE-BOUND
 dict(id='R6-active-files-by-planned-streams', props=['C03'], expect='R-ACTIVE-BOUND/active-bound/',
      edits=[(MS, '\t\t\tfor len(activeFiles) < parallelStreams {', '\t\t\tfor len(activeFiles) < cap(dataStreams) {')]),
 # R-NAME-REFUSALS
 dict(id='R6-relpath-refuses-control-characters', props=['C03'], expect='R-NAME-REFUSALS/refusal/',
      edits=[(MP, '\t// Check for empty path\n\tif relPath == "" {\n\t\treturn ErrInvalidRelPath\n\t}\n', '\t// Check for empty path\n\tif relPath == "" {\n\t\treturn ErrInvalidRelPath\n\t}\n\tif strings.ContainsAny(relPath, "\\t\\n:*?") {\n\t\treturn ErrInvalidRelPath\n\t}\n')]),
 dict(id='R6-benign-relpath-empty-first', props=['C03', 'C07'], expect='SILENT',
      edits=[(MP, '\tif len(relPath) > maxRelPathLength {\n\t\treturn ErrRelPathTooLong\n\t}\n', '\tif relPath == "" {\n\t\treturn ErrInvalidRelPath\n\t}\n\tif len(relPath) > maxRelPathLength {\n\t\treturn ErrRelPathTooLong\n\t}\n')]),
 # F57b
 dict(id='F57b-undo-counted-before-visible', props=['C15'], expect='R-OPEN-FILES-BOUNDED/open-files/counted-before-visible',
      edits=[(MS, _F57B, '\t\tstatsMu.Unlock()\n\t\tif open >= dataStreams {'),
             (MS, '\t\tstatsMu.Lock()\n\t\tactive := activeCount\n\t\tcompleted := completedCount\n\t\tremaining := remainingBytes\n\t\tstatsMu.Unlock()\n\t\tupdateStats(active, completed, remaining)\n\t\tif opts.Resume {', '\t\tstatsMu.Lock()\n\t\tactiveCount++\n\t\tactive := activeCount\n\t\tcompleted := completedCount\n\t\tremaining := remainingBytes\n\t\tstatsMu.Unlock()\n\t\tupdateStats(active, completed, remaining)\n\t\tif opts.Resume {')]),
 # F61
 dict(id='F61-undo-end-delivery-wait', props=['C03'], expect='R-END-DELIVERED/end-delivered/',
      edits=[(MS, _ENDWAIT, '\treturn nil\n}\n')]),
 dict(id='F61-wait-on-timer-only', props=['C03'], expect='R-END-DELIVERED/end-delivered/',
      edits=[(MS, _ENDWAIT, '\tif totalFiles == 0 {\n\t\tselect {\n\t\tcase <-time.After(50 * time.Millisecond):\n\t\tcase <-ctx.Done():\n\t\t}\n\t}\n\treturn nil\n}\n')]),
 # F62
 dict(id='F62-undo-close-cancels-read', props=['C03'], expect='R-CLOSE-RELEASES/close-releases/',
      edits=[(QS, '\t(*s.stream).CancelRead(0)\n', '')]),
 # F63
 dict(id='F63-undo-scheme-prefix', props=['C16'], expect='R-URL-NORMALISE/url-normalise/app.buildWebSocketURL/scheme',
      edits=[(WSF, '\tif l := strings.ToLower(serverURL); !strings.HasPrefix(l, "http://") && !strings.HasPrefix(l, "https://") {', '\tif l := strings.ToLower(serverURL); !strings.HasPrefix(l, "http") {')]),
 # F64
 dict(id='F64-undo-early-count-excludes-self', props=['C14', 'C16'], expect='R-RECEIVER-COUNT/receiver-count/',
      edits=[(SRV, '\t\t\tif p.Role == "receiver" && p.PeerID != peerID {', '\t\t\tif p.Role == "receiver" {')]),
 dict(id='F64-benign-early-count-continue-self', props=['C14', 'C16'], expect='SILENT',
      edits=[(SRV, '\t\t\tif p.Role == "receiver" && p.PeerID != peerID {\n\t\t\t\treceivers++\n\t\t\t}\n', '\t\t\tif p.PeerID == peerID {\n\t\t\t\tcontinue\n\t\t\t}\n\t\t\tif p.Role == "receiver" {\n\t\t\t\treceivers++\n\t\t\t}\n')]),
]

MUTANTS += [
 dict(id='F65-undo-read-error-collected', props=['C02'], expect='R-LEGACY-READ-ERR/legacy-read-err/',
      edits=[(MP, '\tselect {\n\tcase err := <-readErrChan:\n\t\treturn 0, err\n\tdefault:\n\t}\n\n\t<-flushDone', '\t<-flushDone')]),
]

MUTANTS += [
 dict(id='R6-benign-relpath-refuses-nul', props=['C03', 'C07'], expect='SILENT',
      edits=[(MP, '\t// Check for empty path\n\tif relPath == "" {\n\t\treturn ErrInvalidRelPath\n\t}\n', '\t// Check for empty path\n\tif relPath == "" {\n\t\treturn ErrInvalidRelPath\n\t}\n\tif strings.ContainsRune(relPath, 0) {\n\t\treturn ErrInvalidRelPath\n\t}\n')]),
 dict(id='R6-benign-close-cancels-after-close', props=['C03'], expect='SILENT',
      edits=[(QS, '\t(*s.stream).CancelRead(0)\n\tif err := (*s.stream).Close(); err != nil {\n\t\treturn fmt.Errorf("failed to close QUIC stream: %w", err)\n\t}\n', '\terr := (*s.stream).Close()\n\t(*s.stream).CancelRead(0)\n\tif err != nil {\n\t\treturn fmt.Errorf("failed to close QUIC stream: %w", err)\n\t}\n')]),
 dict(id='R6-benign-end-wait-with-timer-variable', props=['C03'], expect='SILENT',
      edits=[(MS, _ENDWAIT, '\tif totalFiles == 0 {\n\t\tlinger := time.NewTimer(endDeliveryWait)\n\t\tdefer linger.Stop()\n\t\tselect {\n\t\tcase <-ackDone:\n\t\tcase <-linger.C:\n\t\tcase <-ctx.Done():\n\t\t}\n\t}\n\treturn nil\n}\n')]),
]

# --- round 7 (DESIGN 8.14) ---
MUTANTS += [
 dict(id='R7-ack-faked-for-small-files', props=['C02'], expect='R-ACK-FROM-PEER/ack-from-peer/',
      edits=[(MS, '\t\t\tfileDone, err := doneRegistry.wait(transferCtx, state.key)\n\t\t\tif err != nil {\n\t\t\t\tsetErr(err)\n\t\t\t\treturn\n\t\t\t}\n', '\t\t\tfileDone, err := doneRegistry.wait(transferCtx, state.key)\n\t\t\tif err != nil {\n\t\t\t\tsetErr(err)\n\t\t\t\treturn\n\t\t\t}\n\t\t\tif state.item.Size == 0 && !fileDone.OK {\n\t\t\t\tfileDone = FileDone{StreamID: state.key, OK: true}\n\t\t\t}\n')]),
 dict(id='R7-benign-ack-two-step-declaration', props=['C02', 'C01'], expect='SILENT',
      edits=[(MS, '\t\t\tfileDone, err := doneRegistry.wait(transferCtx, state.key)\n\t\t\tif err != nil {\n\t\t\t\tsetErr(err)\n\t\t\t\treturn\n\t\t\t}\n', '\t\t\tack, err := doneRegistry.wait(transferCtx, state.key)\n\t\t\tif err != nil {\n\t\t\t\tsetErr(err)\n\t\t\t\treturn\n\t\t\t}\n\t\t\tfileDone := ack\n')]),
 dict(id='R7-rejected-primary-kept', props=['C05', 'C06'], expect='R-REJECTED-REMOVED/rejected-removed/',
      edits=[(SCF, '\t\tif sc.ChunkSize != chunkSize || sc.FileSize != fileSize || sc.FileID != fileID {\n\t\t\t_ = os.Remove(path)\n\t\t\tsc = nil\n', '\t\tif sc.ChunkSize != chunkSize || sc.FileSize != fileSize || sc.FileID != fileID {\n\t\t\tsc = nil\n')]),
 dict(id='R7-file-end-under-sched-lock-only', props=['C18'], expect='R-CONTROL-WRITE-SERIAL/control-write-serial/',
      edits=[(MS, '\tvar controlWriteMu sync.Mutex\n', '\tvar controlWriteMu sync.Mutex\n\tvar endWriteMu sync.Mutex\n'),
             (MS, '\t\tcontrolWriteMu.Lock()\n\t\terr := writeFileEnd(', '\t\tendWriteMu.Lock()\n\t\terr := writeFileEnd('),
             (MS, '\t\t\tCRC32: state.frameCount(),\n\t\t})\n\t\tcontrolWriteMu.Unlock()\n', '\t\t\tCRC32: state.frameCount(),\n\t\t})\n\t\tendWriteMu.Unlock()\n')]),
 dict(id='R7-cancel-in-phase-waiter', props=['C09'], expect='R-CANCEL-OWNER/cancel/ice.(*Prober).ProbeAndDial/dialCancel',
      edits=[(ICE, '\t\t\twg.Wait()\n\t\t\tclose(allDone)\n', '\t\t\twg.Wait()\n\t\t\tdialCancel()\n\t\t\tclose(allDone)\n')]),
]

# --- F66 ---
PT = 'internal/app/progress_throttle.go'
MUTANTS += [
 dict(id='F66-undo-ticker-stop-signal', props=['C12', 'C03'], expect='R-TICKER-STOP/ticker-stop/',
      edits=[(PT, '\t\tstopOnce.Do(func() { close(stop) })\n', '\t\tstopOnce.Do(func() {})\n')]),
 dict(id='F66-undo-left-mark', props=['C12'], expect='R-FINISHED-WHILE-LEAVING/finished-while-leaving/marked',
      edits=[(SS, '\t\tslot.left = true\n', '')]),
 dict(id='F66-undo-done-while-leaving', props=['C12', 'C03'], expect='R-FINISHED-WHILE-LEAVING/finished-while-leaving/done',
      edits=[(SS, '\tif state != nil && (s.active[peerID] == slot || finishedWhileLeaving) {', '\t_ = finishedWhileLeaving\n\tif state != nil && s.active[peerID] == slot {')]),
 dict(id='F66-done-while-leaving-ignores-newer-slot', props=['C12'], expect='R-SLOTS/release/runTransfer/status',
      edits=[(SS, 'finishedWhileLeaving := err == nil && slot.left && state != nil && s.active[peerID] == nil && state.Status == ReceiverStatusFailed', 'finishedWhileLeaving := err == nil && slot.left && state != nil && state.Status == ReceiverStatusFailed')]),
 dict(id='F66-benign-end-wait-has-files-form', props=['C03', 'C02'], expect='SILENT',
      edits=[(MS, '\tif totalFiles == 0 {\n\t\tselect {\n\t\tcase <-ackDone:', '\tif !(totalFiles > 0) {\n\t\tselect {\n\t\tcase <-ackDone:')]),
]

# --- round 8 (DESIGN 8.16) ---
MUTANTS += [
 dict(id='R8-benign-flush-write-helper', props=['C05', 'C04', 'C01', 'C02', 'C06', 'C18', 'C19'], expect='SILENT',
      edits=[(SC, '\tif s == nil || !s.dirty {\n\t\treturn nil\n\t}\n\tif err := os.MkdirAll(filepath.Dir(s.Path), 0755); err != nil {',
                  '\tif s == nil || !s.dirty {\n\t\treturn nil\n\t}\n\tif err := s.write(s.bitmap.Marshal()); err != nil {\n\t\treturn err\n\t}\n\ts.dirty = false\n\treturn nil\n}\n\nfunc (s *Sidecar) write(bitmap []byte) error {\n\tif err := os.MkdirAll(filepath.Dir(s.Path), 0755); err != nil {'),
             (SC, '\tbitmap := s.bitmap.Marshal()\n\tfor _, u := range s.unconfirmed {', '\tfor _, u := range s.unconfirmed {'),
             (SC, '\tif err := os.Rename(temp, s.Path); err != nil {\n\t\treturn err\n\t}\n\ts.dirty = false\n\treturn nil\n}', '\treturn os.Rename(temp, s.Path)\n}')]),
]
MUTANTS += [
 dict(id='R8-needend-also-nothing-missing', props=['C01'], expect='whenever-skipped',
      edits=[(MS, '\t\t\tstate.needEnd = skipped > 0\n', '\t\t\tstate.needEnd = skipped > 0 && totalChunks > skipped\n')]),
 dict(id='R8-benign-needend-geq-one', props=['C01', 'C06', 'C17'], expect='SILENT',
      edits=[(MS, '\t\t\tstate.needEnd = skipped > 0\n', '\t\t\tstate.needEnd = skipped >= 1\n')]),
 dict(id='R8-benign-needend-or-more', props=['C01', 'C06', 'C17'], expect='SILENT',
      edits=[(MS, '\t\t\tstate.needEnd = skipped > 0\n', '\t\t\tresumed := skipped > 0\n\t\t\tstate.needEnd = resumed || state.remaining == 0\n')]),
 dict(id='R8-flush-unlocks-before-write', props=['C05', 'C04'], expect='R-FLUSH-SERIAL/flush-serial/',
      edits=[(SC, '\ts.mu.Lock()\n\tdefer s.mu.Unlock()\n\tif s == nil || !s.dirty {\n\t\treturn nil\n\t}\n\tif err := os.MkdirAll(', '\ts.mu.Lock()\n\tif s == nil || !s.dirty {\n\t\ts.mu.Unlock()\n\t\treturn nil\n\t}\n\ts.mu.Unlock()\n\tif err := os.MkdirAll(')]),
 dict(id='R8-benign-registry-flush-error-logged', props=['C05', 'C04'], expect='SILENT',
      edits=[(MS, '\t\t\t_ = state.sidecar.Flush()\n\t\t\tglobalSidecarFlushRegistry.remove(state.sidecar)\n', '\t\t\tif err := state.sidecar.Flush(); err != nil {\n\t\t\t\tlogger := opts.ProgressFn\n\t\t\t\t_ = logger\n\t\t\t}\n\t\t\tglobalSidecarFlushRegistry.remove(state.sidecar)\n')]),
 dict(id='R8-registry-break-on-failed-flush', props=['C05'], expect='registry-balanced/transfer.RecvManifestMultiStream/every',
      edits=[(MS, '\t\t\t_ = state.sidecar.Flush()\n\t\t\tglobalSidecarFlushRegistry.remove(state.sidecar)\n', '\t\t\tif err := state.sidecar.Flush(); err != nil {\n\t\t\t\tbreak\n\t\t\t}\n\t\t\tglobalSidecarFlushRegistry.remove(state.sidecar)\n')]),
 dict(id='R8-report-count-below-highest-refused', props=['C04'], expect='R-REPORT-ACCEPTED/report-accepted/',
      edits=[(MS, '\t\t\t\t\tverifiedChunk := info.LastVerifiedChunk\n\t\t\t\t\tif verifiedChunk < totalChunks {\n\t\t\t\t\t\tforceSendFrom = verifiedChunk + 1', '\t\t\t\t\tverifiedChunk := info.LastVerifiedChunk\n\t\t\t\t\tif completedChunks <= verifiedChunk && verifiedChunk < totalChunks {\n\t\t\t\t\t\treturn fmt.Errorf("resume info for %s has gaps", state.item.RelPath)\n\t\t\t\t\t}\n\t\t\t\t\tif verifiedChunk < totalChunks {\n\t\t\t\t\t\tforceSendFrom = verifiedChunk + 1')]),
 dict(id='R8-benign-report-count-upper-bound', props=['C04'], expect='SILENT',
      edits=[(MS, '\t\t\t\t\tverifiedChunk := info.LastVerifiedChunk\n\t\t\t\t\tif verifiedChunk < totalChunks {\n\t\t\t\t\t\tforceSendFrom = verifiedChunk + 1', '\t\t\t\t\tverifiedChunk := info.LastVerifiedChunk\n\t\t\t\t\tif completedChunks > totalChunks {\n\t\t\t\t\t\treturn fmt.Errorf("resume info for %s marks more chunks than the file has", state.item.RelPath)\n\t\t\t\t\t}\n\t\t\t\t\tif verifiedChunk < totalChunks {\n\t\t\t\t\t\tforceSendFrom = verifiedChunk + 1')]),
 dict(id='R8-marked-chunk-refused', props=['C04', 'C06'], expect='R-REPEAT-ACCEPTED/repeat-accepted/',
      edits=[(MS, '\t\t\t\t\tdataErrCh <- err\n\t\t\t\t\treturn\n\t\t\t\t}\n\t\t\t\tbufPool := chunkPoolFor(state.chunkSize)\n\t\t\t\tif bufPool == nil {\n\t\t\t\t\tbufPool = bufpool.New(int(state.chunkSize))\n\t\t\t\t}\n\t\t\t\tbuf := bufPool.Get()\n\t\t\t\tif int(chunkLen) > len(buf) {',
                  '\t\t\t\t\tdataErrCh <- err\n\t\t\t\t\treturn\n\t\t\t\t}\n\t\t\t\tif state.sidecar != nil && state.sidecar.IsComplete(chunkIndex) {\n\t\t\t\t\terr := fmt.Errorf("chunk %d of %s came twice", chunkIndex, state.item.RelPath)\n\t\t\t\t\tfinalizeFile(state, false, err.Error())\n\t\t\t\t\tdataErrCh <- err\n\t\t\t\t\treturn\n\t\t\t\t}\n\t\t\t\tbufPool := chunkPoolFor(state.chunkSize)\n\t\t\t\tif bufPool == nil {\n\t\t\t\t\tbufPool = bufpool.New(int(state.chunkSize))\n\t\t\t\t}\n\t\t\t\tbuf := bufPool.Get()\n\t\t\t\tif int(chunkLen) > len(buf) {')]),
 dict(id='R8-benign-marked-chunk-noted', props=['C04', 'C06'], expect='SILENT',
      edits=[(MS, '\t\t\t\t\tdataErrCh <- err\n\t\t\t\t\treturn\n\t\t\t\t}\n\t\t\t\tbufPool := chunkPoolFor(state.chunkSize)\n\t\t\t\tif bufPool == nil {\n\t\t\t\t\tbufPool = bufpool.New(int(state.chunkSize))\n\t\t\t\t}\n\t\t\t\tbuf := bufPool.Get()\n\t\t\t\tif int(chunkLen) > len(buf) {',
                  '\t\t\t\t\tdataErrCh <- err\n\t\t\t\t\treturn\n\t\t\t\t}\n\t\t\t\trepeated := state.sidecar != nil && state.sidecar.IsComplete(chunkIndex)\n\t\t\t\t_ = repeated\n\t\t\t\tbufPool := chunkPoolFor(state.chunkSize)\n\t\t\t\tif bufPool == nil {\n\t\t\t\t\tbufPool = bufpool.New(int(state.chunkSize))\n\t\t\t\t}\n\t\t\t\tbuf := bufPool.Get()\n\t\t\t\tif int(chunkLen) > len(buf) {')]),
 dict(id='R8-giveup-bare-number', props=['C09'], expect='R-GIVEUP-NOT-SHORTER/giveup/',
      edits=[(SR, '\t\t\t\tgiveUp = time.After(10 * time.Second)\n', '\t\t\t\tgiveUp = time.After(10)\n')]),
 dict(id='R8-giveup-half-the-auth-timeout', props=['C09'], expect='R-GIVEUP-NOT-SHORTER/giveup/timer',
      edits=[(SR, '\t\t\t\tgiveUp = time.After(10 * time.Second)\n', '\t\t\t\tgiveUp = time.After(5 * time.Second)\n')]),
 dict(id='R8-benign-giveup-longer', props=['C09', 'C08'], expect='SILENT',
      edits=[(SR, '\t\t\t\tgiveUp = time.After(10 * time.Second)\n', '\t\t\t\tgiveUp = time.After(15 * time.Second)\n')]),
 dict(id='R8-benign-overrate-break-only', props=['C10', 'C14'], expect='SILENT',
      edits=[(SRV, '\t\t\tlogger.Warn("websocket message rate limit exceeded", "peer_id", peerID)\n\t\t\tconn.Close()\n\t\t\tbreak\n', '\t\t\tlogger.Warn("websocket message rate limit exceeded", "peer_id", peerID)\n\t\t\tbreak\n')]),
 dict(id='R8-overrate-goto-next-frame', props=['C10'], expect='R-OVERRATE-CLOSES/overrate-closes/',
      edits=[(SRV, '\t\tif limits.msgRatePerSec > 0 && !msgLimiter.Allow() {\n\t\t\tlogger.Warn("websocket message rate limit exceeded", "peer_id", peerID)\n\t\t\tconn.Close()\n\t\t\tbreak\n\t\t}\n', '\t\tif limits.msgRatePerSec <= 0 || msgLimiter.Allow() {\n\t\t} else {\n\t\t\tlogger.Warn("websocket message rate limit exceeded", "peer_id", peerID)\n\t\t\tcontinue\n\t\t}\n')]),
 dict(id='R8-benign-closefn-logs', props=['C11', 'C10'], expect='SILENT',
      edits=[(SRV, 'removePeer, admitted := hub.AddIf(sess.ID, peer, sendFunc, func() { _ = conn.Close() }, admit)', 'closePeer := func() {\n\t\tlogger.Info("closing connection on the hub\'s behalf", "peer_id", peerID)\n\t\t_ = conn.Close()\n\t}\n\tremovePeer, admitted := hub.AddIf(sess.ID, peer, sendFunc, closePeer, admit)')]),
 dict(id='R8-benign-closefn-close-frame-unlocked', props=['C11', 'C10'], expect='SILENT',
      edits=[(SRV, 'removePeer, admitted := hub.AddIf(sess.ID, peer, sendFunc, func() { _ = conn.Close() }, admit)', 'closePeer := func() {\n\t\t_ = conn.WriteControl(websocket.CloseMessage, websocket.FormatCloseMessage(websocket.CloseGoingAway, "closed by server"), time.Now().Add(time.Second))\n\t\t_ = conn.Close()\n\t}\n\tremovePeer, admitted := hub.AddIf(sess.ID, peer, sendFunc, closePeer, admit)')]),
 dict(id='R8-closefn-through-sendfunc', props=['C11'], expect='R-CLOSEFN-NONBLOCKING/closefn/',
      edits=[(SRV, 'removePeer, admitted := hub.AddIf(sess.ID, peer, sendFunc, func() { _ = conn.Close() }, admit)', 'closePeer := func() {\n\t\tbye, _ := protocol.NewEnvelope(protocol.TypePeerLeft, protocol.NewMsgID(), protocol.PeerLeft{PeerID: peerID})\n\t\t_ = sendFunc(bye)\n\t\t_ = conn.Close()\n\t}\n\tremovePeer, admitted := hub.AddIf(sess.ID, peer, sendFunc, closePeer, admit)')]),
 dict(id='R8-failed-only-when-not-deadline', props=['C12'], expect='R-SLOTS/release/runTransfer/settled',
      edits=[(SS, '\t\tif err == nil {\n\t\t\tstate.Status = ReceiverStatusDone\n\t\t} else {\n\t\t\tstate.Status = ReceiverStatusFailed\n', '\t\tif err == nil {\n\t\t\tstate.Status = ReceiverStatusDone\n\t\t} else if err != context.DeadlineExceeded {\n\t\t\tstate.Status = ReceiverStatusFailed\n')]),
 dict(id='R8-benign-ping-floor-half-millisecond', props=['C16'], expect='SILENT',
      edits=[(SRV, '\t\tif pingEvery < time.Millisecond {\n\t\t\tpingEvery = time.Millisecond\n\t\t}\n', '\t\tif pingEvery < 500*time.Microsecond {\n\t\t\tpingEvery = 500 * time.Microsecond\n\t\t}\n')]),
 dict(id='R8-ping-floor-hundred-milliseconds', props=['C16'], expect='/floor#1',
      edits=[(SRV, '\t\tif pingEvery < time.Millisecond {\n\t\t\tpingEvery = time.Millisecond\n\t\t}\n', '\t\tif pingEvery < 100*time.Millisecond {\n\t\t\tpingEvery = 100 * time.Millisecond\n\t\t}\n')]),
 dict(id='R8-benign-discard-scratch-fixed-size', props=['C15'], expect='SILENT',
      edits=[(MS, 'func discardWithTimeout(ctx context.Context, s Stream, n int64, scratch []byte) error {\n', 'func discardWithTimeout(ctx context.Context, s Stream, n int64, scratch []byte) error {\n\tif len(scratch) < 4096 {\n\t\tscratch = make([]byte, 4096)\n\t}\n')]),
 dict(id='R8-discard-scratch-min-of-wire', props=['C15'], expect='R-ALLOC/alloc/transfer.discardWithTimeout',
      edits=[(MS, 'func discardWithTimeout(ctx context.Context, s Stream, n int64, scratch []byte) error {\n', 'func discardWithTimeout(ctx context.Context, s Stream, n int64, scratch []byte) error {\n\tif want := n / 2; int64(len(scratch)) < want {\n\t\tscratch = make([]byte, want)\n\t}\n')]),
 dict(id='R8-filedone-length-refused-by-reader-only', props=['C18'], expect='R-CODEC/record/controlTypeFileDone/domain',
      edits=[(CP, '\tif errLen > 0 {\n\t\terrMsg := make([]byte, errLen)', '\tif errLen > 0 {\n\t\tif errLen > 32768 {\n\t\t\treturn msg, fmt.Errorf("err msg too long: %d", errLen)\n\t\t}\n\t\terrMsg := make([]byte, errLen)')]),
]

# --- F67-F69 (DESIGN 8.17) ---
MUTANTS += [
 dict(id='F67-undo-nul-test', props=['C08'], expect='R-AUTH-KEY-PLAIN/auth-key-plain/',
      edits=[(TA, 'if strings.IndexByte(joinCode, 0) >= 0 || len(joinCode) > sha256.BlockSize {', 'if strings.HasPrefix(joinCode, " ") || len(joinCode) > sha256.BlockSize {')]),
 dict(id='F67-length-bound-too-wide', props=['C08'], expect='R-AUTH-KEY-PLAIN/auth-key-plain/',
      edits=[(TA, 'len(joinCode) > sha256.BlockSize {', 'len(joinCode) > 4096 {')]),
 dict(id='F67-test-behind-the-key', props=['C08'], expect='R-AUTH-KEY-PLAIN/auth-key-plain/',
      edits=[(TA, '\tif strings.IndexByte(joinCode, 0) >= 0 || len(joinCode) > sha256.BlockSize {\n\t\treturn nil, fmt.Errorf("invalid join code")\n\t}\n\tmac := hmac.New(sha256.New, []byte(joinCode))\n\t_, _ = mac.Write(ekm)\n',
                  '\tmac := hmac.New(sha256.New, []byte(joinCode))\n\t_, _ = mac.Write(ekm)\n\tif strings.IndexByte(joinCode, 0) >= 0 || len(joinCode) > sha256.BlockSize {\n\t\treturn nil, fmt.Errorf("invalid join code")\n\t}\n')]),
 dict(id='F67-benign-two-tests-contains-form', props=['C08'], expect='SILENT',
      edits=[(TA, '\tif strings.IndexByte(joinCode, 0) >= 0 || len(joinCode) > sha256.BlockSize {\n\t\treturn nil, fmt.Errorf("invalid join code")\n\t}\n',
                  '\tif strings.Contains(joinCode, "\\x00") {\n\t\treturn nil, fmt.Errorf("invalid join code: NUL byte")\n\t}\n\tif len(joinCode) > 64 {\n\t\treturn nil, fmt.Errorf("invalid join code: too long")\n\t}\n')]),
 dict(id='F68-undo-read-helper-says-abandoned', props=['C01', 'C02'], expect='R-ABANDONED-BUF/abandoned-buf/helper/transfer.readAtWithPool',
      edits=[(MP, '\t\treturn 0, &abandonedIOError{err: ctx.Err()}\n', '\t\treturn 0, ctx.Err()\n')]),
 dict(id='F68-undo-write-helper-says-abandoned', props=['C01', 'C02'], expect='R-ABANDONED-BUF/abandoned-buf/helper/transfer.writeAtWithTimeout',
      edits=[(MP, '\t\treturn fmt.Errorf("receiver write timeout after 10m")\n\tcase <-ctx.Done():\n\t\treturn &abandonedIOError{err: ctx.Err()}\n', '\t\treturn fmt.Errorf("receiver write timeout after 10m")\n\tcase <-ctx.Done():\n\t\treturn ctx.Err()\n')]),
 dict(id='F68-undo-sender-worker-release', props=['C01', 'C02'], expect='R-ABANDONED-BUF/abandoned-buf/caller/transfer.SendManifestMultiStream',
      edits=[(MS, '\t\t\t\t\treleaseChunkBuf(bufPool, buf, err)\n\t\t\t\t\tsetErr(fmt.Errorf("failed to read file', '\t\t\t\t\tbufPool.Put(buf)\n\t\t\t\t\tsetErr(fmt.Errorf("failed to read file')]),
 dict(id='F68-undo-legacy-deferred-release', props=['C01', 'C02'], expect='R-ABANDONED-BUF/abandoned-buf/caller/transfer.receiveFileChunksWindowed',
      edits=[(MP, '\t\t\t\t\treleaseChunkBuf(bufPool, c.buf, writeErr)\n', '\t\t\t\t\t_ = writeErr\n\t\t\t\t\tbufPool.Put(c.buf)\n')]),
 dict(id='F68-benign-inline-guard', props=['C01', 'C02'], expect='SILENT',
      edits=[(MS, '\t\t\t\t\treleaseChunkBuf(bufPool, buf, err)\n\t\t\t\t\tsetErr(fmt.Errorf("failed to read file', '\t\t\t\t\tif !bufferAbandoned(err) {\n\t\t\t\t\t\tbufPool.Put(buf)\n\t\t\t\t\t}\n\t\t\t\t\tsetErr(fmt.Errorf("failed to read file')]),
 dict(id='F68-release-ignores-the-error', props=['C01', 'C02'], expect='R-ABANDONED-BUF/abandoned-buf/',
      edits=[(MP, '\tif bufferAbandoned(err) {\n\t\treturn\n\t}\n\tpool.Put(buf)\n', '\t_ = bufferAbandoned(err)\n\tpool.Put(buf)\n')]),
 dict(id='F69-undo-duplicate-test', props=['C17', 'C03'], expect='R-PATHS-DISTINCT/paths-distinct/refused',
      edits=[(MP, '\t\tif _, dup := seen[item.RelPath]; dup {\n\t\t\treturn fmt.Errorf("invalid manifest: path %q is listed twice", item.RelPath)\n\t\t}\n', '')]),
 dict(id='F69-path-not-recorded', props=['C17', 'C03'], expect='R-PATHS-DISTINCT/paths-distinct/recorded',
      edits=[(MP, '\t\tseen[item.RelPath] = struct{}{}\n', '\t\tif item.IsDir {\n\t\t\tseen[item.RelPath] = struct{}{}\n\t\t}\n')]),
 dict(id='F69-benign-bool-map', props=['C17', 'C03', 'C07'], expect='SILENT',
      edits=[(MP, '\tseen := make(map[string]struct{}, len(m.Items))\n', '\tseen := make(map[string]bool, len(m.Items))\n'),
             (MP, '\t\tif _, dup := seen[item.RelPath]; dup {\n', '\t\tif seen[item.RelPath] {\n'),
             (MP, '\t\tseen[item.RelPath] = struct{}{}\n', '\t\tseen[item.RelPath] = true\n')]),
]
MUTANTS += [
 dict(id='R8-benign-settled-nested-state-test', props=['C12', 'C03'], expect='SILENT',
      edits=[(SS, '\tif state != nil && (s.active[peerID] == slot || finishedWhileLeaving) {\n\t\tstate.LastSeen = now\n\t\tif err == nil {\n\t\t\tstate.Status = ReceiverStatusDone\n\t\t} else {\n\t\t\tstate.Status = ReceiverStatusFailed\n\t\t\t// Mark stage as failed if it hasn\'t reached connect_ok\n\t\t\ts.mu.Unlock() // avoid deadlock as setSenderStage locks s.progressMu then state.mu\n\t\t\ts.setSenderStage(peerID, fmt.Sprintf("FAILED: %v", err))\n\t\t\ts.mu.Lock()\n\t\t}\n\t}\n',
                  '\tif s.active[peerID] == slot || finishedWhileLeaving {\n\t\tif state != nil {\n\t\t\tstate.LastSeen = now\n\t\t\tif err == nil {\n\t\t\t\tstate.Status = ReceiverStatusDone\n\t\t\t} else {\n\t\t\t\tstate.Status = ReceiverStatusFailed\n\t\t\t\t// Mark stage as failed if it hasn\'t reached connect_ok\n\t\t\t\ts.mu.Unlock() // avoid deadlock as setSenderStage locks s.progressMu then state.mu\n\t\t\t\ts.setSenderStage(peerID, fmt.Sprintf("FAILED: %v", err))\n\t\t\t\ts.mu.Lock()\n\t\t\t}\n\t\t}\n\t}\n')]),
]

# --- F70 (DESIGN 8.17, Z5) ---
_F70_NEW = '''		peerStillConnected, sessionEnded := false, false
		hub.Inspect(sess.ID, func(current []peers.Peer) {
			senderStillConnected := false
			for _, p := range current {
				if p.PeerID == peerID {
					peerStillConnected = true
				}
				if p.Role == "sender" {
					senderStillConnected = true
				}
			}
			if role == "sender" && !senderStillConnected {
				store.Delete(sess.ID)
				sessionEnded = true
			}
		})
'''
_F70_OLD = '''		peerStillConnected, sessionEnded := false, false
		senderStillConnected := false
		for _, p := range hub.List(sess.ID) {
			if p.PeerID == peerID {
				peerStillConnected = true
			}
			if p.Role == "sender" {
				senderStillConnected = true
			}
		}
		if role == "sender" && !senderStillConnected {
			store.Delete(sess.ID)
			sessionEnded = true
		}
'''
MUTANTS += [
 dict(id='F70-undo-decision-under-hub-lock', props=['C14'], expect='R-SESSION-LIFE/host-cleanup/delete-under-hub-lock',
      edits=[(SRV, _F70_NEW, _F70_OLD)]),
 dict(id='F70-delete-behind-inspect', props=['C14'], expect='R-SESSION-LIFE/host-cleanup/delete-under-hub-lock',
      edits=[(SRV, '\t\t\tif role == "sender" && !senderStillConnected {\n\t\t\t\tstore.Delete(sess.ID)\n\t\t\t\tsessionEnded = true\n\t\t\t}\n\t\t})\n', '\t\t\tif role == "sender" && !senderStillConnected {\n\t\t\t\tsessionEnded = true\n\t\t\t}\n\t\t})\n\t\tif sessionEnded {\n\t\t\tstore.Delete(sess.ID)\n\t\t}\n')]),
 dict(id='F70-inspect-under-read-lock', props=['C14'], expect='R-SESSION-LIFE/host-cleanup/inspect-holds-lock',
      edits=[(HUB, 'func (h *Hub) Inspect(sessionID string, fn func(current []Peer)) {\n\th.mu.Lock()\n\tdefer h.mu.Unlock()\n', 'func (h *Hub) Inspect(sessionID string, fn func(current []Peer)) {\n\th.mu.RLock()\n\tdefer h.mu.RUnlock()\n')]),
 dict(id='F70-inspect-callback-after-unlock', props=['C14'], expect='R-SESSION-LIFE/host-cleanup/inspect-holds-lock',
      edits=[(HUB, '\th.mu.Lock()\n\tdefer h.mu.Unlock()\n\tcurrent := make([]Peer, 0, len(h.sessions[sessionID]))\n\tfor _, pc := range h.sessions[sessionID] {\n\t\tcurrent = append(current, pc.peer)\n\t}\n\tfn(current)\n', '\th.mu.Lock()\n\tcurrent := make([]Peer, 0, len(h.sessions[sessionID]))\n\tfor _, pc := range h.sessions[sessionID] {\n\t\tcurrent = append(current, pc.peer)\n\t}\n\th.mu.Unlock()\n\tfn(current)\n')]),
 dict(id='F70-benign-renamed-locals', props=['C14', 'C16', 'C10', 'C11'], expect='SILENT',
      edits=[(SRV, _F70_NEW, _F70_NEW.replace('senderStillConnected', 'hostLeft0').replace('current', 'left'))]),
]

MUTANTS += [
 dict(id='R9-item-id-names-a-path-again-unchecked', props=['C07'], expect='R-TAINT/source/validateManifest/item-id',
      edits=[(MP, '\t\tif item.ID != "" {\n\t\t\tif err := validateFilename(item.ID); err != nil {\n\t\t\t\treturn fmt.Errorf("invalid manifest item id %q: %w", item.ID, err)\n\t\t\t}\n\t\t}\n', ''),
             (MS, '\t\t\t_ = os.Remove(SidecarPath(baseDir, "", sidecarIdentifier(item)))\n', '\t\t\t_ = os.Remove(SidecarPath(baseDir, "", item.ID))\n')]),
]

# --- F71, F72 (DESIGN 8.19) ---
PT_TYPES = 'pkg/protocol/types.go'
_NOTICE_GUARD_S = '\tif protocol.IsServerNotice(env.Type) && env.From != protocol.ServerPeerID {\n\t\ts.logger.Warn("ignoring a server notice that does not come from the server", "type", env.Type, "from", env.From)\n\t\treturn\n\t}\n'
_NOTICE_GUARD_R = '\tif protocol.IsServerNotice(env.Type) && env.From != protocol.ServerPeerID {\n\t\tr.logger.Warn("ignoring a server notice that does not come from the server", "type", env.Type, "from", env.From)\n\t\treturn\n\t}\n'
MUTANTS += [
 dict(id='F71-undo-utf8-test', props=['C10'], expect='R-PEER-ID-FORM/peer-id-form/add#1/utf8',
      edits=[(SRV, '\tif !utf8.ValidString(peerID) {\n\t\tsendError(w, http.StatusBadRequest, "peer_id is not valid UTF-8")\n\t\treturn\n\t}\n', '\t_ = utf8.ValidString\n')]),
 dict(id='F71-utf8-test-logs-only', props=['C10'], expect='R-PEER-ID-FORM/peer-id-form/add#1/utf8',
      edits=[(SRV, '\tif !utf8.ValidString(peerID) {\n\t\tsendError(w, http.StatusBadRequest, "peer_id is not valid UTF-8")\n\t\treturn\n\t}\n', '\tif !utf8.ValidString(peerID) {\n\t\tlogger.Warn("peer_id is not valid UTF-8")\n\t}\n')]),
 dict(id='F72-undo-reserved-id', props=['C10'], expect='R-PEER-ID-FORM/peer-id-form/add#1/reserved',
      edits=[(SRV, '\tif peerID == protocol.ServerPeerID {\n\t\tsendError(w, http.StatusBadRequest, "peer_id is reserved")\n\t\treturn\n\t}\n', '')]),
 dict(id='F72-undo-host-ignores-forged-notices', props=['C12', 'C10'], expect='R-NOTICE-FROM-SERVER/notice-from-server/app.(*SnapshotSender).handleEnvelope/',
      edits=[(SS, _NOTICE_GUARD_S, '')]),
 dict(id='F72-undo-receiver-ignores-forged-notices', props=['C12', 'C10'], expect='R-NOTICE-FROM-SERVER/notice-from-server/app.(*snapshotReceiver).handleEnvelope/',
      edits=[(SR, _NOTICE_GUARD_R, '')]),
 dict(id='F72-peer-left-missing-from-the-list', props=['C12', 'C10'], expect='R-NOTICE-FROM-SERVER/notice-from-server/signed/',
      edits=[(PT_TYPES, '\tcase TypePeerList, TypePeerJoined, TypePeerLeft, TypeTurnCredentials, TypeError:\n', '\tcase TypePeerList, TypePeerJoined, TypeTurnCredentials, TypeError:\n')]),
 dict(id='F72-guard-warns-only', props=['C12'], expect='R-NOTICE-FROM-SERVER/notice-from-server/app.(*SnapshotSender).handleEnvelope/',
      edits=[(SS, _NOTICE_GUARD_S, _NOTICE_GUARD_S.replace('\t\treturn\n', ''))]),
 dict(id='F72-benign-guard-inside-the-clauses', props=['C12', 'C10'], expect='SILENT',
      edits=[(SS, _NOTICE_GUARD_S, ''),
             (SS, '\tcase protocol.TypeTurnCredentials:\n\t\tvar creds protocol.TurnCredentials\n\t\tif err := env.DecodePayload(&creds); err != nil {\n\t\t\ts.logger.Error("failed to decode turn_credentials"', '\tcase protocol.TypeTurnCredentials:\n\t\tif env.From != protocol.ServerPeerID {\n\t\t\treturn\n\t\t}\n\t\tvar creds protocol.TurnCredentials\n\t\tif err := env.DecodePayload(&creds); err != nil {\n\t\t\ts.logger.Error("failed to decode turn_credentials"'),
             (SS, '\tcase protocol.TypePeerJoined:\n\t\tvar peerJoined protocol.PeerJoined\n', '\tcase protocol.TypePeerJoined:\n\t\tif env.From != "server" {\n\t\t\treturn\n\t\t}\n\t\tvar peerJoined protocol.PeerJoined\n'),
             (SS, '\tcase protocol.TypePeerLeft:\n\t\tvar peerLeft protocol.PeerLeft\n\t\tif err := env.DecodePayload(&peerLeft); err != nil {\n\t\t\ts.logger.Error("failed to decode peer_left"', '\tcase protocol.TypePeerLeft:\n\t\tif env.From != protocol.ServerPeerID {\n\t\t\treturn\n\t\t}\n\t\tvar peerLeft protocol.PeerLeft\n\t\tif err := env.DecodePayload(&peerLeft); err != nil {\n\t\t\ts.logger.Error("failed to decode peer_left"')]),
]

# --- round 9 (DESIGN 8.18) ---
_HANDOUT_OLD = '''	if s.scheduleDone {
		if s.resendPending {
			idx := s.resendChunk
			s.resendPending = false
			s.inFlight++
			return idx, chunkSizeForIndex(s.item.Size, s.chunkSize, idx), true
		}
		return 0, 0, false
	}
	if s.resendPending {
		idx := s.resendChunk
		s.resendPending = false
		s.inFlight++
		return idx, chunkSizeForIndex(s.item.Size, s.chunkSize, idx), true
	}
'''
_HANDOUT_NEW = '''	if s.scheduleDone {
		if s.resendPending {
			s.resendPending = false
			return s.handOutLocked(s.resendChunk)
		}
		return 0, 0, false
	}
	if s.resendPending {
		s.resendPending = false
		return s.handOutLocked(s.resendChunk)
	}
'''
_HANDOUT_HELPER = '''
// handOutLocked counts chunk idx as in flight and returns it with its length.
func (s *sendFileState) handOutLocked(idx uint32) (uint32, uint32, bool) {
	s.inFlight++
	return idx, chunkSizeForIndex(s.item.Size, s.chunkSize, idx), true
}

// noteFrameSent counts a chunk frame that was written to a data stream.
'''
MUTANTS += [
 dict(id='R9-benign-hand-out-helper', props=['C17', 'C19', 'C06', 'C03', 'C04', 'C01'], expect='SILENT',
      edits=[(MS, _HANDOUT_OLD, _HANDOUT_NEW),
             (MS, '\t\ts.inFlight++\n\t\tif s.nextChunk >= s.totalChunks {\n\t\t\ts.scheduleDone = true\n\t\t}\n\t\treturn idx, chunkSizeForIndex(s.item.Size, s.chunkSize, idx), true\n', '\t\tif s.nextChunk >= s.totalChunks {\n\t\t\ts.scheduleDone = true\n\t\t}\n\t\treturn s.handOutLocked(idx)\n'),
             (MS, '\n// noteFrameSent counts a chunk frame that was written to a data stream.\n', _HANDOUT_HELPER)]),
]
PRM = 'internal/transfer/params.go'
MUTANTS += [
 dict(id='R9-benign-wire-name-helper', props=['C13', 'C01'], expect='SILENT',
      edits=[(MAN, '\t\t\t\tRelPath: filepath.ToSlash(relPath),\n', '\t\t\t\tRelPath: wireName(relPath),\n'),
             (MAN, '\t\t\t\tRelPath: filepath.ToSlash(dirRelPath),\n', '\t\t\t\tRelPath: wireName(dirRelPath),\n'),
             (MAN, '\nfunc computeID(', '\n// wireName is the spelling of a path in the manifest.\nfunc wireName(p string) string { return filepath.ToSlash(p) }\n\nfunc computeID(')]),
 dict(id='R9-names-lowercased', props=['C13', 'C01'], expect='R-NAME-VERBATIM/name-verbatim/',
      edits=[(MAN, '\t\t\t\tRelPath: filepath.ToSlash(relPath),\n', '\t\t\t\tRelPath: filepath.ToSlash(string(bytes.ToLower([]byte(relPath)))),\n'),
             (MAN, '\t"encoding/binary"\n', '\t"bytes"\n\t"encoding/binary"\n')]),
 dict(id='R9-benign-clamp-first', props=['C03'], expect='SILENT',
      edits=[(PRM, '\tif out.ParallelFiles < 1 {\n\t\tout.ParallelFiles = 1\n\t}\n\tif out.ParallelFiles > MaxParallelFiles {\n\t\tout.ParallelFiles = MaxParallelFiles\n\t}\n', '\tif out.ParallelFiles > MaxParallelFiles {\n\t\tout.ParallelFiles = MaxParallelFiles\n\t}\n\tif out.ParallelFiles < 1 {\n\t\tout.ParallelFiles = 1\n\t}\n')]),
 dict(id='R9-clamp-before-the-configured-default', props=['C03'], expect='R-PARAMS-CLAMPED/params-clamped/',
      edits=[(PRM, '\tif out.ParallelFiles == 0 {\n\t\tout.ParallelFiles = opts.ParallelFiles\n\t}\n\tif out.ParallelFiles < 1 {\n\t\tout.ParallelFiles = 1\n\t}\n\tif out.ParallelFiles > MaxParallelFiles {\n\t\tout.ParallelFiles = MaxParallelFiles\n\t}\n', '\tif out.ParallelFiles > MaxParallelFiles {\n\t\tout.ParallelFiles = MaxParallelFiles\n\t}\n\tif out.ParallelFiles == 0 {\n\t\tout.ParallelFiles = opts.ParallelFiles\n\t}\n\tif out.ParallelFiles < 1 {\n\t\tout.ParallelFiles = 1\n\t}\n')]),
 dict(id='R9-resume-wait-always-bounded', props=['C04'], expect='R-RESUME-WAIT-UNBOUNDED/resume-wait/',
      edits=[(MS, '\t\t\tif resumeTimeout > 0 {\n\t\t\t\tresumeCtx, resumeCancel = context.WithTimeout(transferCtx, resumeTimeout)\n\t\t\t}\n', '\t\t\tresumeCtx, resumeCancel = context.WithTimeout(transferCtx, resumeTimeout+resumeGracePeriod)\n')]),
 dict(id='R9-benign-resume-timeout-clamped-to-zero-differently', props=['C04'], expect='SILENT',
      edits=[(MS, '\tif resumeTimeout < 0 {\n\t\tresumeTimeout = 0\n\t}\n', '\tif resumeTimeout <= 0 {\n\t\tresumeTimeout = 0\n\t}\n')]),
 dict(id='R9-benign-deferred-wait-before-cancel', props=['C09', 'C03', 'C12'], expect='SILENT',
      edits=[(SR, '\tacceptCtx, cancel := context.WithTimeout(ctx, 10*time.Second)\n\tdefer cancel()\n', '\tvar auths sync.WaitGroup\n\tdefer auths.Wait()\n\tacceptCtx, cancel := context.WithTimeout(ctx, 10*time.Second)\n\tdefer cancel()\n'),
             (SR, '\t\t\tgo func() {\n\t\t\t\tif err := authenticateTransport(acceptCtx, conn, r.joinCode, authRoleReceive); err != nil {', '\t\t\tauths.Add(1)\n\t\t\tgo func() {\n\t\t\t\tdefer auths.Done()\n\t\t\t\tif err := authenticateTransport(acceptCtx, conn, r.joinCode, authRoleReceive); err != nil {')]),
 dict(id='R9-collection-error-when-complete', props=['C09'], expect='R-COLLECTION-COMPLETE/collection-complete/',
      edits=[(SR, '\t\t\treturn conns, lastErr\n\t\t}\n\t}\n\treturn conns, nil\n}', '\t\t\treturn conns, lastErr\n\t\t}\n\t}\n\tif lastErr != nil {\n\t\treturn conns, lastErr\n\t}\n\treturn conns, nil\n}')]),
 dict(id='R9-benign-write-deadline-reset', props=['C10', 'C11'], expect='SILENT',
      edits=[(SRV, '\t\t\terr := conn.WriteControl(websocket.PongMessage, []byte(appData), time.Now().Add(10*time.Second))\n\t\t\twriteMu.Unlock()\n', '\t\t\t_ = conn.SetWriteDeadline(time.Now().Add(10 * time.Second))\n\t\t\terr := conn.WriteControl(websocket.PongMessage, []byte(appData), time.Now().Add(10*time.Second))\n\t\t\t_ = conn.SetWriteDeadline(time.Time{})\n\t\t\twriteMu.Unlock()\n')]),
 dict(id='R9-write-deadline-left-behind-on-error', props=['C10'], expect='R-WS-WRITE-DEADLINE/ws-write-deadline/',
      edits=[(SRV, '\t\t\terr := conn.WriteControl(websocket.PongMessage, []byte(appData), time.Now().Add(10*time.Second))\n\t\t\twriteMu.Unlock()\n\t\t\treturn err\n', '\t\t\t_ = conn.SetWriteDeadline(time.Now().Add(10 * time.Second))\n\t\t\terr := conn.WriteControl(websocket.PongMessage, []byte(appData), time.Now().Add(10*time.Second))\n\t\t\tif err != nil {\n\t\t\t\twriteMu.Unlock()\n\t\t\t\treturn err\n\t\t\t}\n\t\t\t_ = conn.SetWriteDeadline(time.Time{})\n\t\t\twriteMu.Unlock()\n\t\t\treturn err\n')]),
 dict(id='R9-slot-released-only-on-refusal-paths', props=['C16', 'C14'], expect='R-CONN-SLOT-RELEASED/conn-slot/',
      edits=[(SRV, '\t\tdefer wsConnLimiter.Release()\n\t}\n', '\t}\n\tif limits.maxWSConnections > 0 && role == "receiver" {\n\t\tdefer wsConnLimiter.Release()\n\t}\n')]),
 dict(id='R9-expiry-compared-without-zero-test', props=['C16', 'C14'], expect='R-EXPIRY-ZERO-NEVER/expiry-zero/',
      edits=[(SESS, '\tif !session.ExpiresAt.IsZero() && time.Now().After(session.ExpiresAt) {\n', '\tif time.Now().After(session.ExpiresAt) {\n')]),
 dict(id='R9-benign-expiry-nested-zero-test', props=['C16', 'C14'], expect='SILENT',
      edits=[(SESS, '\tif !session.ExpiresAt.IsZero() && time.Now().After(session.ExpiresAt) {\n\t\tdelete(s.sessions, sessionID)\n\t\tdelete(s.byCode, code)\n\t\treturn Session{}, false\n\t}\n', '\tif !session.ExpiresAt.IsZero() {\n\t\tif time.Now().After(session.ExpiresAt) {\n\t\t\tdelete(s.sessions, sessionID)\n\t\t\tdelete(s.byCode, code)\n\t\t\treturn Session{}, false\n\t\t}\n\t}\n')]),
 dict(id='R9-result-channel-unbuffered-write-helper', props=['C03', 'C02'], expect='R-ABANDONED-BUF/abandoned-buf/helper/transfer.writeAtWithTimeout/result-channel',
      edits=[(MP, '\tresultCh := make(chan writeResult, 1)\n\tgo func() {\n\t\tn, err := f.WriteAt(buf, offset)\n', '\tresultCh := make(chan writeResult)\n\tgo func() {\n\t\tn, err := f.WriteAt(buf, offset)\n')]),
 dict(id='R9-benign-error-wrapped-with-w', props=['C01', 'C02', 'C03'], expect='SILENT',
      edits=[(MS, '\t\t\t\t\treleaseChunkBuf(bufPool, buf, err)\n\t\t\t\t\tsetErr(fmt.Errorf("failed to read file %s: %w", state.item.RelPath, err))\n', '\t\t\t\t\terr = fmt.Errorf("failed to read file %s: %w", state.item.RelPath, err)\n\t\t\t\t\treleaseChunkBuf(bufPool, buf, err)\n\t\t\t\t\tsetErr(err)\n')]),
 dict(id='R9-benign-plan-installed-in-both-branches', props=['C17', 'C04', 'C06'], expect='SILENT',
      edits=[(MS, '\t\t\t\tstate.mu.Lock()\n\t\t\t\tstate.plan = plan\n\t\t\t\tstate.mu.Unlock()\n\t\t\t\treturn nil\n', '\t\t\t\tif plan != nil {\n\t\t\t\t\tstate.mu.Lock()\n\t\t\t\t\tstate.plan = plan\n\t\t\t\t\tstate.mu.Unlock()\n\t\t\t\t} else {\n\t\t\t\t\tstate.mu.Lock()\n\t\t\t\t\tstate.plan = plan\n\t\t\t\t\tstate.mu.Unlock()\n\t\t\t\t}\n\t\t\t\treturn nil\n')]),
 dict(id='R9-control-end-breaks-out-of-select-only', props=['C15', 'C03'], expect='R-CONTROL-ENDED-RETURNS/control-ended/',
      edits=[(MS, '\t\t\tif completedCount >= totalFiles {\n\t\t\t\treturn m, nil\n\t\t\t}\n\t\t\treturn m, err\n\t\tcase err := <-dataErrCh:', '\t\t\tif completedCount >= totalFiles {\n\t\t\t\treturn m, nil\n\t\t\t}\n\t\t\tif err != nil {\n\t\t\t\treturn m, err\n\t\t\t}\n\t\tcase err := <-dataErrCh:')]),
]

# --- F73 ---
MUTANTS += [
 dict(id='F73-undo-header-read-honours-cancel', props=['C02'], expect='R-HEADER-READ-CANCELLABLE/header-read/',
      edits=[(MS, '\tm, err = readControlHeaderCtx(ctx, controlStream)\n', '\tm, err = readControlHeader(controlStream)\n')]),
 dict(id='F73-result-channel-without-room', props=['C02'], expect='R-HEADER-READ-CANCELLABLE/header-read/',
      edits=[(MS, '\tresCh := make(chan headerResult, 1)\n', '\tresCh := make(chan headerResult)\n')]),
 dict(id='F73-select-without-done', props=['C02'], expect='R-HEADER-READ-CANCELLABLE/header-read/',
      edits=[(MS, '\tselect {\n\tcase res := <-resCh:\n\t\treturn res.m, res.err\n\tcase <-ctx.Done():\n\t\treturn manifest.Manifest{}, ctx.Err()\n\t}\n', '\tres := <-resCh\n\treturn res.m, res.err\n')]),
]
MUTANTS += [
 dict(id='R9-benign-peer-id-validator-helper', props=['C10'], expect='SILENT',
      edits=[(SRV, '\tif !utf8.ValidString(peerID) {\n\t\tsendError(w, http.StatusBadRequest, "peer_id is not valid UTF-8")\n\t\treturn\n\t}\n\t// The server signs its own notices with this id; the clients act on peer_left,\n\t// peer_joined, turn_credentials only when they carry it.\n\tif peerID == protocol.ServerPeerID {\n\t\tsendError(w, http.StatusBadRequest, "peer_id is reserved")\n\t\treturn\n\t}\n',
                   '\tif err := checkPeerID(peerID); err != nil {\n\t\tsendError(w, http.StatusBadRequest, err.Error())\n\t\treturn\n\t}\n'),
             (SRV, '\nfunc handleWebSocket(', '\nfunc checkPeerID(id string) error {\n\tif !utf8.ValidString(id) {\n\t\treturn fmt.Errorf("peer_id is not valid UTF-8")\n\t}\n\tif id == protocol.ServerPeerID {\n\t\treturn fmt.Errorf("peer_id is reserved")\n\t}\n\treturn nil\n}\n\nfunc handleWebSocket(')]),
]
MUTANTS += [
 dict(id='R9-benign-join-code-validator-helper', props=['C08'], expect='SILENT',
      edits=[(TA, '\tif strings.IndexByte(joinCode, 0) >= 0 || len(joinCode) > sha256.BlockSize {\n\t\treturn nil, fmt.Errorf("invalid join code")\n\t}\n', '\tif err := checkJoinCode(joinCode); err != nil {\n\t\treturn nil, err\n\t}\n'),
             (TA, '\nfunc computeAuthMac(', '\nfunc checkJoinCode(code string) error {\n\tif strings.IndexByte(code, 0) >= 0 {\n\t\treturn fmt.Errorf("invalid join code")\n\t}\n\tif len(code) > sha256.BlockSize {\n\t\treturn fmt.Errorf("invalid join code")\n\t}\n\treturn nil\n}\n\nfunc computeAuthMac(')]),
]

# --- F74 ---
MUTANTS += [
 dict(id='F74-undo-mark-unconfirmed', props=['C06', 'C05'], expect='R-UNCONFIRMED-NOT-CLAIMED/unconfirmed/report/',
      edits=[(MS, '\t\t\t\tstate.sidecar.MarkUnconfirmed(uint32(highest))\n', '')]),
 dict(id='F74-unconfirmed-only-for-a-known-hash', props=['C06'], expect='R-UNCONFIRMED-NOT-CLAIMED/unconfirmed/report/',
      edits=[(MS, '\t\t\t\tif ok {\n\t\t\t\t\tinfo.LastVerifiedHash = hashValue\n\t\t\t\t} else {\n\t\t\t\t\tinfo.LastVerifiedHash = resumeHashUnknown\n\t\t\t\t}\n', '\t\t\t\tif ok {\n\t\t\t\t\tinfo.LastVerifiedHash = hashValue\n\t\t\t\t} else {\n\t\t\t\t\tinfo.LastVerifiedHash = resumeHashUnknown\n\t\t\t\t\treturn info, nil\n\t\t\t\t}\n')]),
 dict(id='F74-undo-flush-clears-the-bit', props=['C06', 'C05'], expect='R-UNCONFIRMED-NOT-CLAIMED/unconfirmed/flush',
      edits=[(SC, '\tfor _, u := range s.unconfirmed {\n\t\tif int(u/8) < len(bitmap) {\n\t\t\tbitmap[u/8] &^= 1 << (u % 8)\n\t\t}\n\t}\n', '')]),
 dict(id='F74-confirm-on-every-finalisation', props=['C06'], expect='R-UNCONFIRMED-NOT-CLAIMED/unconfirmed/release/',
      edits=[(MS, '\t\t\tif ok {\n\t\t\t\t// Complete: FileEnd is in and every frame it announced was processed, so\n\t\t\t\t// the chunk that was handed in for comparison was found good or replaced.\n\t\t\t\tstate.sidecar.Confirm()\n\t\t\t}\n', '\t\t\tstate.sidecar.Confirm()\n')]),
]

# --- round 10 (DESIGN 8.20) ---
MUTANTS += [
 dict(id='R10-benign-read-checks-as-switch', props=['C02', 'C01', 'C04'], expect='SILENT',
      edits=[(MS, '\t\t\t\tn, err := readAtWithPool(transferCtx, f, offset, buf[:chunkLen])\n\t\t\t\tif err != nil && err != io.EOF && err != io.ErrUnexpectedEOF {\n\t\t\t\t\treleaseChunkBuf(bufPool, buf, err)\n\t\t\t\t\tsetErr(fmt.Errorf("failed to read file %s: %w", state.item.RelPath, err))\n\t\t\t\t\treturn\n\t\t\t\t}\n\t\t\t\tif n != int(chunkLen) {\n',
                   '\t\t\t\tchunk := buf[:chunkLen]\n\t\t\t\tn, err := readAtWithPool(transferCtx, f, offset, chunk)\n\t\t\t\tif err != nil && err != io.EOF && err != io.ErrUnexpectedEOF {\n\t\t\t\t\treleaseChunkBuf(bufPool, buf, err)\n\t\t\t\t\tsetErr(fmt.Errorf("failed to read file %s: %w", state.item.RelPath, err))\n\t\t\t\t\treturn\n\t\t\t\t}\n\t\t\t\tif n != len(chunk) {\n')]),
]
QS2 = 'internal/transferquic/quic.go'
CPOOL = 'internal/transfer/chunkpool.go'
MUTANTS += [
 dict(id='R10-benign-open-stream-checks-context-first', props=['C03'], expect='SILENT',
      edits=[(QS2, '\tstream, err := conn.OpenStreamSync(ctx)\n\tif err != nil {\n\t\treturn nil, fmt.Errorf("failed to open QUIC stream: %w", err)\n\t}\n', '\tif err := ctx.Err(); err != nil {\n\t\treturn nil, fmt.Errorf("failed to open QUIC stream: %w", err)\n\t}\n\tstream, err := conn.OpenStreamSync(ctx)\n\tif err != nil {\n\t\treturn nil, fmt.Errorf("failed to open QUIC stream: %w", err)\n\t}\n')]),
 dict(id='R10-benign-entry-info-renamed-everywhere', props=['C05', 'C13', 'C06'], expect='SILENT',
      edits=[(MAN, '\t\t\t\t// Get file info\n\t\t\t\tinfo, err := d.Info()\n', '\t\t\t\t// Get file info\n\t\t\t\tentryInfo, err := d.Info()\n'),
             (MAN, '\t\t\t\tsize := info.Size()\n\t\t\t\tif d.IsDir() {\n\t\t\t\t\tsize = 0\n\t\t\t\t}\n\n\t\t\t\titem := FileItem{\n\t\t\t\t\tRelPath: filepath.ToSlash(fullRelPath),\n\t\t\t\t\tSize:    size,\n\t\t\t\t\tModTime: info.ModTime().Unix(),', '\t\t\t\tsize := entryInfo.Size()\n\t\t\t\tif d.IsDir() {\n\t\t\t\t\tsize = 0\n\t\t\t\t}\n\n\t\t\t\titem := FileItem{\n\t\t\t\t\tRelPath: filepath.ToSlash(fullRelPath),\n\t\t\t\t\tSize:    size,\n\t\t\t\t\tModTime: entryInfo.ModTime().Unix(),'),
             (MAN, '\t\t\t\t\tmanifest.FileCount++\n\t\t\t\t\tmanifest.TotalBytes += info.Size()\n\t\t\t\t}\n\n\t\t\t\treturn nil\n\t\t\t})', '\t\t\t\t\tmanifest.FileCount++\n\t\t\t\t\tmanifest.TotalBytes += entryInfo.Size()\n\t\t\t\t}\n\n\t\t\t\treturn nil\n\t\t\t})')]),
 dict(id='R10-benign-expiry-from-fresh-now', props=['C14'], expect='SILENT',
      edits=[(SESS, '\t\texpiresAt = now.Add(s.ttl)\n', '\t\texpiresAt = time.Now().Add(s.ttl)\n')]),
 dict(id='R10-expiry-rounded', props=['C14'], expect='R-EXPIRY-EXACT/expiry-exact/',
      edits=[(SESS, '\t\texpiresAt = now.Add(s.ttl)\n', '\t\texpiresAt = now.Add(s.ttl).Round(time.Minute)\n')]),
 dict(id='R10-benign-pool-size-in-a-local', props=['C19', 'C04'], expect='SILENT',
      edits=[(CPOOL, '\tpool := bufpool.New(int(chunkSize))\n', '\tsize := int(chunkSize)\n\tpool := bufpool.New(size)\n')]),
 dict(id='R10-benign-undecodable-frame-answered', props=['C10'], expect='SILENT',
      edits=[(SRV, '\t\t\tlogger.Warn("invalid JSON envelope", "error", err, "peer_id", peerID)\n\t\t\tcontinue\n', '\t\t\tlogger.Warn("invalid JSON envelope", "error", err, "peer_id", peerID, "bytes", len(message))\n\t\t\tcontinue\n')]),
 dict(id='R10-turn-secret-trimmed', props=['C16'], expect='R-TURN-USER-VERBATIM/turn-user/',
      edits=[(ICE, '\t\t\tpassword = pwd\n', '\t\t\tpassword = strings.TrimSpace(pwd)\n')]),
 dict(id='R10-report-skipped-for-empty-file', props=['C04'], expect='R-REPORT-ALWAYS-SENT/report-always-sent/',
      edits=[(MS, '\t\tif opts.Resume {\n\t\t\tinfo, err := buildResumeInfo(state)\n', '\t\tif opts.Resume && state.totalChunks > 0 {\n\t\t\tinfo, err := buildResumeInfo(state)\n')]),
]

# --- F76 ---
MUTANTS += [
 dict(id='F76-undo-answered-once', props=['C15'], expect='R-REQUEST-ANSWERED-ONCE/request-answered-once/',
      edits=[(MS, '\t\tif answered {\n\t\t\treturn nil\n\t\t}\n\t\tinfo, err := buildResumeInfo(state)\n', '\t\t_ = answered\n\t\tinfo, err := buildResumeInfo(state)\n')]),
 dict(id='F76-flag-never-set', props=['C15'], expect='R-REQUEST-ANSWERED-ONCE/request-answered-once/',
      edits=[(MS, '\t\tanswered := state.resumeRequestAnswered\n\t\tstate.resumeRequestAnswered = true\n', '\t\tanswered := state.resumeRequestAnswered\n')]),
 dict(id='F76-benign-flag-tested-in-place', props=['C15', 'C04'], expect='SILENT',
      edits=[(MS, '\t\tstate.mu.Lock()\n\t\tanswered := state.resumeRequestAnswered\n\t\tstate.resumeRequestAnswered = true\n\t\tstate.mu.Unlock()\n\t\tif answered {\n\t\t\treturn nil\n\t\t}\n', '\t\tstate.mu.Lock()\n\t\tif state.resumeRequestAnswered {\n\t\t\tstate.mu.Unlock()\n\t\t\treturn nil\n\t\t}\n\t\tstate.resumeRequestAnswered = true\n\t\tstate.mu.Unlock()\n')]),
]

# --- F77 (second report moves the reservation) ---
MUTANTS += [
 dict(id='F77-undo-reservation-replaced', props=['C06', 'C05'], expect='R-UNCONFIRMED-NOT-CLAIMED/unconfirmed/monotone/transfer.(*Sidecar).MarkUnconfirmed',
      edits=[(SC, '\ts.unconfirmed = append(s.unconfirmed, i)\n', '\ts.unconfirmed = append(s.unconfirmed[:0], i)\n')]),
 dict(id='F77-reservations-capped-at-one', props=['C06'], expect='R-UNCONFIRMED-NOT-CLAIMED/unconfirmed/monotone/transfer.(*Sidecar).MarkUnconfirmed',
      edits=[(SC, '\ts.unconfirmed = append(s.unconfirmed, i)\n', '\ts.unconfirmed = []uint32{i}\n')]),
 dict(id='F77-flush-clears-the-newest-only', props=['C06', 'C05'], expect='R-UNCONFIRMED-NOT-CLAIMED/unconfirmed/flush',
      edits=[(SC, '\tfor _, u := range s.unconfirmed {\n\t\tif int(u/8) < len(bitmap) {\n\t\t\tbitmap[u/8] &^= 1 << (u % 8)\n\t\t}\n\t}\n', '\tif n := len(s.unconfirmed); n > 0 {\n\t\tu := s.unconfirmed[n-1]\n\t\tif int(u/8) < len(bitmap) {\n\t\t\tbitmap[u/8] &^= 1 << (u % 8)\n\t\t}\n\t}\n')]),
 dict(id='F77-flush-loop-stops-at-first', props=['C06'], expect='R-UNCONFIRMED-NOT-CLAIMED/unconfirmed/flush',
      edits=[(SC, '\tfor _, u := range s.unconfirmed {\n\t\tif int(u/8) < len(bitmap) {\n\t\t\tbitmap[u/8] &^= 1 << (u % 8)\n\t\t}\n\t}\n', '\tfor _, u := range s.unconfirmed {\n\t\tif int(u/8) < len(bitmap) {\n\t\t\tbitmap[u/8] &^= 1 << (u % 8)\n\t\t\tbreak\n\t\t}\n\t}\n')]),
 dict(id='F77-rewrite-ends-all-lower-reservations', props=['C06'], expect='R-UNCONFIRMED-NOT-CLAIMED/unconfirmed/monotone/transfer.(*Sidecar).dropUnconfirmedLocked',
      edits=[(SC, '\tfor k, u := range s.unconfirmed {\n\t\tif u == i {\n', '\tfor k, u := range s.unconfirmed {\n\t\tif u <= i {\n')]),
 dict(id='F77-benign-dedupe-with-slices-contains', props=['C06', 'C05'], expect='SILENT',
      edits=[(SC, '\t"strings"\n\t"sync"\n)', '\t"slices"\n\t"strings"\n\t"sync"\n)'),
             (SC, '\tfor _, u := range s.unconfirmed {\n\t\tif u == i {\n\t\t\treturn\n\t\t}\n\t}\n\ts.unconfirmed = append(s.unconfirmed, i)\n', '\tif slices.Contains(s.unconfirmed, i) {\n\t\treturn\n\t}\n\ts.unconfirmed = append(s.unconfirmed, i)\n')]),
 dict(id='F77-benign-flush-bound-by-total-chunks', props=['C06', 'C05'], expect='SILENT',
      edits=[(SC, '\tfor _, u := range s.unconfirmed {\n\t\tif int(u/8) < len(bitmap) {\n\t\t\tbitmap[u/8] &^= 1 << (u % 8)\n\t\t}\n\t}\n', '\tfor _, u := range s.unconfirmed {\n\t\tif u < s.TotalChunks && int(u/8) < len(bitmap) {\n\t\t\tbitmap[u/8] &^= 1 << (u % 8)\n\t\t}\n\t}\n')]),
]

# --- F78 (the wait for room in the acknowledgement queue ends with the control stream) ---
_QC = '\t\tselect {\n\t\tcase controlWriteCh <- msg:\n\t\t\treturn nil\n\t\tcase <-recvCtx.Done():\n\t\t\treturn recvCtx.Err()\n\t\tcase <-controlEnded:\n\t\t\treturn nil\n\t\t}\n'
MUTANTS += [
 dict(id='F78-undo-ended-arm', props=['C15', 'C02'], expect='R-ACK-QUEUE-NOT-BEHIND-END/ack-queue/queue/',
      edits=[(MS, _QC, '\t\tselect {\n\t\tcase controlWriteCh <- msg:\n\t\t\treturn nil\n\t\tcase <-recvCtx.Done():\n\t\t\treturn recvCtx.Err()\n\t\t}\n')]),
 dict(id='F78-close-only-when-error-was-taken', props=['C15'], expect='R-ACK-QUEUE-NOT-BEHIND-END/ack-queue/',
      edits=[(MS, '\t\tdefer close(controlEnded)\n\t\tfor {\n\t\t\tmsgType, msg, err := readControlMessage(controlStream)\n\t\t\tif err != nil {\n\t\t\t\tselect {\n\t\t\t\tcase controlErr <- err:\n\t\t\t\tdefault:\n\t\t\t\t}\n\t\t\t\treturn\n', '\t\tfor {\n\t\t\tmsgType, msg, err := readControlMessage(controlStream)\n\t\t\tif err != nil {\n\t\t\t\tselect {\n\t\t\t\tcase controlErr <- err:\n\t\t\t\t\tclose(controlEnded)\n\t\t\t\tdefault:\n\t\t\t\t}\n\t\t\t\treturn\n')]),
 dict(id='F78-close-only-on-eof', props=['C15'], expect='R-ACK-QUEUE-NOT-BEHIND-END/ack-queue/',
      edits=[(MS, '\t\tdefer close(controlEnded)\n\t\tfor {\n\t\t\tmsgType, msg, err := readControlMessage(controlStream)\n\t\t\tif err != nil {\n\t\t\t\tselect {\n\t\t\t\tcase controlErr <- err:\n\t\t\t\tdefault:\n\t\t\t\t}\n\t\t\t\treturn\n', '\t\tfor {\n\t\t\tmsgType, msg, err := readControlMessage(controlStream)\n\t\t\tif err != nil {\n\t\t\t\tselect {\n\t\t\t\tcase controlErr <- err:\n\t\t\t\tdefault:\n\t\t\t\t}\n\t\t\t\tif errors.Is(err, io.EOF) {\n\t\t\t\t\tclose(controlEnded)\n\t\t\t\t}\n\t\t\t\treturn\n')]),
 dict(id='F78-finalize-sends-directly', props=['C15', 'C02'], expect='R-ACK-QUEUE-NOT-BEHIND-END/ack-queue/queue/transfer.RecvManifestMultiStream$finalizeFile',
      edits=[(MS, '\t\t_ = queueControl(controlMsg{done: &FileDone{\n\t\t\tStreamID: state.key,\n\t\t\tOK:       ok,\n\t\t\tErrMsg:   errMsg,\n\t\t}})\n', '\t\tselect {\n\t\tcase controlWriteCh <- controlMsg{done: &FileDone{\n\t\t\tStreamID: state.key,\n\t\t\tOK:       ok,\n\t\t\tErrMsg:   errMsg,\n\t\t}}:\n\t\tcase <-recvCtx.Done():\n\t\t}\n')]),
 dict(id='F78-benign-no-first-attempt', props=['C15', 'C02', 'C03', 'C01'], expect='SILENT',
      edits=[(MS, '\t\tselect {\n\t\tcase controlWriteCh <- msg:\n\t\t\treturn nil\n\t\tdefault:\n\t\t}\n\t\tselect {\n\t\tcase controlWriteCh <- msg:\n\t\t\treturn nil\n\t\tcase <-recvCtx.Done():', '\t\tselect {\n\t\tcase controlWriteCh <- msg:\n\t\t\treturn nil\n\t\tcase <-recvCtx.Done():')]),
 dict(id='F78-benign-ended-arm-returns-an-error', props=['C15', 'C02', 'C03', 'C01'], expect='SILENT',
      edits=[(MS, '\t\tcase <-controlEnded:\n\t\t\treturn nil\n\t\t}\n', '\t\tcase <-controlEnded:\n\t\t\treturn io.ErrClosedPipe\n\t\t}\n')]),
 # benign between F78 and F83; since F83 the failed (deadline) write is what ends a receive whose reader is stuck behind the loop
 dict(id='R11-ack-write-error-not-fatal', props=['C15'], expect='R-ACK-QUEUE-NOT-BEHIND-END/ack-queue/deadline/',
      edits=[(MS, '\t\t\t\tif err := writeFullWithTimeout(recvCtx, controlStream, rec.Bytes(), "", "mux-ack"); err != nil {\n\t\t\t\t\tsetRecvErr(err)\n\t\t\t\t\treturn\n', '\t\t\t\tif err := writeFullWithTimeout(recvCtx, controlStream, rec.Bytes(), "", "mux-ack"); err != nil {\n\t\t\t\t\treturn\n')]),
]

# --- false alarm corrected in round 11: the folded re-send branch is dead code since F53 ---
MUTANTS += [
 dict(id='R11-benign-resend-branches-folded', props=['C17', 'C03', 'C04', 'C06'], expect='SILENT',
      edits=[(MS, "\tif s.verifyPending {\n\t\t// Nothing of this file goes out before the verdict on the receiver's last\n\t\t// complete chunk is in: a re-send of that chunk must be the first thing\n\t\t// sent, because the receiver does not count it among its missing chunks.\n\t\treturn 0, 0, false\n\t}\n\tif s.scheduleDone {\n\t\tif s.resendPending {\n\t\t\tidx := s.resendChunk\n\t\t\ts.resendPending = false\n\t\t\ts.inFlight++\n\t\t\treturn idx, chunkSizeForIndex(s.item.Size, s.chunkSize, idx), true\n\t\t}\n\t\treturn 0, 0, false\n\t}\n", '\tif s.verifyPending || s.scheduleDone {\n\t\t// Nothing goes out before the verdict is in; once the schedule is exhausted\n\t\t// there is nothing left to hand out (a re-send is only ever decided for a\n\t\t// chunk the cursor has not passed).\n\t\treturn 0, 0, false\n\t}\n')]),
 dict(id='R11-folded-and-late-resend-allowed', props=['C17'], expect='R-RESEND-',
      edits=[(MS, "\tif s.verifyPending {\n\t\t// Nothing of this file goes out before the verdict on the receiver's last\n\t\t// complete chunk is in: a re-send of that chunk must be the first thing\n\t\t// sent, because the receiver does not count it among its missing chunks.\n\t\treturn 0, 0, false\n\t}\n\tif s.scheduleDone {\n\t\tif s.resendPending {\n\t\t\tidx := s.resendChunk\n\t\t\ts.resendPending = false\n\t\t\ts.inFlight++\n\t\t\treturn idx, chunkSizeForIndex(s.item.Size, s.chunkSize, idx), true\n\t\t}\n\t\treturn 0, 0, false\n\t}\n", '\tif s.verifyPending || s.scheduleDone {\n\t\t// Nothing goes out before the verdict is in; once the schedule is exhausted\n\t\t// there is nothing left to hand out (a re-send is only ever decided for a\n\t\t// chunk the cursor has not passed).\n\t\treturn 0, 0, false\n\t}\n'),
             (MS, 'bitmap.Get(int(vChunk)) && vChunk >= state.nextChunk {', 'bitmap.Get(int(vChunk)) {')]),
]

# --- round 11 rules ---
MUTANTS += [
 dict(id='R11-routing-not-for-the-servers-name', props=['C10'], expect='R-BROADCAST-UNADDRESSED-ONLY/broadcast-unaddressed/',
      edits=[(TS, '\t\tif env.To != "" {\n\t\t\t// Targeted send\n', '\t\tif env.To != "" && env.To != protocol.ServerPeerID {\n\t\t\t// Targeted send\n')]),
 dict(id='R11-benign-routing-on-a-copy', props=['C10', 'C11'], expect='SILENT',
      edits=[(TS, '\t\tif env.To != "" {\n\t\t\t// Targeted send\n\t\t\tsent := hub.SendTo(sess.ID, env.To, env)\n', '\t\tif to := env.To; to != "" {\n\t\t\t// Targeted send\n\t\t\tsent := hub.SendTo(sess.ID, to, env)\n')]),
 dict(id='R11-pong-pushes-a-fixed-minute', props=['C16'], expect='R-PONG-EXTENDS-DEADLINE/pong-extends/',
      edits=[(TS, '\t\tconn.SetPongHandler(func(string) error {\n\t\t\tconn.SetReadDeadline(time.Now().Add(limits.wsIdleTimeout))\n', '\t\tconn.SetPongHandler(func(string) error {\n\t\t\tconn.SetReadDeadline(time.Now().Add(time.Minute))\n')]),
 dict(id='R11-benign-pong-handler-named', props=['C16', 'C14'], expect='SILENT',
      edits=[(TS, '\t\tconn.SetPongHandler(func(string) error {\n\t\t\tconn.SetReadDeadline(time.Now().Add(limits.wsIdleTimeout))\n\t\t\treturn nil\n\t\t})\n', '\t\tpushDeadline := func(string) error {\n\t\t\tconn.SetReadDeadline(time.Now().Add(limits.wsIdleTimeout))\n\t\t\treturn nil\n\t\t}\n\t\tconn.SetPongHandler(pushDeadline)\n')]),
 dict(id='R11-flush-unlinks-before-rename', props=['C05'], expect='R-ATOMIC-REPLACE/sidecar-fs/',
      edits=[(SC, '\tif err := os.Rename(temp, s.Path); err != nil {\n', '\t_ = os.Remove(s.Path)\n\tif err := os.Rename(temp, s.Path); err != nil {\n')]),
]

MUTANTS += [
 dict(id='R11-benign-duplicate-test-on-a-copy', props=['C03', 'C17'], expect='SILENT',
      edits=[(MP, '\t\tif _, dup := seen[item.RelPath]; dup {', '\t\trel := item.RelPath\n\t\tif _, dup := seen[rel]; dup {'),
             (MP, '\t\tseen[item.RelPath] = struct{}{}', '\t\tseen[rel] = struct{}{}')]),
 dict(id='R11-duplicate-test-on-cleaned-path', props=['C03'], expect='R-PATHS-DISTINCT/paths-distinct/refused',
      edits=[(MP, '\t\tif _, dup := seen[item.RelPath]; dup {', '\t\trel := strings.TrimSuffix(item.RelPath, "/")\n\t\tif _, dup := seen[rel]; dup {'),
             (MP, '\t\tseen[item.RelPath] = struct{}{}', '\t\tseen[rel] = struct{}{}')]),
]

# --- R-JSON-KEYS decides a struct response and a typed client field (round 11) ---
MUTANTS += [
 dict(id='R11-benign-session-response-struct-omitempty', props=['C16', 'C14'], expect='SILENT',
      edits=[(TS, '\t\tresponse := map[string]interface{}{\n\t\t\t"session_id": sess.ID,\n\t\t\t"join_code":  sess.JoinCode,\n\t\t}\n\t\tif !sess.ExpiresAt.IsZero() {\n\t\t\tresponse["expires_at"] = sess.ExpiresAt.Format(time.RFC3339)\n\t\t}\n', '\t\tresponse := struct {\n\t\t\tSessionID string `json:"session_id"`\n\t\t\tJoinCode  string `json:"join_code"`\n\t\t\tExpiresAt string `json:"expires_at,omitempty"`\n\t\t}{\n\t\t\tSessionID: sess.ID,\n\t\t\tJoinCode:  sess.JoinCode,\n\t\t}\n\t\tif !sess.ExpiresAt.IsZero() {\n\t\t\tresponse.ExpiresAt = sess.ExpiresAt.Format(time.RFC3339)\n\t\t}\n')]),
 dict(id='R11-benign-client-decodes-time-server-omits', props=['C16'], expect='SILENT',
      edits=[('internal/clienthttp/client.go', '\t\tExpiresAt string `json:"expires_at"` // RFC3339 string\n\t}\n', '\t\tExpiresAt time.Time `json:"expires_at"`\n\t}\n'), ('internal/clienthttp/client.go', '\tif sessionResp.ExpiresAt != "" {\n\t\tparsed, parseErr := time.Parse(time.RFC3339, sessionResp.ExpiresAt)\n\t\tif parseErr != nil {\n\t\t\treturn "", "", time.Time{}, fmt.Errorf("parse expires_at: %w", parseErr)\n\t\t}\n\t\texpiresAt = parsed\n\t}\n', '\texpiresAt = sessionResp.ExpiresAt\n')]),
 dict(id='R11-session-response-struct-empty-string-client-guards', props=['C16'], expect='SILENT',
      edits=[(TS, '\t\tresponse := map[string]interface{}{\n\t\t\t"session_id": sess.ID,\n\t\t\t"join_code":  sess.JoinCode,\n\t\t}\n\t\tif !sess.ExpiresAt.IsZero() {\n\t\t\tresponse["expires_at"] = sess.ExpiresAt.Format(time.RFC3339)\n\t\t}\n', '\t\tresponse := struct {\n\t\t\tSessionID string `json:"session_id"`\n\t\t\tJoinCode  string `json:"join_code"`\n\t\t\tExpiresAt string `json:"expires_at"`\n\t\t}{\n\t\t\tSessionID: sess.ID,\n\t\t\tJoinCode:  sess.JoinCode,\n\t\t}\n\t\tif !sess.ExpiresAt.IsZero() {\n\t\t\tresponse.ExpiresAt = sess.ExpiresAt.Format(time.RFC3339)\n\t\t}\n')]),
 dict(id='R11-session-response-struct-and-typed-client', props=['C16'], expect='R-JSON-KEYS/session-response/key/expires_at',
      edits=[(TS, '\t\tresponse := map[string]interface{}{\n\t\t\t"session_id": sess.ID,\n\t\t\t"join_code":  sess.JoinCode,\n\t\t}\n\t\tif !sess.ExpiresAt.IsZero() {\n\t\t\tresponse["expires_at"] = sess.ExpiresAt.Format(time.RFC3339)\n\t\t}\n', '\t\tresponse := struct {\n\t\t\tSessionID string `json:"session_id"`\n\t\t\tJoinCode  string `json:"join_code"`\n\t\t\tExpiresAt string `json:"expires_at"`\n\t\t}{\n\t\t\tSessionID: sess.ID,\n\t\t\tJoinCode:  sess.JoinCode,\n\t\t}\n\t\tif !sess.ExpiresAt.IsZero() {\n\t\t\tresponse.ExpiresAt = sess.ExpiresAt.Format(time.RFC3339)\n\t\t}\n'), ('internal/clienthttp/client.go', '\t\tExpiresAt string `json:"expires_at"` // RFC3339 string\n\t}\n', '\t\tExpiresAt time.Time `json:"expires_at"`\n\t}\n'), ('internal/clienthttp/client.go', '\tif sessionResp.ExpiresAt != "" {\n\t\tparsed, parseErr := time.Parse(time.RFC3339, sessionResp.ExpiresAt)\n\t\tif parseErr != nil {\n\t\t\treturn "", "", time.Time{}, fmt.Errorf("parse expires_at: %w", parseErr)\n\t\t}\n\t\texpiresAt = parsed\n\t}\n', '\texpiresAt = sessionResp.ExpiresAt\n')]),
]

# --- F79 (a cancelled --dumb-tcp transfer stops sending) ---
MUTANTS += [
 dict(id='F79-undo-close-on-cancel', props=['C12'], expect='R-DUMB-WRITE-CANCELLABLE/dumb-write/app.(*SnapshotSender).runDumbTCPTransfer',
      edits=[(SS, '\tstopClose := context.AfterFunc(ctx, func() { _ = conn.Close() })\n\tdefer stopClose()\n', '')]),
 dict(id='F79-closes-the-listener-instead', props=['C12'], expect='R-DUMB-WRITE-CANCELLABLE/dumb-write/app.(*SnapshotSender).runDumbTCPTransfer',
      edits=[(SS, '\tstopClose := context.AfterFunc(ctx, func() { _ = conn.Close() })\n\tdefer stopClose()\n', '\tstopClose := context.AfterFunc(ctx, func() { _ = listener.Close() })\n\tdefer stopClose()\n')]),
 dict(id='F79-close-on-the-background-context', props=['C12'], expect='R-DUMB-WRITE-CANCELLABLE/dumb-write/app.(*SnapshotSender).runDumbTCPTransfer',
      edits=[(SS, '\tstopClose := context.AfterFunc(ctx, func() { _ = conn.Close() })\n\tdefer stopClose()\n', '\tstopClose := context.AfterFunc(context.Background(), func() { _ = conn.Close() })\n\tdefer stopClose()\n')]),
 dict(id='F79-benign-stop-not-deferred', props=['C12', 'C03'], expect='SILENT',
      edits=[(SS, '\tstopClose := context.AfterFunc(ctx, func() { _ = conn.Close() })\n\tdefer stopClose()\n', '\tcontext.AfterFunc(ctx, func() { _ = conn.Close() })\n')]),
]

# --- F80 (questions asked off the read loop) ---
MUTANTS += [
 dict(id='F80-undo-questions-in-the-loop', props=['C16'], expect='R-PROMPT-OFF-READLOOP/prompt-off-readloop/sync/',
      edits=[(SR, '\t\t\tgo func(summary protocol.ManifestSummary, sessionID, senderID string) {\n', '\t\t\tfunc(summary protocol.ManifestSummary, sessionID, senderID string) {\n')]),
 dict(id='F80-repeated-offer-accepts-unanswered', props=['C16'], expect='R-PROMPT-OFF-READLOOP/prompt-off-readloop/gate/',
      edits=[(SR, '\t\tif !r.acceptAnswered.Load() {\n\t\t\t// still at the prompt: the answer accepts, not a repeated offer\n\t\t\treturn\n\t\t}\n', '')]),
 dict(id='F80-answered-before-the-questions', props=['C16'], expect='R-PROMPT-OFF-READLOOP/prompt-off-readloop/gate/',
      edits=[(SR, '\t\t\t\tr.acceptAnswered.Store(true)\n\t\t\t\tr.sendAcceptTo(sessionID, senderID, summary.ManifestID)\n', '\t\t\t\tr.sendAcceptTo(sessionID, senderID, summary.ManifestID)\n'),
             (SR, '\t\t\t\treader := bufio.NewReader(os.Stdin)\n\t\t\t\taccepted, err := promptAccept(reader)\n', '\t\t\t\tr.acceptAnswered.Store(true)\n\t\t\t\treader := bufio.NewReader(os.Stdin)\n\t\t\t\taccepted, err := promptAccept(reader)\n')]),
 dict(id='F80-benign-accept-sent-before-flag', props=['C16', 'C06', 'C07'], expect='SILENT',
      edits=[(SR, '\t\t\t\tr.acceptAnswered.Store(true)\n\t\t\t\tr.sendAcceptTo(sessionID, senderID, summary.ManifestID)\n', '\t\t\t\tr.sendAcceptTo(sessionID, senderID, summary.ManifestID)\n\t\t\t\tr.acceptAnswered.Store(true)\n')]),
]

# --- F81 (known finding): the rule is silent on a variant that looks at what the receiver sent ---
MUTANTS += [
 dict(id='F81-repaired-variant-looks-at-the-ack-readers-result', props=['C02'], expect='SILENT',
      edits=[(MS, '\tif totalFiles == 0 {\n\t\tselect {\n\t\tcase <-ackDone:\n', '\tif totalFiles == 0 {\n\t\tselect {\n\t\tcase err := <-ackErrChan:\n\t\t\tif err != nil {\n\t\t\t\treturn err\n\t\t\t}\n')]),
]

# --- R-FULL-READ accepts a frame built from exactly the bytes read while the receiver holds frames to their tile (round 11) ---
MUTANTS += [
 dict(id='R11-benign-short-final-chunk-sent-as-read', props=['C02', 'C01', 'C04'], expect='SILENT',
      edits=[(MS, '\t\t\t\tif n != int(chunkLen) {\n\t\t\t\t\tbufPool.Put(buf)\n\t\t\t\t\tif err == nil {\n\t\t\t\t\t\terr = io.ErrUnexpectedEOF\n\t\t\t\t\t}\n\t\t\t\t\tsetErr(fmt.Errorf("short read for %s: got %d want %d", state.item.RelPath, n, chunkLen))\n', '\t\t\t\tif n != int(chunkLen) && (n == 0 || chunkIndex+1 < state.totalChunks) {\n\t\t\t\t\tbufPool.Put(buf)\n\t\t\t\t\tsetErr(fmt.Errorf("short read for %s: got %d want %d", state.item.RelPath, n, chunkLen))\n')]),
 dict(id='R11-short-final-chunk-and-no-tile-check', props=['C02'], expect='R-FULL-READ/full-read/',
      edits=[(MS, '\t\t\t\tif n != int(chunkLen) {\n\t\t\t\t\tbufPool.Put(buf)\n\t\t\t\t\tif err == nil {\n\t\t\t\t\t\terr = io.ErrUnexpectedEOF\n\t\t\t\t\t}\n\t\t\t\t\tsetErr(fmt.Errorf("short read for %s: got %d want %d", state.item.RelPath, n, chunkLen))\n', '\t\t\t\tif n != int(chunkLen) && (n == 0 || chunkIndex+1 < state.totalChunks) {\n\t\t\t\t\tbufPool.Put(buf)\n\t\t\t\t\tsetErr(fmt.Errorf("short read for %s: got %d want %d", state.item.RelPath, n, chunkLen))\n'), (MS, '\t\t\t\tif want := chunkSizeForIndex(state.item.Size, state.chunkSize, chunkIndex); chunkLen != want {', '\t\t\t\tif want := chunkSizeForIndex(state.item.Size, state.chunkSize, chunkIndex); chunkLen > want {')]),
 dict(id='R11-short-read-tolerated-frame-at-planned-length', props=['C02'], expect='R-FULL-READ/full-read/',
      edits=[(MS, '\t\t\t\tif n != int(chunkLen) {\n\t\t\t\t\tbufPool.Put(buf)\n\t\t\t\t\tif err == nil {\n\t\t\t\t\t\terr = io.ErrUnexpectedEOF\n\t\t\t\t\t}\n\t\t\t\t\tsetErr(fmt.Errorf("short read for %s: got %d want %d", state.item.RelPath, n, chunkLen))\n', '\t\t\t\tif n != int(chunkLen) && (n == 0 || chunkIndex+1 < state.totalChunks) {\n\t\t\t\t\tbufPool.Put(buf)\n\t\t\t\t\tsetErr(fmt.Errorf("short read for %s: got %d want %d", state.item.RelPath, n, chunkLen))\n'), (MS, 'writeChunkFrame(transferCtx, s, state, chunkIndex, uint32(n), chunkCRC, buf[:n], opts.ProgressDeltaFn)', 'writeChunkFrame(transferCtx, s, state, chunkIndex, chunkLen, chunkCRC, buf[:chunkLen], opts.ProgressDeltaFn)')]),
]

# --- F82 (the QUIC twin of F79) ---
DT = 'internal/app/dumb_transfer.go'
MUTANTS += [
 dict(id='F82-undo-close-on-cancel', props=['C12'], expect='R-DUMB-WRITE-CANCELLABLE/dumb-write/app.sendDumbData',
      edits=[(DT, '\tstopClose := context.AfterFunc(ctx, func() { _ = conn.Close() })\n\tdefer stopClose()\n\n\treturn sendDumbDataWriter(stream, nameBytes, size)\n', '\treturn sendDumbDataWriter(stream, nameBytes, size)\n')]),
 dict(id='F82-benign-closes-the-stream-and-the-connection', props=['C12'], expect='SILENT',
      edits=[(DT, '\tstopClose := context.AfterFunc(ctx, func() { _ = conn.Close() })\n\tdefer stopClose()\n\n\treturn sendDumbDataWriter(stream, nameBytes, size)\n', '\tstopClose := context.AfterFunc(ctx, func() {\n\t\t_ = stream.Close()\n\t\t_ = conn.Close()\n\t})\n\tdefer stopClose()\n\n\treturn sendDumbDataWriter(stream, nameBytes, size)\n')]),
]

# --- F83 (End behind a full acknowledgement queue; acknowledgements written with a deadline) ---
MUTANTS += [
 dict(id='F83-undo-close-only-on-error', props=['C15', 'C02'], expect='R-ACK-QUEUE-NOT-BEHIND-END/ack-queue/',
      edits=[(MS, '\t\tdefer close(controlEnded)\n\t\tfor {\n\t\t\tmsgType, msg, err := readControlMessage(controlStream)\n\t\t\tif err != nil {\n\t\t\t\tselect {\n\t\t\t\tcase controlErr <- err:\n\t\t\t\tdefault:\n\t\t\t\t}\n\t\t\t\treturn\n', '\t\tfor {\n\t\t\tmsgType, msg, err := readControlMessage(controlStream)\n\t\t\tif err != nil {\n\t\t\t\tselect {\n\t\t\t\tcase controlErr <- err:\n\t\t\t\tdefault:\n\t\t\t\t}\n\t\t\t\tclose(controlEnded)\n\t\t\t\treturn\n')]),
 dict(id='F83-acks-written-without-deadline', props=['C15'], expect='R-ACK-QUEUE-NOT-BEHIND-END/ack-queue/deadline/',
      edits=[(MS, '\t\t\t\tif err := writeFullWithTimeout(recvCtx, controlStream, rec.Bytes(), "", "mux-ack"); err != nil {', '\t\t\t\tif err := writeFullControl(controlStream, rec.Bytes(), "mux-ack"); err != nil {')]),
 dict(id='F83-benign-close-in-front-of-both-returns', props=['C15', 'C02', 'C03'], expect='SILENT',
      edits=[(MS, '\t\tdefer close(controlEnded)\n\t\tfor {\n\t\t\tmsgType, msg, err := readControlMessage(controlStream)\n\t\t\tif err != nil {\n\t\t\t\tselect {\n\t\t\t\tcase controlErr <- err:\n\t\t\t\tdefault:\n\t\t\t\t}\n\t\t\t\treturn\n\t\t\t}\n\t\t\tcontrolCh <- controlEvent{typ: msgType, msg: msg}\n\t\t\tif msgType == controlTypeEnd {\n\t\t\t\treturn\n', '\t\tfor {\n\t\t\tmsgType, msg, err := readControlMessage(controlStream)\n\t\t\tif err != nil {\n\t\t\t\tselect {\n\t\t\t\tcase controlErr <- err:\n\t\t\t\tdefault:\n\t\t\t\t}\n\t\t\t\tclose(controlEnded)\n\t\t\t\treturn\n\t\t\t}\n\t\t\tcontrolCh <- controlEvent{typ: msgType, msg: msg}\n\t\t\tif msgType == controlTypeEnd {\n\t\t\t\tclose(controlEnded)\n\t\t\t\treturn\n')]),
]

# --- round 12 rules ---
MUTANTS += [
 dict(id='R12-pad-mask-unguarded', props=['C04'], expect='R-PAD-MASK-GUARDED/pad-mask/',
      edits=[(MS, '\t\t\t\tif totalChunks > 0 && len(info.Bitmap) > 0 {\n\t\t\t\t\tbitmap, err := BitmapFromBytes(info.Bitmap, int(totalChunks))\n', '\t\t\t\tif totalChunks > 0 && len(info.Bitmap) > 0 {\n\t\t\t\t\tif n := len(info.Bitmap); n == (int(totalChunks)+7)/8 {\n\t\t\t\t\t\tinfo.Bitmap[n-1] &= byte(1<<(totalChunks%8)) - 1\n\t\t\t\t\t}\n\t\t\t\t\tbitmap, err := BitmapFromBytes(info.Bitmap, int(totalChunks))\n')]),
 dict(id='R12-benign-pad-mask-guarded', props=['C04', 'C06', 'C05', 'C15'], expect='SILENT',
      edits=[(MS, '\t\t\t\tif totalChunks > 0 && len(info.Bitmap) > 0 {\n\t\t\t\t\tbitmap, err := BitmapFromBytes(info.Bitmap, int(totalChunks))\n', '\t\t\t\tif totalChunks > 0 && len(info.Bitmap) > 0 {\n\t\t\t\t\tif n := len(info.Bitmap); n == (int(totalChunks)+7)/8 && totalChunks%8 != 0 {\n\t\t\t\t\t\tinfo.Bitmap[n-1] &= byte(1<<(totalChunks%8)) - 1\n\t\t\t\t\t}\n\t\t\t\t\tbitmap, err := BitmapFromBytes(info.Bitmap, int(totalChunks))\n')]),
 dict(id='R12-benign-sidecar-name-fixed-width', props=['C03', 'C07', 'C05'], expect='SILENT',
      edits=[(MS, '\treturn fmt.Sprintf("%x", h.Sum64())\n', '\treturn fmt.Sprintf("%016x", h.Sum64())\n')]),
 dict(id='R12-sidecar-name-prefixed-with-path', props=['C03'], expect='R-SIDECAR-NAME-FIXED-LENGTH/sidecar-name/',
      edits=[(MS, '\treturn fmt.Sprintf("%x", h.Sum64())\n', '\treturn fmt.Sprintf("%s-%x", strings.ReplaceAll(item.RelPath, "/", "_"), h.Sum64())\n')]),
 dict(id='R12-hash-empty-name-is-xxhash', props=['C06'], expect='R-HASH-DEFAULT/hash-default/',
      edits=[('internal/transfer/hash.go', '\tcase "", "crc32c":\n\t\treturn HashAlgCRC32C, nil\n\tcase "none":\n\t\treturn HashAlgNone, nil\n', '\tcase "crc32c":\n\t\treturn HashAlgCRC32C, nil\n\tcase "", "none":\n\t\treturn HashAlgNone, nil\n')]),
 dict(id='R12-benign-hash-cases-split', props=['C06', 'C01'], expect='SILENT',
      edits=[('internal/transfer/hash.go', '\tcase "", "crc32c":\n\t\treturn HashAlgCRC32C, nil\n', '\tcase "":\n\t\treturn HashAlgCRC32C, nil\n\tcase "crc32c":\n\t\treturn HashAlgCRC32C, nil\n')]),
 dict(id='R12-turn-query-forced', props=['C16'], expect='R-TURN-QUERY-VERBATIM/turn-query/',
      edits=[(TS, '\tu.User = url.UserPassword(username, password)\n\treturn u.String(), nil\n', '\tu.User = url.UserPassword(username, password)\n\tu.ForceQuery = true\n\treturn u.String(), nil\n')]),
 dict(id='R12-schedule-done-when-plan-covers-rest', props=['C17'], expect='R-SCHEDULE-DONE-AT-END/schedule-done/',
      edits=[(MS, '\tif s.resendPending {\n\t\tidx := s.resendChunk\n\t\ts.resendPending = false\n\t\ts.inFlight++\n\t\treturn idx, chunkSizeForIndex(s.item.Size, s.chunkSize, idx), true\n\t}\n\tfor s.nextChunk < s.totalChunks {', '\tif s.resendPending {\n\t\tidx := s.resendChunk\n\t\ts.resendPending = false\n\t\ts.inFlight++\n\t\treturn idx, chunkSizeForIndex(s.item.Size, s.chunkSize, idx), true\n\t}\n\tif s.plan != nil && s.plan.forceSendFrom == s.totalChunks && s.plan.skippedChunks > 0 {\n\t\ts.scheduleDone = true\n\t}\n\tfor s.nextChunk < s.totalChunks {')]),
 dict(id='R12-benign-hub-conn-id-renamed', props=['C10', 'C11'], expect='SILENT',
      edits=[('internal/peers/hub.go', '\tfor _, connID := range behind {\n\t\tconnID := connID\n\t\th.enqueueWait(func() *peerConnection { return h.sessions[sessionID][connID] }, env)\n', '\tfor _, id := range behind {\n\t\tid := id\n\t\th.enqueueWait(func() *peerConnection { return h.sessions[sessionID][id] }, env)\n')]),
]

# --- R-DEQUEUE false alarm corrected (round 12): skipping a popped receiver whose status is not QUEUED is the same as gone-or-served
#     where the tree shows that every queue member is QUEUED ---
MUTANTS += [
 dict(id='R12-benign-dequeue-only-queued', props=['C12'], expect='SILENT',
      edits=[(SS, '\t\tif state.Status == ReceiverStatusTransferring {\n\t\t\ts.mu.Unlock()\n\t\t\tcontinue\n\t\t}\n', '\t\tif state.Status != ReceiverStatusQueued {\n\t\t\ts.mu.Unlock()\n\t\t\tcontinue\n\t\t}\n')]),
 dict(id='R12-dequeue-only-queued-and-join-resets-status', props=['C12'], expect='R-DEQUEUE/dequeue/',
      edits=[(SS, '\t\tif state.Status == ReceiverStatusTransferring {\n\t\t\ts.mu.Unlock()\n\t\t\tcontinue\n\t\t}\n', '\t\tif state.Status != ReceiverStatusQueued {\n\t\t\ts.mu.Unlock()\n\t\t\tcontinue\n\t\t}\n'), (SS, '\tif state.Status != ReceiverStatusQueued && state.Status != ReceiverStatusTransferring {\n\t\tstate.Status = ReceiverStatusJoined\n\t}\n', '\tstate.Status = ReceiverStatusJoined\n')]),
]

# --- round 13 rules ---
ICE = 'internal/ice/ice.go'
MUTANTS += [
 dict(id='R13-rate-integer-division', props=['C14'], expect='R-NO-INT-DIVISION-IN-RATE/int-division/',
      edits=[(TS, '\tconnectRate := float64(cfg.WSConnectsPerMin) / 60.0\n', '\tconnectRate := float64(cfg.WSConnectsPerMin / 60)\n')]),
 dict(id='R13-benign-rate-by-a-factor', props=['C14', 'C16'], expect='SILENT',
      edits=[(TS, '\tconnectRate := float64(cfg.WSConnectsPerMin) / 60.0\n', '\tconnectRate := float64(cfg.WSConnectsPerMin) * (1.0 / 60.0)\n')]),
 dict(id='R13-item-size-refreshed-at-open', props=['C02'], expect='R-MANIFEST-SIZE-FIXED/manifest-size/',
      edits=[(MS, '\tf, err := os.Open(s.filePath)\n\tif err != nil {\n\t\treturn nil, err\n\t}\n\ts.file = f\n\treturn f, nil\n', '\tf, err := os.Open(s.filePath)\n\tif err != nil {\n\t\treturn nil, err\n\t}\n\tif st, err := f.Stat(); err == nil {\n\t\ts.item.Size = st.Size()\n\t}\n\ts.file = f\n\treturn f, nil\n')]),
 dict(id='R13-benign-turns-tcp-in-one-expression', props=['C16'], expect='SILENT',
      edits=[(ICE, '\tif transport == "tcp" {\n\t\tuseTCP = true\n\t}\n\tif u.Scheme == "turns" {\n\t\tuseTCP = true\n\t\tuseTLS = true\n', '\tuseTCP = transport == "tcp" || u.Scheme == "turns"\n\tif u.Scheme == "turns" {\n\t\tuseTLS = true\n')]),
 dict(id='R13-turns-tcp-only-with-the-option', props=['C16'], expect='R-TURNS-IMPLIES-TCP/turns-tcp/',
      edits=[(ICE, '\tif u.Scheme == "turns" {\n\t\tuseTCP = true\n\t\tuseTLS = true\n', '\tif u.Scheme == "turns" {\n\t\tuseTLS = true\n')]),
 dict(id='R13-addressee-lowercased', props=['C10'], expect='R-ADDRESSEE-VERBATIM/addressee-verbatim/',
      edits=[(TS, '\t\tif env.To != "" {\n\t\t\t// Targeted send\n', '\t\tenv.To = strings.ToLower(env.To)\n\t\tif env.To != "" {\n\t\t\t// Targeted send\n')]),
]
# ---- round 14 ----
TA = 'internal/app/transport_auth.go'
WSC = 'internal/wsclient/conn.go'
MUTANTS += [
 dict(id='R14-markunconfirmed-without-dirty', props=['C05'], expect='R-DIRTY-AFTER-CHANGE/dirty/MarkUnconfirmed',
      edits=[(SC, '\ts.unconfirmed = append(s.unconfirmed, i)\n\ts.dirty = true\n', '\ts.unconfirmed = append(s.unconfirmed, i)\n')]),
 dict(id='R14-benign-confirm-dirty-first', props=['C04', 'C05'], expect='SILENT',
      edits=[(SC, '\ts.unconfirmed = nil\n\ts.dirty = true\n', '\ts.dirty = true\n\ts.unconfirmed = nil\n')]),
 dict(id='R14-benign-offset-through-alias', props=['C01', 'C19'], expect='SILENT',
      edits=[(MS, 'offset := int64(chunkIndex) * int64(state.chunkSize)\n\t\t\t\tn, err := readAtWithPool', 'cs := state.chunkSize\n\t\t\t\toffset := int64(chunkIndex) * int64(cs)\n\t\t\t\tn, err := readAtWithPool')]),
 dict(id='R14-benign-wss-lowercased-prefix', props=['C16'], expect='SILENT',
      edits=[(WS, 'scheme := strings.Replace(u.Scheme, "http", "ws", 1)\n\tif scheme == "ws" && u.Scheme == "https" {', 'scheme := "ws"\n\tif strings.HasPrefix(strings.ToLower(serverURL), "https://") {')]),
 dict(id='R14-benign-burst-floor-moved-for-all', props=['C16', 'C14'], expect='SILENT',
      edits=[(SRV, '\tif burst < 1 {\n\t\tburst = 1\n\t}\n\treturn &tokenBucket{', '\treturn &tokenBucket{'),
             (SRV, '\treturn serverLimits{\n', '\tif cfg.WSConnectsBurst < 1 {\n\t\tcfg.WSConnectsBurst = 1\n\t}\n\tif cfg.WSMsgsBurst < 1 {\n\t\tcfg.WSMsgsBurst = 1\n\t}\n\tif cfg.SessionCreatesBurst < 1 {\n\t\tcfg.SessionCreatesBurst = 1\n\t}\n\treturn serverLimits{\n')]),
 dict(id='R14-msg-burst-from-connect-burst', props=['C14'], expect='R-LIMITS-ONE-TO-ONE/limits-paired/',
      edits=[(SRV, 'msgBurst:                cfg.WSMsgsBurst,', 'msgBurst:                cfg.WSConnectsBurst,')]),
 dict(id='R14-benign-count-guard-strict', props=['C19'], expect='SILENT',
      edits=[(MS, 'return (fileSize+int64(chunkSize)-1)/int64(chunkSize) <= math.MaxUint32', 'return (fileSize+int64(chunkSize)-1)/int64(chunkSize) < math.MaxUint32+1')]),
 dict(id='R14-count-guard-maxint32', props=['C19'], expect='R-COUNT-GUARD-EXACT/count-guard/',
      edits=[(MS, 'return (fileSize+int64(chunkSize)-1)/int64(chunkSize) <= math.MaxUint32', 'return (fileSize+int64(chunkSize)-1)/int64(chunkSize) <= math.MaxUint32+1')]),
 dict(id='R14-auth-code-lowercased-copy', props=['C08'], expect='R-AUTH-CODE-VERBATIM/auth-code/key',
      edits=[(TA, 'mac := hmac.New(sha256.New, []byte(joinCode))\n\t_, _ = mac.Write(ekm)', 'mac := hmac.New(sha256.New, []byte(strings.ToLower(joinCode)))\n\t_, _ = mac.Write(ekm)')]),
 dict(id='R14-close-socket-before-drain', props=['C10'], expect='R-CLOSE-AFTER-DRAIN/close-drain/',
      edits=[(WSC, '\tclose(c.sendChan)\n\t<-c.done // Wait for write loop to finish\n\tc.writeMu.Lock()\n\tdefer c.writeMu.Unlock()\n\treturn c.conn.Close()', '\tclose(c.sendChan)\n\tc.writeMu.Lock()\n\tdefer c.writeMu.Unlock()\n\terr := c.conn.Close()\n\t<-c.done // Wait for write loop to finish\n\treturn err')]),
 dict(id='R14-nil-guard-dropped-at-confirm', props=['C15'], expect='R-SIDECAR-NIL-GUARD/sidecar-nil/',
      edits=[(MS, 'if state.sidecar == nil {\n\t\t\t// No resume metadata was attached when the file began: nothing is', 'if state.sidecar == nil && state.totalChunks == 0 {\n\t\t\t// No resume metadata was attached when the file began: nothing is')]),
]
# ---- round 15 ----
MUTANTS += [
 dict(id='R15-benign-clearing-only-with-reservations', props=['C04', 'C05', 'C06'], expect='SILENT',
      edits=[(SC, '\tfor _, u := range s.unconfirmed {\n\t\tif int(u/8) < len(bitmap) {\n\t\t\tbitmap[u/8] &^= 1 << (u % 8)\n\t\t}\n\t}\n', '\tif len(s.unconfirmed) > 0 {\n\t\tfor _, u := range s.unconfirmed {\n\t\t\tif int(u/8) < len(bitmap) {\n\t\t\t\tbitmap[u/8] &^= 1 << (u % 8)\n\t\t\t}\n\t\t}\n\t}\n')]),
 dict(id='R15-clearing-only-when-dirty-bits', props=['C05'], expect='R-UNCONFIRMED-NOT-CLAIMED/unconfirmed/flush/unconditional',
      edits=[(SC, '\tfor _, u := range s.unconfirmed {\n\t\tif int(u/8) < len(bitmap) {\n\t\t\tbitmap[u/8] &^= 1 << (u % 8)\n\t\t}\n\t}\n', '\tif s.bitmap.CountSet() > 0 && s.TotalChunks > 1 {\n\t\tfor _, u := range s.unconfirmed {\n\t\t\tif int(u/8) < len(bitmap) {\n\t\t\t\tbitmap[u/8] &^= 1 << (u % 8)\n\t\t\t}\n\t\t}\n\t}\n')]),
 dict(id='R15-benign-intact-mirrored', props=['C01', 'C06'], expect='SILENT',
      edits=[(MS, '\t\t// length before it is created or resized below.\n\t\tdataFileIntact := false\n\t\tif st, statErr := os.Stat(filePath); statErr == nil && st.Size() == int64(begin.FileSize) {', '\t\t// length before it is created or resized below.\n\t\tdataFileIntact := false\n\t\tif st, statErr := os.Stat(filePath); statErr == nil && int64(begin.FileSize) == st.Size() {')]),
 dict(id='R15-benign-turn-password-two-steps', props=['C16'], expect='SILENT',
      edits=[(ICE, '\t\tif pwd, ok := u.User.Password(); ok {\n\t\t\tpassword = pwd\n\t\t}\n', '\t\tpwd, ok := u.User.Password()\n\t\tif ok {\n\t\t\tpassword = pwd\n\t\t}\n')]),
 dict(id='R15-role-shifted', props=['C08'], expect='R-AUTH-ROLE-WHOLE-BYTE/auth-role/',
      edits=[(TA, '\trole := buf[1]\n', '\trole := buf[1] % 4\n')]),
]
# ---- round 16 ----
HUB = 'internal/peers/hub.go'
SS = 'internal/app/snapshot_sender.go'
MUTANTS += [
 dict(id='R16-benign-control-eof-made-unexpected', props=['C02'], expect='SILENT',
      edits=[(MS, '\t\tdefer close(controlEnded)\n\t\tfor {\n\t\t\tmsgType, msg, err := readControlMessage(controlStream)\n\t\t\tif err != nil {\n', '\t\tdefer close(controlEnded)\n\t\tfor {\n\t\t\tmsgType, msg, err := readControlMessage(controlStream)\n\t\t\tif err != nil {\n\t\t\t\tif errors.Is(err, io.EOF) {\n\t\t\t\t\terr = io.ErrUnexpectedEOF\n\t\t\t\t}\n')]),
 dict(id='R16-control-cancel-becomes-nil', props=['C02'], expect='R-CONTROL-ERROR-VERBATIM/control-error/',
      edits=[(MS, '\t\tdefer close(controlEnded)\n\t\tfor {\n\t\t\tmsgType, msg, err := readControlMessage(controlStream)\n\t\t\tif err != nil {\n', '\t\tdefer close(controlEnded)\n\t\tfor {\n\t\t\tmsgType, msg, err := readControlMessage(controlStream)\n\t\t\tif err != nil {\n\t\t\t\tif errors.Is(err, context.Canceled) {\n\t\t\t\t\terr = nil\n\t\t\t\t}\n')]),
 dict(id='R16-benign-remove-timeout-logged', props=['C11'], expect='SILENT',
      edits=[(HUB, '\t\tcase <-time.After(1 * time.Second):\n\t\t\t// Timeout - continue anyway\n', '\t\tcase <-time.After(1 * time.Second):\n\t\t\t// Timeout - continue anyway\n\t\t\t_ = sessionID\n')]),
 dict(id='R16-remove-returns-when-writer-done', props=['C11'], expect='R-REMOVE-REACHES-CLEANUP/remove-cleanup/',
      edits=[(HUB, '\t\tselect {\n\t\tcase <-pc.done:\n\t\tcase <-time.After(1 * time.Second):\n\t\t\t// Timeout - continue anyway\n', '\t\tselect {\n\t\tcase <-pc.done:\n\t\tcase <-time.After(1 * time.Second):\n\t\t\t// Timeout - continue anyway\n\t\t\tif sessionID == "" {\n\t\t\t\treturn\n\t\t\t}\n')]),
]
MUTANTS += [
 dict(id='R16-benign-leaver-status-nested-under-state-test', props=['C12'], expect='SILENT',
      edits=[(SS, '\tif state != nil && state.Status != ReceiverStatusDone {\n\t\tstate.Status = ReceiverStatusFailed\n\t\tstate.LastSeen = s.now()\n\t}\n', '\tif state != nil {\n\t\tif state.Status != ReceiverStatusDone {\n\t\t\tstate.Status = ReceiverStatusFailed\n\t\t\tstate.LastSeen = s.now()\n\t\t}\n\t}\n')]),
 dict(id='R16-benign-classifier-reused', props=['C03'], expect='SILENT',
      edits=[('internal/scheduler/hybrid.go', '\t\tif s.effectiveClass(meta, now) == class {\n\t\t\tkeys = append(keys, key)\n\t\t}\n', '\t\tif meta.LastScheduledAt.IsZero() && class == s.classForRemaining(s.remainingForMeta(meta)) {\n\t\t\tkeys = append(keys, key)\n\t\t\tcontinue\n\t\t}\n\t\tif s.effectiveClass(meta, now) == class {\n\t\t\tkeys = append(keys, key)\n\t\t}\n')]),
]
