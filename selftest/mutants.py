# Each mutant: id, props (checks that must fire / stay silent), edits [(file, old, new)], expect
# expect: 'SILENT' for benign edits, otherwise '&&'-separated substrings that must appear in the report.
CP = 'internal/transfer/controlproto.go'
MUTANTS = [
 dict(id='C18-swap-fields-writer', props=['C18'], expect='R-CODEC/record/controlTypeFileResumeInfo',
      edits=[(CP, 'if err := writeUint64Control(s, msg.StreamID, "stream id"); err != nil {\n\t\treturn fmt.Errorf("failed to write stream id: %w", err)\n\t}\n\tif err := writeUint32Control(s, msg.TotalChunks, "total chunks"); err != nil {\n\t\treturn fmt.Errorf("failed to write total chunks: %w", err)\n\t}\n\tbitmapLen',
              'if err := writeUint32Control(s, msg.TotalChunks, "total chunks"); err != nil {\n\t\treturn fmt.Errorf("failed to write total chunks: %w", err)\n\t}\n\tif err := writeUint64Control(s, msg.StreamID, "stream id"); err != nil {\n\t\treturn fmt.Errorf("failed to write stream id: %w", err)\n\t}\n\tbitmapLen')]),
 dict(id='C18-reader-width', props=['C18'], expect='R-CODEC/record/controlTypeFileDone',
      edits=[(CP, 'errLen, err := readUint16Control(s, "err length")', 'errLen, err := readUint32Control(s, "err length")')]),
 dict(id='C18-cond-mismatch', props=['C18'], expect='R-CODEC/record/controlTypeFileResumeInfo',
      edits=[(CP, 'if bitmapLen > 0 {\n\t\tif err := writeFullControl(s, msg.Bitmap', 'if bitmapLen > 1 {\n\t\tif err := writeFullControl(s, msg.Bitmap')]),
 dict(id='C18-default-removed', props=['C18'], expect='R-CODEC/type-table/default',
      edits=[(CP, 'default:\n\t\treturn msgType[0], nil, ErrInvalidRecordType', 'default:\n\t\treturn msgType[0], nil, nil')]),
 dict(id='C18-wrong-dispatch', props=['C18'], expect='R-CODEC/record/',
      edits=[(CP, 'case controlTypeFileEnd:\n\t\tmsg, err := readFileEnd(s)', 'case controlTypeFileEnd:\n\t\tmsg, err := readCredit(s)')]),
 dict(id='C18-value-tweak', props=['C18'], expect='R-CODEC/record/controlTypeFileEnd',
      edits=[(CP, 'writeUint32Control(s, msg.CRC32, "crc32")', 'writeUint32Control(s, msg.CRC32+1, "crc32")')]),
 dict(id='C18-little-endian', props=['C18'], expect='R-CODEC/',
      edits=[(CP, 'if err := binary.Write(s, binary.BigEndian, msg.StripeStart); err != nil {', 'if err := binary.Write(s, binary.LittleEndian, msg.StripeStart); err != nil {')]),
 dict(id='C18-wrong-len-var', props=['C18'], expect='R-CODEC/record/controlTypeResumeRequest',
      edits=[(CP, 'fileIDLen := uint16(len(fileIDBytes))\n\tif err := writeUint16Control(s, fileIDLen, "file id length"); err != nil {\n\t\treturn fmt.Errorf("failed to write file id length: %w", err)\n\t}\n\tif err := writeFullControl(s, fileIDBytes, "file id"); err != nil {\n\t\treturn fmt.Errorf("failed to write file id: %w", err)\n\t}\n\tif err := writeUint64Control(s, msg.StreamID, "stream id"); err != nil {\n\t\treturn fmt.Errorf("failed to write stream id: %w", err)\n\t}\n\treturn nil',
              'fileIDLen := uint16(len(fileIDBytes) + 1)\n\tif err := writeUint16Control(s, fileIDLen, "file id length"); err != nil {\n\t\treturn fmt.Errorf("failed to write file id length: %w", err)\n\t}\n\tif err := writeFullControl(s, fileIDBytes, "file id"); err != nil {\n\t\treturn fmt.Errorf("failed to write file id: %w", err)\n\t}\n\tif err := writeUint64Control(s, msg.StreamID, "stream id"); err != nil {\n\t\treturn fmt.Errorf("failed to write stream id: %w", err)\n\t}\n\treturn nil')]),
 dict(id='C18-benign-bool-decode', props=['C18'], expect='SILENT',
      edits=[(CP, 'msg.OK = okBuf[0] == 1', 'msg.OK = okBuf[0] != 0')]),
 dict(id='C18-benign-rename', props=['C18'], expect='SILENT',
      edits=[(CP, 'crc32Value, err := readUint32Control(s, "crc32")\n\tif err != nil {\n\t\treturn msg, fmt.Errorf("failed to read crc32: %w", err)\n\t}\n\tmsg.CRC32 = crc32Value', 'sum, err := readUint32Control(s, "crc32")\n\tif err != nil {\n\t\treturn msg, fmt.Errorf("failed to read crc32: %w", err)\n\t}\n\tmsg.CRC32 = sum')]),
]
MS = 'internal/transfer/multistream.go'
MP = 'internal/transfer/manifestproto.go'
SC = 'internal/transfer/sidecar.go'
MUTANTS += [
 dict(id='C19-offset-by-len', props=['C19'], expect='R-OFFSET/offset/transfer.RecvManifestMultiStream',
      edits=[(MS, 'offset := int64(chunkIndex) * int64(state.chunkSize)\n\t\t\t\tif err := writeAtWithTimeout', 'offset := int64(chunkIndex) * int64(chunkLen)\n\t\t\t\tif err := writeAtWithTimeout')]),
 dict(id='C19-offset-32bit', props=['C19'], expect='R-OFFSET/offset/transfer.SendManifestMultiStream',
      edits=[(MS, 'offset := int64(chunkIndex) * int64(state.chunkSize)\n\t\t\t\tn, err := readAtWithPool', 'offset := int64(chunkIndex * state.chunkSize)\n\t\t\t\tn, err := readAtWithPool')]),
 dict(id='C19-ceil-no-minus-one', props=['C19'], expect='R-GEOM/chunk-count/transfer.RecvManifestMultiStream$handleFileBegin',
      edits=[(MS, 'totalChunks = uint32((int64(begin.FileSize) + int64(begin.ChunkSize) - 1) / int64(begin.ChunkSize))\n\t\t}\n\t\tstate := &recvFileStateMux{', 'totalChunks = uint32((int64(begin.FileSize) + int64(begin.ChunkSize)) / int64(begin.ChunkSize))\n\t\t}\n\t\tstate := &recvFileStateMux{')]),
 dict(id='C19-floor-div', props=['C19'], expect='R-GEOM/chunk-count/transfer.chunkTotal',
      edits=[(MS, 'return uint32((fileSize + int64(chunkSize) - 1) / int64(chunkSize))', 'return uint32(fileSize/int64(chunkSize)) + 1')]),
 dict(id='C19-sidecar-clamp-back', props=['C19'], expect='R-GEOM/count-adjust/transfer.CreateSidecar',
      edits=[(SC, 'totalChunks := uint32((fileSize + int64(chunkSize) - 1) / int64(chunkSize))\n', 'totalChunks := uint32((fileSize + int64(chunkSize) - 1) / int64(chunkSize))\n\tif totalChunks == 0 {\n\t\ttotalChunks = 1\n\t}\n')]),
 dict(id='C19-drop-len-bound', props=['C19'], expect='R-TILE/write-bounds/transfer.RecvManifestMultiStream$4/len<=chunkSize',
      edits=[(MS, 'if state.chunkSize > 0 && chunkLen > state.chunkSize {', 'if state.chunkSize > 0 && chunkLen > state.chunkSize*2 {')]),
 dict(id='C19-drop-idx-bound', props=['C19'], expect='R-TILE/write-bounds/transfer.RecvManifestMultiStream$4/idx<totalChunks',
      edits=[(MS, 'if state.totalChunks > 0 && chunkIndex >= state.totalChunks {', 'if state.totalChunks > 0 && chunkIndex > state.totalChunks {')]),
 dict(id='C19-tail-len-unguarded', props=['C19'], expect='R-TILE/narrow-rem/transfer.chunkSizeForIndex',
      edits=[(MS, 'if remaining < int64(chunkSize) {\n\t\treturn uint32(remaining)\n\t}\n\treturn chunkSize', 'if remaining < int64(chunkSize) || idx == 0 {\n\t\treturn uint32(remaining)\n\t}\n\treturn chunkSize')]),
 dict(id='C19-benign-use-helper', props=['C19'], expect='SILENT',
      edits=[(MS, 'totalChunks := uint32(0)\n\t\tif begin.ChunkSize > 0 {\n\t\t\ttotalChunks = uint32((int64(begin.FileSize) + int64(begin.ChunkSize) - 1) / int64(begin.ChunkSize))\n\t\t}\n\t\tstate := &recvFileStateMux{', 'totalChunks := chunkTotal(int64(begin.FileSize), begin.ChunkSize)\n\t\tstate := &recvFileStateMux{')]),
 dict(id='C19-benign-rename-offset', props=['C19'], expect='SILENT',
      edits=[(MS, 'offset := int64(chunkIndex) * int64(state.chunkSize)\n\t\t\t\tif err := writeAtWithTimeout(recvCtx, f, buf[:chunkLen], offset, state.item.RelPath)', 'pos := int64(state.chunkSize) * int64(chunkIndex)\n\t\t\t\tif err := writeAtWithTimeout(recvCtx, f, buf[:chunkLen], pos, state.item.RelPath)')]),
]
SRV = 'cmd/thruserv/main.go'
CH = 'internal/clienthttp/client.go'
WS = 'internal/app/ws.go'
ICE = 'internal/ice/ice.go'
MUTANTS += [
 dict(id='C16-expires-required-again', props=['C16'], expect='R-JSON-KEYS/session-response/key/expires_at',
      edits=[(CH, 'if sessionResp.ExpiresAt != "" {\n\t\tparsed, parseErr', 'if true {\n\t\tparsed, parseErr')]),
 dict(id='C16-rename-key-server', props=['C16'], expect='R-JSON-KEYS/session-response/key/join_code',
      edits=[(SRV, '"join_code":  sess.JoinCode,', '"joinCode":  sess.JoinCode,')]),
 dict(id='C16-query-key-renamed', props=['C16'], expect='R-JSON-KEYS/ws-query/app.buildWebSocketURL',
      edits=[(WS, 'join_code=%s&peer_id=%s&role=%s', 'join_code=%s&peer=%s&role=%s')]),
 dict(id='C16-query-unescaped', props=['C16'], expect='R-JSON-KEYS/ws-query/app.buildWebSocketURL/peer_id',
      edits=[(WS, 'url.QueryEscape(peerID)', 'peerID')]),
 dict(id='C16-turn-prefix-one-side', props=['C16'], expect='R-TURN-SIBLING/turn/prefix-table',
      edits=[(ICE, 'case strings.HasPrefix(raw, "turns:"):\n\t\traw = "turns://" + strings.TrimPrefix(raw, "turns:")\n', '')]),
 dict(id='C16-status-200-only', props=['C16'], expect='R-JSON-KEYS/session-response/status',
      edits=[(CH, 'if resp.StatusCode < 200 || resp.StatusCode >= 300 {', 'if resp.StatusCode != http.StatusOK {')]),
 dict(id='C16-zero-off-dropped', props=['C16', 'C14'], expect='R-ZERO-OFF/zero-off/cmd/thruserv.main$2/maxSessions',
      edits=[(SRV, 'if limits.maxSessions > 0 && store.Count() >= limits.maxSessions {', 'if store.Count() >= limits.maxSessions {')]),
 dict(id='C16-idle-timeout-unguarded', props=['C16'], expect='R-ZERO-OFF/zero-off/cmd/thruserv.handleWebSocket/wsIdleTimeout',
      edits=[(SRV, '\t\tif limits.wsIdleTimeout > 0 {\n\t\t\tconn.SetReadDeadline(time.Now().Add(limits.wsIdleTimeout))\n\t\t}\n\n\t\t// Only process text', '\t\tif limits.wsIdleTimeout >= 0 {\n\t\t\tconn.SetReadDeadline(time.Now().Add(limits.wsIdleTimeout))\n\t\t}\n\n\t\t// Only process text')]),
 dict(id='C16-ttl-unguarded', props=['C16', 'C14'], expect='R-ZERO-OFF/zero-off/session-ttl/create',
      edits=[('internal/session/session.go', 'if s.ttl > 0 {\n\t\texpiresAt = now.Add(s.ttl)\n\t}', 'if s.ttl >= 0 {\n\t\texpiresAt = now.Add(s.ttl)\n\t}')]),
 dict(id='C16-flag-undocumented', props=['C16'], expect='R-FLAGS-DOC/flags/registered-are-documented',
      edits=[(SRV, '\tfmt.Fprintln(termio.Stderr(), "  --max-ws-connections N       max concurrent websocket connections (default 2000)")\n', '')]),
 dict(id='C16-turn-creds-swapped', props=['C16'], expect='R-TURN-SIBLING/turn/credentials',
      edits=[(SRV, 'u.User = url.UserPassword(username, password)', 'u.User = url.UserPassword(password, username)')]),
 dict(id='C16-benign-always-emit', props=['C16'], expect='SILENT',
      edits=[(SRV, '\t\tif !sess.ExpiresAt.IsZero() {\n\t\t\tresponse["expires_at"] = sess.ExpiresAt.Format(time.RFC3339)\n\t\t}\n', '\t\tresponse["expires_at"] = sess.ExpiresAt.Format(time.RFC3339)\n')]),
]
