#!/usr/bin/env python3
"""Checker self-test (not a registered check): applies each mutant of mutants.py to a
scratch copy of /repo (outside /repo and /verif), runs the affected tfcheck property
against the copy and asserts 'fires naming that instance' or 'silent' (benign edits).
Usage: run.py [-k substring] [--prop C18] [--tests]   (--tests also runs go test on the mutated packages)
"""
import os, subprocess, sys, shutil, tempfile, json, argparse, importlib.util
HERE = os.path.dirname(os.path.abspath(__file__))
VERIF = os.path.dirname(HERE)
ENV = dict(os.environ, GOFLAGS='-mod=mod', GOPROXY='off', GOSUMDB='off', GOTOOLCHAIN='local',
           PATH='/opt/veriftools/go1.26.8/bin:' + os.environ['PATH'])
ENV.pop('GOWORK', None)

def load_mutants():
    spec = importlib.util.spec_from_file_location('mutants', os.path.join(HERE, 'mutants.py'))
    m = importlib.util.module_from_spec(spec); spec.loader.exec_module(m)
    return m.MUTANTS

def main():
    ap = argparse.ArgumentParser()
    ap.add_argument('-k', default='')
    ap.add_argument('--prop', default='')
    ap.add_argument('--tests', action='store_true')
    ap.add_argument('-v', action='store_true')
    ap.add_argument('--seeds', action='store_true', help='also apply every /verif/seeded/*/patch.diff and expect its property to fire')
    ap.add_argument('--only-seeds', action='store_true')
    ap.add_argument('--shard', default='', help='i/n: take every n-th mutant and seed, starting at i (parallel runs)')
    a = ap.parse_args()
    muts = [m for m in load_mutants() if a.k in m['id'] and (not a.prop or a.prop in m['props'])]
    si, sn = (int(x) for x in a.shard.split('/')) if a.shard else (0, 1)
    muts = muts[si::sn]
    if a.only_seeds:
        muts = []; a.seeds = True
    scratch = tempfile.mkdtemp(prefix='tfmut_')
    repo = os.path.join(scratch, 'repo'); sverif = os.path.join(scratch, 'verif')
    os.makedirs(sverif)
    # private copy of the checker: rebuilding /verif/bin/tfcheck during a long run must not change the verdicts
    tfbin = os.path.join(scratch, 'tfcheck'); shutil.copy(os.path.join(VERIF, 'bin/tfcheck'), tfbin)
    shutil.copy(os.path.join(VERIF, 'known_findings.json'), sverif) if os.path.exists(os.path.join(VERIF, 'known_findings.json')) else None
    subprocess.check_call(['rsync', '-a', '--exclude', '.git', '--exclude', '.gopath', '/repo/', repo + '/'])
    fails = 0
    try:
        for m in muts:
            saved = {}
            ok_apply = True
            for (path, old, new) in m['edits']:
                fp = os.path.join(repo, path)
                src = open(fp).read()
                saved.setdefault(fp, src)
                cur = open(fp).read()
                if cur.count(old) != 1:
                    print(f"MUTANT {m['id']}: edit does not apply uniquely in {path} ({cur.count(old)} matches of {old[:50]!r})")
                    ok_apply = False
                    break
                open(fp, 'w').write(cur.replace(old, new))
            if ok_apply:
                res_ok = True
                for prop in m['props']:
                    p = subprocess.run([tfbin, '-prop', prop, '-repo', repo, '-verif', sverif],
                                       env=ENV, capture_output=True, text=True)
                    out = p.stdout + p.stderr
                    if m.get('expect') == 'SILENT':
                        good = p.returncode == 0 and 'VIOLATION' not in out
                    else:
                        good = p.returncode == 1 and 'VIOLATION property=' + prop in out and all(e in out for e in m['expect'].split('&&'))
                    if not good:
                        res_ok = False
                        print(f"--- {m['id']} [{prop}] UNEXPECTED (rc={p.returncode}); wanted {m['expect']!r}\n{out[-1500:]}")
                    elif a.v:
                        print(out[-600:])
                if a.tests and res_ok and m.get('expect') != 'SILENT':
                    pk = sorted({'./' + os.path.dirname(e[0]) + '/...' for e in m['edits']})
                    t = subprocess.run(['go', 'test', '-count=1', '-vet=off'] + pk, cwd=repo, env=ENV, capture_output=True, text=True)
                    print(f"    tests on mutant {m['id']}: {'pass' if t.returncode == 0 else 'FAIL (mutant is caught by the suite)'}")
                print(('ok   ' if res_ok else 'FAIL ') + m['id'])
                fails += 0 if res_ok else 1
            else:
                fails += 1
            for fp, src in saved.items():
                open(fp, 'w').write(src)
        if a.seeds:
            import glob
            for mj in sorted(glob.glob(os.path.join(VERIF, 'seeded', '*', 'meta.json')))[si::sn]:
                meta = json.load(open(mj))
                if a.k and a.k not in meta['id']:
                    continue
                pf = os.path.join(os.path.dirname(mj), 'patch.diff')
                ap1 = subprocess.run(['git', 'apply', pf], cwd=repo, capture_output=True, text=True)
                if ap1.returncode != 0:
                    print(f"FAIL seed {meta['id']}: patch does not apply: {ap1.stderr[:300]}"); fails += 1; continue
                prop = meta['breaks']
                p = subprocess.run([tfbin, '-prop', prop, '-repo', repo, '-verif', sverif], env=ENV, capture_output=True, text=True)
                out = p.stdout + p.stderr
                want = meta.get('detected_by', {}).get('expect', '')
                caught = p.returncode == 1 and 'VIOLATION property=' + prop in out
                if meta.get('detected_by', {}).get('caught', True):
                    good = caught and all(e in out for e in want.split('&&') if e)
                else:
                    good = not caught  # recorded as not detected; report when that changes
                print(('ok   ' if good else 'FAIL ') + 'seed ' + meta['id'] + (' (fires)' if caught else ' (silent)'))
                if not good:
                    print(out[-1200:]); fails += 1
                subprocess.check_call(['git', 'apply', '-R', pf], cwd=repo)
    finally:
        shutil.rmtree(scratch, ignore_errors=True)
    print(f"{len(muts)} mutants, {fails} failures")
    sys.exit(1 if fails else 0)

main()
