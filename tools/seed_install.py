#!/usr/bin/env python3
"""Install a vetted candidate seed: tools/seed_install.py <src _seed dir> <seed-id> <property> <vet-log> "<title>" "<needs>" """
import sys, os, shutil, json, re, glob
src, sid, prop, vetlog, title, needs = sys.argv[1:7]
dst = f'/verif/seeded/{sid}'
os.makedirs(dst, exist_ok=True)
shutil.copy(f'{src}/patch.diff', f'{dst}/patch.diff')
demo = glob.glob(f'{src}/demo_*.txt')[0]
shutil.copy(demo, f'{dst}/{os.path.basename(demo)}')
shutil.copy(f'{src}/notes.md', f'{dst}/notes.md')
log = open(vetlog).read()
m = re.search(r'VET-OK \S+ dest=(\S+) run=(\S+)', log)
assert m, 'seed not vetted OK'
files = sorted(set(re.findall(r'^\+\+\+ b/(\S+)', open(f'{dst}/patch.diff').read(), re.M)))
meta = {
  'id': sid, 'breaks': prop, 'title': title, 'needs_to_manifest': needs,
  'origin': 'fresh sub-agent given only the property text and a scratch worktree of /repo HEAD (57f0c3f)',
  'files_changed': files,
  'demo': {'file': os.path.basename(demo), 'copy_to': m.group(1), 'run': f"go test -vet=off -count=1 -run '^({m.group(2)})$' ./{os.path.dirname(m.group(1))}"},
  'confirmed_by_me': {
    'how': 'tools/seed_vet.sh in a scratch worktree /tmp/vet/<id> of /repo HEAD (removed afterwards)',
    'a_build_and_full_suite_with_change': re.search(r'\(a\) suite with change: (.*)', log).group(1),
    'b_demo_with_change': re.search(r'\(b\) demo with change: (.*)', log).group(1),
    'c_demo_without_change': re.search(r'\(c\) demo without change: (.*)', log).group(1),
  },
}
json.dump(meta, open(f'{dst}/meta.json', 'w'), indent=1)
print('installed', dst)
