#!/usr/bin/env python3
"""Regenerates /verif/MANIFEST.json from the table below (kept by hand) and validates it."""
import json, os, sys
VERIF = os.path.dirname(os.path.dirname(os.path.abspath(__file__)))
props = [json.loads(l) for l in open(os.path.join(VERIF, 'properties.jsonl'))]

# property -> (technique, level text, level note (does not decide / trusted base), design ref)
CLAIMS = {}
NA = {}
exec(open(os.path.join(VERIF, 'tools', 'claims.py')).read())

setup = ("cd /verif && ./build.sh && (cd /repo && env -u GOWORK GOFLAGS=-mod=mod GOPROXY=off GOSUMDB=off GOTOOLCHAIN=local "
         "PATH=/opt/veriftools/go1.26.8/bin:$PATH go build ./... >/dev/null 2>&1 || true)")
m = {
 "version": 1,
 "setup_cmd": setup,
 "hooks": {"guard": "verif",
           "enable": "none: the checks are static analyses of /repo's source and compile no hooks into it",
           "baseline_off_cmd": "cd /repo && go build ./... && go test -vet=off -count=1 -timeout 25m ./...",
           "source_commits": [], "add_only": True},
 "engines": [{"name": "tfcheck", "path": "checker/cmd/tfcheck", "serves_properties": sorted(CLAIMS),
              "kind_free_text": "repository-specific static analyser: go/packages type-checked syntax, go/cfg must-pass / lockset dataflow with closure lifting, go/ssa value slices (x/tools v0.50.0, go1.26.8)"}],
 "checks": [],
 "notes": "All verdicts are static (no Thruflux code is executed). Every claim is a structural necessary condition of its property decided for all paths (level 'other'); see DESIGN.md sections 3 and 5 for what each check does not decide. selftest/ holds the checker's own mutant tests (not registered checks).",
 "not_applicable": [],
}
for p in props:
    pid = p['id']
    if pid in CLAIMS:
        c = CLAIMS[pid]
        m['checks'].append({
            "property_id": pid,
            "quick_cmd": f"./bin/tfcheck -prop {pid} -tier quick -repo /repo",
            "thorough_cmd": f"./bin/tfcheck -prop {pid} -tier thorough -repo /repo",
            "evidence_file": f"/verif/evidence/{pid}.json",
            "replay_cmd_template": "./bin/tfcheck -explain {path}",
            "engine": "tfcheck",
            "level_claimed": {"category": "other", "text": c['text'], "design_ref": c.get('ref', 'DESIGN.md section 3 / ' + pid)},
            "level_note": c['note'],
            "technique": c['technique'],
        })
    else:
        m['not_applicable'].append({"property_id": pid, "reason": NA.get(pid, "check not built yet (planned static rules: DESIGN.md section 3)")})
json.dump(m, open(os.path.join(VERIF, 'MANIFEST.json'), 'w'), indent=1)
print(len(m['checks']), 'checks,', len(m['not_applicable']), 'not applicable')
