#!/bin/bash
# Runs the registered checks against one seeded change: applies /verif/seeded/<id>/patch.diff to /repo,
# runs tfcheck for every property (evidence goes to a scratch dir so that committed evidence is untouched),
# and undoes the change straight afterwards. Usage: tools/seed_eval.sh <seed-id> [prop ...]
set -u
id="$1"; shift
dir=/verif/seeded/$id
[ -f "$dir/patch.diff" ] || { echo "no $dir/patch.diff"; exit 2; }
scratch=$(mktemp -d /tmp/seedeval.XXXX); mkdir -p $scratch/verif; cp /verif/known_findings.json $scratch/verif/
git -C /repo diff --quiet || { echo "/repo has uncommitted changes"; exit 2; }
git -C /repo apply "$dir/patch.diff" || { echo "patch does not apply"; exit 2; }
props="$*"; [ -n "$props" ] || props="C01 C02 C03 C04 C05 C06 C07 C08 C09 C10 C11 C12 C13 C14 C15 C16 C17 C18 C19"
for p in $props; do
  out=$(/verif/bin/tfcheck -prop $p -repo /repo -verif $scratch/verif 2>&1)
  if echo "$out" | grep -q "^VIOLATION"; then
    echo "== $p FIRES"; echo "$out" | grep -E "^  (VIOLATED|UNDECIDED|CHECK-FAILURE)" | cut -c1-400
  fi
done
git -C /repo checkout -- .
rm -rf $scratch
echo "done (repo restored: $(git -C /repo status --short | wc -l) modified files)"
