#!/bin/bash
# Independent confirmation of one candidate seed: tools/seed_vet.sh <src-dir-with-_seed> <id>
# Creates a scratch worktree of /repo HEAD under /tmp/vet/<id>, then
#  (a) applies patch.diff, builds, runs the whole suite  -> must pass
#  (b) copies the demo in, runs it with the patch         -> must fail
#  (c) reverts the patch, runs the demo                   -> must pass
# and removes the worktree. Prints one line per step and a final VET-OK / VET-FAIL.
set -u
export GOFLAGS=-mod=mod GOPROXY=off GOSUMDB=off GOTOOLCHAIN=local PATH=/opt/veriftools/go1.26.8/bin:$PATH; unset GOWORK
src="$1"; id="$2"
wt=/tmp/vet/$id
mkdir -p /tmp/vet
git -C /repo worktree remove --force $wt 2>/dev/null; rm -rf $wt
git -C /repo worktree add --detach $wt HEAD >/dev/null 2>&1 || { echo "cannot create worktree"; exit 2; }
cleanup() { git -C /repo worktree remove --force $wt >/dev/null 2>&1; rm -rf $wt; git -C /repo worktree prune; }
trap cleanup EXIT
cd $wt
demo=$(ls $src/demo_*.txt | head -1)
dest=$(grep -m1 -o -E '(internal|cmd|pkg)/[A-Za-z0-9_/]+/zz_[A-Za-z0-9_]+_test\.go' $demo)
[ -n "$dest" ] || { echo "no demo destination found in $demo"; exit 2; }
pkgdir=$(dirname $dest)
runpat=$(grep -o -E '^func (Test[A-Za-z0-9_]+)' $demo | sed 's/func //' | paste -sd'|')
res=ok
git apply $src/patch.diff || { echo "(a) patch does not apply"; exit 2; }
if git diff --name-only | grep -q '_test\.go$'; then echo "(a) patch touches test files"; res=fail; fi
if ! go build ./... 2>&1 | tail -5; then res=fail; fi
go vet ./$pkgdir >/dev/null 2>&1 || true
suite=$(go test -count=1 ./... 2>&1); rc=$?
echo "(a) suite with change: rc=$rc $(echo "$suite" | grep -c '^ok') ok, $(echo "$suite" | grep -c -E '^(FAIL|---)') fail-lines"
[ $rc -eq 0 ] || { echo "$suite" | grep -E '^(FAIL|--- FAIL|panic)' | head; res=fail; }
cp $demo $dest
n_fail=0
for i in 1 2 3; do
  out=$(timeout 300 go test -vet=off -count=1 -run "^($runpat)\$" ./$pkgdir 2>&1); rc=$?
  [ $rc -ne 0 ] && n_fail=$((n_fail+1))
done
echo "(b) demo with change: failed $n_fail/3"; echo "$out" | grep -E -- '--- FAIL|violat|Violat' | head -4 | cut -c1-300
[ $n_fail -eq 3 ] || res=fail
git apply -R $src/patch.diff
n_pass=0
for i in 1 2 3 4 5; do
  out=$(timeout 300 go test -vet=off -count=1 -run "^($runpat)\$" ./$pkgdir 2>&1); rc=$?
  [ $rc -eq 0 ] && n_pass=$((n_pass+1)) || echo "$out" | tail -5
done
echo "(c) demo without change: passed $n_pass/5"
[ $n_pass -eq 5 ] || res=fail
rm -f $dest
[ $res = ok ] && echo "VET-OK $id dest=$dest run=$runpat" || echo "VET-FAIL $id"
